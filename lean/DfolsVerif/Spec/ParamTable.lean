/- COMMITTED REFERENCE describing the repaired code (written by `harness/gen.py --write-spec`): parameter table of dfols/params.py (ParameterList.__init__ defaults, ParameterList.param_type).
   floats are raw binary64 bits; `.nptPlus d` is `npt + d`; references to earlier keys are inlined. -/
import DfolsVerif.Book.PyVal

namespace Dfols.Spec
open Dfols.Py

def paramDefaults : List (String × DExpr) := [
  ("general.rounding_error_constant", .flt 0x3FB999999999999A),  -- 0.1
  ("general.safety_step_thresh", .flt 0x3FE0000000000000),  -- 0.5
  ("general.check_objfun_for_overflow", .bool true),  -- True
  ("init.random_initial_directions", .ite (.gt (.npt) (.fdiv (.mul (.add (.n) (.lit 1)) (.add (.n) (.lit 2))) (.lit 2))) (.bool true) (.bool false)),  -- True if npt > (n + 1) * (n + 2) // 2 else False
  ("init.run_in_parallel", .bool false),  -- False
  ("init.random_directions_make_orthogonal", .bool true),  -- True
  ("interpolation.precondition", .bool true),  -- True
  ("interpolation.throw_error_on_nans", .bool false),  -- False
  ("logging.n_to_print_whole_x_vector", .int (.lit 6)),  -- 6
  ("logging.save_diagnostic_info", .bool false),  -- False
  ("logging.save_poisedness", .bool true),  -- True
  ("logging.save_xk", .bool false),  -- False
  ("logging.save_rk", .bool false),  -- False
  ("tr_radius.eta1", .flt 0x3FB999999999999A),  -- 0.1
  ("tr_radius.eta2", .flt 0x3FE6666666666666),  -- 0.7
  ("tr_radius.gamma_dec", .ite (.noise) (.flt 0x3FEF5C28F5C28F5C) (.flt 0x3FE0000000000000)),  -- 0.98 if objfun_has_noise else 0.5
  ("tr_radius.gamma_inc", .flt 0x4000000000000000),  -- 2.0
  ("tr_radius.gamma_inc_overline", .flt 0x4010000000000000),  -- 4.0
  ("tr_radius.alpha1", .ite (.noise) (.flt 0x3FECCCCCCCCCCCCD) (.flt 0x3FB999999999999A)),  -- 0.9 if objfun_has_noise else 0.1
  ("tr_radius.alpha2", .ite (.noise) (.flt 0x3FEE666666666666) (.flt 0x3FE0000000000000)),  -- 0.95 if objfun_has_noise else 0.5
  ("model.abs_tol", .flt 0x3D719799812DEA11),  -- 1e-12
  ("model.rel_tol", .flt 0x3BC79CA10C924223),  -- 1e-20
  ("slow.history_for_slow", .int (.lit 5)),  -- 5
  ("slow.thresh_for_slow", .flt 0x3F1A36E2EB1C432D),  -- 0.0001
  ("slow.max_slow_iters", .int (.mul (.lit 20) (.n))),  -- 20 * n
  ("noise.quit_on_noise_level", .ite (.noise) (.bool true) (.bool false)),  -- True if objfun_has_noise else False
  ("noise.scale_factor_for_quit", .flt 0x3FF0000000000000),  -- 1.0
  ("noise.multiplicative_noise_level", .none),  -- None
  ("noise.additive_noise_level", .none),  -- None
  ("regression.num_extra_steps", .int (.lit 0)),  -- 0
  ("regression.increase_num_extra_steps_with_restart", .int (.lit 0)),  -- 0
  ("regression.momentum_extra_steps", .bool false),  -- False
  ("restarts.use_restarts", .ite (.noise) (.bool true) (.bool false)),  -- True if objfun_has_noise else False
  ("restarts.max_unsuccessful_restarts", .int (.lit 10)),  -- 10
  ("restarts.rhoend_scale", .flt 0x3FF0000000000000),  -- 1.0
  ("restarts.use_soft_restarts", .bool true),  -- True
  ("restarts.soft.num_geom_steps", .int (.lit 3)),  -- 3
  ("restarts.soft.move_xk", .bool true),  -- True
  ("restarts.soft.max_fake_successful_steps", .int (.maxfun)),  -- maxfun
  ("restarts.hard.use_old_rk", .bool true),  -- True
  ("restarts.increase_npt", .bool false),  -- False
  ("restarts.increase_npt_amt", .int (.lit 1)),  -- 1
  ("restarts.hard.increase_ndirs_initial_amt", .int (.lit 1)),  -- 1
  ("restarts.max_npt", .int (.npt)),  -- npt
  ("restarts.auto_detect", .bool true),  -- True
  ("restarts.auto_detect.history", .int (.lit 30)),  -- 30
  ("restarts.auto_detect.min_chgJ_slope", .flt 0x3F8EB851EB851EB8),  -- 0.015
  ("restarts.auto_detect.min_correl", .flt 0x3FB999999999999A),  -- 0.1
  ("growing.ndirs_initial", .int (.sub (.npt) (.lit 1))),  -- npt - 1
  ("growing.num_new_dirns_each_iter", .int (.lit 0)),  -- 0
  ("growing.delta_scale_new_dirns", .flt 0x3FF0000000000000),  -- 1.0
  ("growing.do_geom_steps", .bool false),  -- False
  ("growing.reset_delta", .bool false),  -- False
  ("growing.reset_rho", .bool false),  -- False
  ("growing.gamma_dec", .ite (.noise) (.flt 0x3FEF5C28F5C28F5C) (.flt 0x3FE0000000000000)),  -- self.params['tr_radius.gamma_dec']
  ("growing.safety.do_safety_step", .bool true),  -- True
  ("growing.safety.reduce_delta", .bool false),  -- False
  ("growing.safety.full_geom_step", .bool false),  -- False
  ("growing.full_rank.use_full_rank_interp", .bool true),  -- True
  ("growing.full_rank.scale_factor", .flt 0x3F847AE147AE147B),  -- 0.01
  ("growing.full_rank.svd_scale_factor", .flt 0x3FF0000000000000),  -- 1.0
  ("growing.full_rank.min_sing_val", .flt 0x3EB0C6F7A0B5ED8D),  -- 1e-06
  ("growing.full_rank.svd_max_jac_cond", .flt 0x4197D78400000000),  -- 100000000.0
  ("growing.perturb_trust_region_step", .bool false),  -- False
  ("dykstra.d_tol", .flt 0x3DDB7CDFD9D7BDBB),  -- 1e-10
  ("dykstra.max_iters", .int (.lit 100)),  -- 100
  ("matrix_rank.r_tol", .flt 0x3C32725DD1D243AC),  -- 1e-18
  ("func_tol.criticality_measure", .flt 0x3F50624DD2F1A9FC),  -- 0.001
  ("func_tol.tr_step", .flt 0x3FECCCCCCCCCCCCD),  -- 1 - 0.1
  ("func_tol.max_iters", .int (.lit 500)),  -- 500
  ("sfista.max_iters_scaling", .flt 0x4000000000000000)  -- 2.0
]

def paramTypes : List (String × TypeEntry) := [
  ("general.rounding_error_constant", ⟨.float, false, .flt 0x0000000000000000, .none⟩),  -- ('float', False, 0.0, None)
  ("general.safety_step_thresh", ⟨.float, false, .flt 0x0000000000000000, .none⟩),  -- ('float', False, 0.0, None)
  ("general.check_objfun_for_overflow", ⟨.bool, false, .none, .none⟩),  -- ('bool', False, None, None)
  ("init.random_initial_directions", ⟨.bool, false, .none, .none⟩),  -- ('bool', False, None, None)
  ("init.run_in_parallel", ⟨.bool, false, .none, .none⟩),  -- ('bool', False, None, None)
  ("init.random_directions_make_orthogonal", ⟨.bool, false, .none, .none⟩),  -- ('bool', False, None, None)
  ("interpolation.precondition", ⟨.bool, false, .none, .none⟩),  -- ('bool', False, None, None)
  ("interpolation.throw_error_on_nans", ⟨.bool, false, .none, .none⟩),  -- ('bool', False, None, None)
  ("logging.n_to_print_whole_x_vector", ⟨.int, false, .int 0, .none⟩),  -- ('int', False, 0, None)
  ("logging.save_diagnostic_info", ⟨.bool, false, .none, .none⟩),  -- ('bool', False, None, None)
  ("logging.save_poisedness", ⟨.bool, false, .none, .none⟩),  -- ('bool', False, None, None)
  ("logging.save_xk", ⟨.bool, false, .none, .none⟩),  -- ('bool', False, None, None)
  ("logging.save_rk", ⟨.bool, false, .none, .none⟩),  -- ('bool', False, None, None)
  ("tr_radius.eta1", ⟨.float, false, .flt 0x0000000000000000, .flt 0x3FF0000000000000⟩),  -- ('float', False, 0.0, 1.0)
  ("tr_radius.eta2", ⟨.float, false, .flt 0x0000000000000000, .flt 0x3FF0000000000000⟩),  -- ('float', False, 0.0, 1.0)
  ("tr_radius.gamma_dec", ⟨.float, false, .flt 0x0000000000000000, .flt 0x3FF0000000000000⟩),  -- ('float', False, 0.0, 1.0)
  ("tr_radius.gamma_inc", ⟨.float, false, .flt 0x3FF0000000000000, .none⟩),  -- ('float', False, 1.0, None)
  ("tr_radius.gamma_inc_overline", ⟨.float, false, .flt 0x3FF0000000000000, .none⟩),  -- ('float', False, 1.0, None)
  ("tr_radius.alpha1", ⟨.float, false, .flt 0x0000000000000000, .flt 0x3FF0000000000000⟩),  -- ('float', False, 0.0, 1.0)
  ("tr_radius.alpha2", ⟨.float, false, .flt 0x0000000000000000, .flt 0x3FF0000000000000⟩),  -- ('float', False, 0.0, 1.0)
  ("model.abs_tol", ⟨.float, false, .flt 0x0000000000000000, .none⟩),  -- ('float', False, 0.0, None)
  ("model.rel_tol", ⟨.float, false, .flt 0x0000000000000000, .flt 0x3FF0000000000000⟩),  -- ('float', False, 0.0, 1.0)
  ("slow.history_for_slow", ⟨.int, false, .int 1, .none⟩),  -- ('int', False, 1, None)
  ("slow.thresh_for_slow", ⟨.float, false, .int 0, .none⟩),  -- ('float', False, 0, None)
  ("slow.max_slow_iters", ⟨.int, false, .int 0, .none⟩),  -- ('int', False, 0, None)
  ("noise.quit_on_noise_level", ⟨.bool, false, .none, .none⟩),  -- ('bool', False, None, None)
  ("noise.scale_factor_for_quit", ⟨.float, false, .flt 0x0000000000000000, .none⟩),  -- ('float', False, 0.0, None)
  ("noise.multiplicative_noise_level", ⟨.float, true, .flt 0x0000000000000000, .none⟩),  -- ('float', True, 0.0, None)
  ("noise.additive_noise_level", ⟨.float, true, .flt 0x0000000000000000, .none⟩),  -- ('float', True, 0.0, None)
  ("regression.num_extra_steps", ⟨.int, false, .int 0, .none⟩),  -- ('int', False, 0, None)
  ("regression.increase_num_extra_steps_with_restart", ⟨.int, false, .int 0, .none⟩),  -- ('int', False, 0, None)
  ("regression.momentum_extra_steps", ⟨.bool, false, .none, .none⟩),  -- ('bool', False, None, None)
  ("restarts.use_restarts", ⟨.bool, false, .none, .none⟩),  -- ('bool', False, None, None)
  ("restarts.max_unsuccessful_restarts", ⟨.int, false, .int 0, .none⟩),  -- ('int', False, 0, None)
  ("restarts.rhoend_scale", ⟨.float, false, .flt 0x0000000000000000, .none⟩),  -- ('float', False, 0.0, None)
  ("restarts.use_soft_restarts", ⟨.bool, false, .none, .none⟩),  -- ('bool', False, None, None)
  ("restarts.soft.num_geom_steps", ⟨.int, false, .int 0, .none⟩),  -- ('int', False, 0, None)
  ("restarts.soft.move_xk", ⟨.bool, false, .none, .none⟩),  -- ('bool', False, None, None)
  ("restarts.soft.max_fake_successful_steps", ⟨.int, false, .int 1, .none⟩),  -- ('int', False, 1, None)
  ("restarts.hard.use_old_rk", ⟨.bool, false, .none, .none⟩),  -- ('bool', False, None, None)
  ("restarts.increase_npt", ⟨.bool, false, .none, .none⟩),  -- ('bool', False, None, None)
  ("restarts.increase_npt_amt", ⟨.int, false, .int 0, .none⟩),  -- ('int', False, 0, None)
  ("restarts.hard.increase_ndirs_initial_amt", ⟨.int, false, .int 0, .none⟩),  -- ('int', False, 0, None)
  ("restarts.max_npt", ⟨.int, false, .nptPlus 0, .none⟩),  -- ('int', False, npt, None)
  ("restarts.auto_detect", ⟨.bool, false, .none, .none⟩),  -- ('bool', False, None, None)
  ("restarts.auto_detect.history", ⟨.int, false, .int 1, .none⟩),  -- ('int', False, 1, None)
  ("restarts.auto_detect.min_chgJ_slope", ⟨.float, false, .flt 0x0000000000000000, .none⟩),  -- ('float', False, 0.0, None)
  ("restarts.auto_detect.min_correl", ⟨.float, false, .flt 0x0000000000000000, .flt 0x3FF0000000000000⟩),  -- ('float', False, 0.0, 1.0)
  ("growing.ndirs_initial", ⟨.int, false, .int 1, .nptPlus (-1)⟩),  -- ('int', False, 1, npt - 1)
  ("growing.num_new_dirns_each_iter", ⟨.int, false, .int 0, .none⟩),  -- ('int', False, 0, None)
  ("growing.delta_scale_new_dirns", ⟨.float, false, .flt 0x0000000000000000, .none⟩),  -- ('float', False, 0.0, None)
  ("growing.do_geom_steps", ⟨.bool, false, .none, .none⟩),  -- ('bool', False, None, None)
  ("growing.reset_delta", ⟨.bool, false, .none, .none⟩),  -- ('bool', False, None, None)
  ("growing.reset_rho", ⟨.bool, false, .none, .none⟩),  -- ('bool', False, None, None)
  ("growing.gamma_dec", ⟨.float, false, .flt 0x0000000000000000, .flt 0x3FF0000000000000⟩),  -- ('float', False, 0.0, 1.0)
  ("growing.safety.do_safety_step", ⟨.bool, false, .none, .none⟩),  -- ('bool', False, None, None)
  ("growing.safety.reduce_delta", ⟨.bool, false, .none, .none⟩),  -- ('bool', False, None, None)
  ("growing.safety.full_geom_step", ⟨.bool, false, .none, .none⟩),  -- ('bool', False, None, None)
  ("growing.full_rank.use_full_rank_interp", ⟨.bool, false, .none, .none⟩),  -- ('bool', False, None, None)
  ("growing.full_rank.scale_factor", ⟨.float, true, .flt 0x0000000000000000, .none⟩),  -- ('float', True, 0.0, None)
  ("growing.full_rank.min_sing_val", ⟨.float, true, .flt 0x0000000000000000, .flt 0x3FF0000000000000⟩),  -- ('float', True, 0.0, 1.0)
  ("growing.full_rank.svd_scale_factor", ⟨.float, true, .flt 0x0000000000000000, .flt 0x3FF0000000000000⟩),  -- ('float', True, 0.0, 1.0)
  ("growing.full_rank.svd_max_jac_cond", ⟨.float, true, .flt 0x3FF0000000000000, .none⟩),  -- ('float', True, 1.0, None)
  ("growing.perturb_trust_region_step", ⟨.bool, false, .none, .none⟩),  -- ('bool', False, None, None)
  ("dykstra.d_tol", ⟨.float, false, .flt 0x0000000000000000, .none⟩),  -- ('float', False, 0.0, None)
  ("dykstra.max_iters", ⟨.int, false, .int 1, .none⟩),  -- ('int', False, 1, None)
  ("matrix_rank.r_tol", ⟨.float, false, .flt 0x0000000000000000, .none⟩),  -- ('float', False, 0.0, None)
  ("func_tol.criticality_measure", ⟨.float, false, .flt 0x0000000000000000, .flt 0x3FF0000000000000⟩),  -- ('float', False, 0.0, 1.0)
  ("func_tol.tr_step", ⟨.float, false, .flt 0x0000000000000000, .flt 0x3FF0000000000000⟩),  -- ('float', False, 0.0, 1.0)
  ("func_tol.max_iters", ⟨.int, false, .int 1, .none⟩),  -- ('int', False, 1, None)
  ("sfista.max_iters_scaling", ⟨.float, false, .flt 0x3FF0000000000000, .none⟩)  -- ('float', False, 1.0, None)
]

end Dfols.Spec
