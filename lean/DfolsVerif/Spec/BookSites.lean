/- REFERENCE copy (tree the acceptor Accept/BookAcc.lean mirrors): (site, 60-bit sha256 of the canonical argument source) of every book-keeping call. -/
namespace Dfols.Spec

def bookSites : List (String × Nat) := [
  -- kmin, rvec_extra=rvec_list[i, :]
  ("controller.py:add_new_direction_while_growing:add_new_sample", 741816584844031634),
  -- kmin, xnew, rvec_list[0, :], self.nx
  ("controller.py:add_new_direction_while_growing:change_point", 17304309544488859),
  -- x, np.mean(rvec_list[:num_samples_run, :], axis=0), num_samples_run, self.nx, x_in_abs_coords=True
  ("controller.py:add_new_direction_while_growing:save_point", 737231410832774858),
  -- self.model.xopt()
  ("controller.py:check_and_fix_geometry:shift_base", 16466508641629949),
  -- knew, rvec_extra=rvec_list[i, :]
  ("controller.py:geometry_step:add_new_sample", 235345418694213003),
  -- knew, xnew, rvec_list[0, :], self.nx
  ("controller.py:geometry_step:change_point", 500864486248717127),
  -- x, np.mean(rvec_list[:num_samples_run, :], axis=0), num_samples_run, self.nx, x_in_abs_coords=True
  ("controller.py:geometry_step:save_point", 737231410832774858),
  -- k + 1, rvec_extra=rvec_list[i, :]
  ("controller.py:initialise_coordinate_directions:add_new_sample", 98318901612975231),
  -- k, rvec_extra=rvec_list[i, :]
  ("controller.py:initialise_coordinate_directions:add_new_sample", 582150380868342675),
  -- k, rvec_extra=rvec_list[i, :]
  ("controller.py:initialise_coordinate_directions:add_new_sample", 582150380868342675),
  -- k + 1, x - self.model.xbase, rvec_list[0, :], self.nx
  ("controller.py:initialise_coordinate_directions:change_point", 940912677696740275),
  -- k, x - self.model.xbase, rvec_list[0, :], self.nx
  ("controller.py:initialise_coordinate_directions:change_point", 818465464683013274),
  -- k, x - self.model.xbase, rvec_list[0, :], self.nx
  ("controller.py:initialise_coordinate_directions:change_point", 818465464683013274),
  -- x, np.mean(rvec_list[:num_samples_run, :], axis=0), num_samples_run, self.nx, x_in_abs_coords=True
  ("controller.py:initialise_coordinate_directions:save_point", 737231410832774858),
  -- x, np.mean(rvec_list[:num_samples_run, :], axis=0), num_samples_run, self.nx, x_in_abs_coords=True
  ("controller.py:initialise_coordinate_directions:save_point", 737231410832774858),
  -- x, np.mean(rvec_list[:num_samples_run, :], axis=0), num_samples_run, self.nx, x_in_abs_coords=True
  ("controller.py:initialise_coordinate_directions:save_point", 737231410832774858),
  -- 1 + ndirns, rvec_extra=rvec_list[i, :]
  ("controller.py:initialise_random_directions:add_new_sample", 646617426253115077),
  -- 1 + ndirns, rvec_extra=rvec_list[i, :]
  ("controller.py:initialise_random_directions:add_new_sample", 646617426253115077),
  -- 1 + ndirns, x - self.model.xbase, rvec_list[0, :], self.nx
  ("controller.py:initialise_random_directions:change_point", 142514022308204015),
  -- 1 + ndirns, x - self.model.xbase, rvec_list[0, :], self.nx
  ("controller.py:initialise_random_directions:change_point", 142514022308204015),
  -- x, np.mean(rvec_list[:num_samples_run, :], axis=0), num_samples_run, self.nx, x_in_abs_coords=True
  ("controller.py:initialise_random_directions:save_point", 737231410832774858),
  -- x, np.mean(rvec_list[:num_samples_run, :], axis=0), num_samples_run, self.nx, x_in_abs_coords=True
  ("controller.py:initialise_random_directions:save_point", 737231410832774858),
  -- knew, rvec_extra=rvec_list[i, :]
  ("controller.py:move_furthest_points_momentum:add_new_sample", 235345418694213003),
  -- knew, xnew, rvec_list[0, :], self.nx
  ("controller.py:move_furthest_points_momentum:change_point", 500864486248717127),
  -- x, np.mean(rvec_list[:num_samples_run, :], axis=0), num_samples_run, self.nx, x_in_abs_coords=True
  ("controller.py:move_furthest_points_momentum:save_point", 737231410832774858),
  -- xnew, rvec_list[0, :], self.nx
  ("controller.py:soft_restart:add_new_point", 541417279456786303),
  -- self.model.npt() - 1, rvec_extra=rvec_list[i, :]
  ("controller.py:soft_restart:add_new_sample", 238553600168828792),
  -- self.model.xopt(abs_coordinates=True), self.model.ropt(), self.model.nsamples[self.model.kopt], self.model.eval_num[self.model.kopt], x_in_abs_coords=True
  ("controller.py:soft_restart:save_point", 416627041539430458),
  -- x, np.mean(rvec_list[:num_samples_run, :], axis=0), num_samples_run, self.nx, x_in_abs_coords=True
  ("controller.py:soft_restart:save_point", 737231410832774858),
  -- x_in_abs_coords_to_save, rvec_to_save, nsamples_to_save, self.nx, x_in_abs_coords=True
  ("controller.py:soft_restart:save_point", 564746844595569682),
  -- objmin2 < objmin or np.isnan(objmin) => if do_logging:     module_logger.info('Successful run with new f = %s compared to old f = %s' % (objmin2, objmin)) ; last_successful_run = nruns ; xmin, rmin, objmin, nsamples_min, xmin_eval_num = (xmin2, rmin2, objmin2,
  ("solver.py:solve:restart-merge", 884758855548091348),
  -- knew, rvec_extra=rvec_list[i, :]
  ("solver.py:solve_main:add_new_sample", 235345418694213003),
  -- knew, xnew, rvec_list[0, :], control.nx
  ("solver.py:solve_main:change_point", 519620109765654835),
  -- 
  ("solver.py:solve_main:get_final_results", 1025426827051516353),
  -- 
  ("solver.py:solve_main:get_final_results", 1025426827051516353),
  -- return (x, rvec, obj, None, nsamples, control.nf, control.nx, nruns_so_far + 1, exit_info, diagnostic_info, x_eval_num, jac_eval_nums)
  ("solver.py:solve_main:return", 524978234292219718),
  -- return (x, rvec, obj, jacmin, nsamples, control.nf, control.nx, nruns_so_far, exit_info, diagnostic_info, x_eval_num, jac_eval_nums)
  ("solver.py:solve_main:return", 1130126148680828239),
  -- return (x0, r0_avg, obj0_avg, None, num_samples_run, nf, nx, nruns_so_far + 1, exit_info, diagnostic_info, xmin_eval_num, jacmin_eval_nums)
  ("solver.py:solve_main:return", 462156304829239315),
  -- x, np.mean(rvec_list[:num_samples_run, :], axis=0), num_samples_run, control.nx, x_in_abs_coords=True
  ("solver.py:solve_main:save_point", 920882048370633753),
  -- x, np.mean(rvec_list[:num_samples_run, :], axis=0), num_samples_run, control.nx, x_in_abs_coords=True
  ("solver.py:solve_main:save_point", 920882048370633753),
  -- x, np.mean(rvec_list[:num_samples_run, :], axis=0), num_samples_run, control.nx, x_in_abs_coords=True
  ("solver.py:solve_main:save_point", 920882048370633753),
  -- base_shift
  ("solver.py:solve_main:shift_base", 853399172137689546)
]

end Dfols.Spec
