/- COMMITTED REFERENCE describing the repaired code (written by `harness/gen.py --write-spec`): exit codes, message stems, restartability, result constructor, user-guide constants.
   Field meanings: DfolsVerif/Book/ExitTable.lean. -/
import DfolsVerif.Book.ExitTable

namespace Dfols.Spec
open Dfols.Py

def exitTable : ExitTable where
  constants := [
    ("EXIT_TR_INCREASE_WARNING", 5),
    ("EXIT_AUTO_DETECT_RESTART_WARNING", 4),
    ("EXIT_FALSE_SUCCESS_WARNING", 3),
    ("EXIT_SLOW_WARNING", 2),
    ("EXIT_MAXFUN_WARNING", 1),
    ("EXIT_SUCCESS", 0),
    ("EXIT_INPUT_ERROR", (-1)),
    ("EXIT_TR_INCREASE_ERROR", (-2)),
    ("EXIT_LINALG_ERROR", (-3)),
    ("EXIT_EVAL_ERROR", (-4))]
  controllerAll := ["EXIT_AUTO_DETECT_RESTART_WARNING", "EXIT_EVAL_ERROR", "EXIT_FALSE_SUCCESS_WARNING", "EXIT_INPUT_ERROR", "EXIT_LINALG_ERROR", "EXIT_MAXFUN_WARNING", "EXIT_SLOW_WARNING", "EXIT_SUCCESS", "EXIT_TR_INCREASE_ERROR", "EXIT_TR_INCREASE_WARNING"]
  stems := [
    ("EXIT_SUCCESS", "Success: "),
    ("EXIT_SLOW_WARNING", "Warning (slow progress): "),
    ("EXIT_MAXFUN_WARNING", "Warning (max evals): "),
    ("EXIT_TR_INCREASE_WARNING", "Warning (trust region increase): "),
    ("EXIT_INPUT_ERROR", "Error (bad input): "),
    ("EXIT_TR_INCREASE_ERROR", "Error (trust region increase): "),
    ("EXIT_LINALG_ERROR", "Error (linear algebra): "),
    ("EXIT_FALSE_SUCCESS_WARNING", "Warning (max false good steps): "),
    ("EXIT_AUTO_DETECT_RESTART_WARNING", "Warning (auto-detected restart): "),
    ("EXIT_EVAL_ERROR", "Error (function evaluation): ")]
  unknownStem := "Unknown exit flag: "
  restartYes := ["EXIT_TR_INCREASE_ERROR", "EXIT_TR_INCREASE_WARNING", "EXIT_LINALG_ERROR", "EXIT_SLOW_WARNING", "EXIT_AUTO_DETECT_RESTART_WARNING", "EXIT_EVAL_ERROR"]
  restartNo := ["EXIT_MAXFUN_WARNING", "EXIT_INPUT_ERROR"]
  resultArityMin := 11
  resultArityMax := 11
  resultAttrs := [
    ("EXIT_AUTO_DETECT_RESTART_WARNING", "EXIT_AUTO_DETECT_RESTART_WARNING"),
    ("EXIT_EVAL_ERROR", "EXIT_EVAL_ERROR"),
    ("EXIT_FALSE_SUCCESS_WARNING", "EXIT_FALSE_SUCCESS_WARNING"),
    ("EXIT_INPUT_ERROR", "EXIT_INPUT_ERROR"),
    ("EXIT_LINALG_ERROR", "EXIT_LINALG_ERROR"),
    ("EXIT_MAXFUN_WARNING", "EXIT_MAXFUN_WARNING"),
    ("EXIT_SLOW_WARNING", "EXIT_SLOW_WARNING"),
    ("EXIT_SUCCESS", "EXIT_SUCCESS"),
    ("EXIT_TR_INCREASE_ERROR", "EXIT_TR_INCREASE_ERROR"),
    ("EXIT_TR_INCREASE_WARNING", "EXIT_TR_INCREASE_WARNING")]
  resultCallArities := [11, 11]
  solveExitMessages := [
    ("EXIT_INPUT_ERROR", "Must provide prox_uh input if h is not None"),
    ("EXIT_INPUT_ERROR", "Must provide lh input if h is not None"),
    ("EXIT_INPUT_ERROR", "lh must be strictly positive"),
    ("EXIT_INPUT_ERROR", "npt must be >= n+1 for linear models with inexact interpolation"),
    ("EXIT_INPUT_ERROR", "rhobeg must be strictly positive"),
    ("EXIT_INPUT_ERROR", "rhoend must be strictly positive"),
    ("EXIT_INPUT_ERROR", "rhobeg must be > rhoend"),
    ("EXIT_INPUT_ERROR", "maxfun must be strictly positive"),
    ("EXIT_INPUT_ERROR", "x0 must be a vector"),
    ("EXIT_INPUT_ERROR", "lower bounds must have same shape as x0"),
    ("EXIT_INPUT_ERROR", "upper bounds must have same shape as x0"),
    ("EXIT_INPUT_ERROR", "gap between lower and upper must be at least 2*rhobeg"),
    ("EXIT_INPUT_ERROR", "Bad parameters: %s"),
    ("EXIT_INPUT_ERROR", "Safety step while growing: either reduce delta -or- full geom step"),
    ("EXIT_INPUT_ERROR", "Growing: either make J full rank -or- perturb trust region step"),
    ("EXIT_INPUT_ERROR", "Must have exactly one of additive or multiplicative noise estimate"),
    ("EXIT_INPUT_ERROR", "Parallel initialisation not yet developed for coordinate initial directions"),
    ("EXIT_INPUT_ERROR", "Growing: if resetting rho, must also reset delta"),
    ("EXIT_SUCCESS", "Reached maximum number of unsuccessful restarts")]
  userGuideExits := ["EXIT_SUCCESS", "EXIT_MAXFUN_WARNING", "EXIT_SLOW_WARNING", "EXIT_FALSE_SUCCESS_WARNING", "EXIT_TR_INCREASE_WARNING", "EXIT_AUTO_DETECT_RESTART_WARNING", "EXIT_INPUT_ERROR", "EXIT_TR_INCREASE_ERROR", "EXIT_LINALG_ERROR", "EXIT_EVAL_ERROR"]

end Dfols.Spec
