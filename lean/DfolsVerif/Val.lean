/-
  Objective values as the bookkeeping code sees them.

  The bookkeeping layers of DFO-LS (`Model`, `Controller` counters, `solve_main`'s result
  selection) never do arithmetic on objective values: they only *compare* them
  (`<`, `<=`, `np.isnan`, `np.argmin`).  A non-NaN IEEE double is mapped by the harness to an
  integer *order key* (sign-magnitude reinterpretation of its 64 bits, `-0.0 ↦ 0`), which is an
  order embedding of the non-NaN doubles (including ±inf) into `Int`.  Hence a value is

      `Val.nan`  or  `Val.num k`  with `k : Int`

  and every theorem quantified over `Val` covers every pattern of doubles the code can meet.
  Comparisons follow IEEE/Python semantics: anything involving NaN is `false`.
-/
namespace Dfols

inductive Val where
  | nan : Val
  | num (k : Int) : Val
deriving DecidableEq, Repr, Inhabited

namespace Val

/-- Python/IEEE `a < b` (false when either side is NaN). -/
def lt : Val → Val → Bool
  | num a, num b => decide (a < b)
  | _, _ => false

/-- Python/IEEE `a <= b` (false when either side is NaN). -/
def le : Val → Val → Bool
  | num a, num b => decide (a ≤ b)
  | _, _ => false

def isNaN : Val → Bool
  | nan => true
  | num _ => false

/-- `Better a b`: `a` is at least as good as `b` — NaN is worst, otherwise `≤`. -/
def Better : Val → Val → Prop
  | _, nan => True
  | nan, num _ => False
  | num a, num b => a ≤ b

instance : (a b : Val) → Decidable (Better a b)
  | _, nan => isTrue trivial
  | nan, num _ => isFalse (fun h => h)
  | num a, num b => inferInstanceAs (Decidable (a ≤ b))

theorem Better.refl (a : Val) : Better a a := by
  cases a <;> simp [Better]

theorem Better.trans {a b c : Val} (h1 : Better a b) (h2 : Better b c) : Better a c := by
  cases a <;> cases b <;> cases c <;> simp_all [Better] <;> omega

theorem Better.total (a b : Val) : Better a b ∨ Better b a := by
  cases a <;> cases b <;> simp [Better] <;> omega

theorem better_of_lt {a b : Val} (h : lt a b = true) : Better a b := by
  cases a <;> cases b <;> simp_all [lt, Better] <;> omega

theorem better_of_le {a b : Val} (h : le a b = true) : Better a b := by
  cases a <;> cases b <;> simp_all [le, Better]

/-- If `a < b` fails and `b` is a number then `b` is at least as good as `a`. -/
theorem better_of_not_lt {a b : Val} (h : lt a b = false) (hb : isNaN b = false) : Better b a := by
  cases a <;> cases b <;> simp_all [lt, Better, isNaN] <;> omega

theorem better_of_not_le {a b : Val} (h : le a b = false) (hb : isNaN b = false) : Better b a := by
  cases a <;> cases b <;> simp_all [le, Better, isNaN] <;> omega

theorem better_nan (a : Val) : Better a nan := by cases a <;> simp [Better]

theorem not_nan_of_better_num {a : Val} {k : Int} (h : Better a (num k)) : isNaN a = false := by
  cases a <;> simp_all [Better, isNaN]

/-- a finite (non-NaN) value -/
def isNum (a : Val) : Bool := !a.isNaN

end Val
end Dfols
