#!/bin/bash
# MANIFEST.setup_cmd: regenerate every generated Lean table from /repo's current tree, then build the whole Lean project.
# The generated files under lean/DfolsVerif/Gen/ are committed only as a convenience; they are rewritten here and again at the
# start of every check, so a stale copy (generated from another tree) can never be what a theorem is checked against.
# A module that no longer builds because /repo changed is NOT a setup failure: the checks of the properties that own the
# module rebuild it themselves and report it (broken obligation -> failing-input search).  Only a missing toolchain fails setup.
cd "$(dirname "$0")"
export PYTHONDONTWRITEBYTECODE=1
command -v lake >/dev/null || { echo "setup: lake not on PATH"; exit 2; }
(cd harness && /venv/bin/python gen_all.py) || echo "setup: table generation reported a failure (the checks report it per property)"
(cd lean && lake build 2>&1 | tail -15) || true
if ! (cd lean && lake build DfolsVerif.Val >/dev/null 2>&1); then echo "setup: Lean toolchain cannot build the base module"; exit 2; fi
exit 0
