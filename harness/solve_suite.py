"""Shared machinery for the solve-level (trace) properties C02, C03, C04, C08, C10:
generate runs, feed the recorded traces to the Lean acceptors, compare the acceptors' predictions
with the real OptimResults, run the direct oracles."""
from __future__ import annotations

import re
import numpy as np
import core
import trace as tr
import problems
import solve_oracles as so

ACCEPT_TARGETS = ["DfolsVerif.Driver.AcceptDrv"]


# A time limit is not a termination oracle: regularised runs with projections need ~2 s of CPU per ITERATION under the tracer
# (S-FISTA x Dykstra: up to 500 x 100 x 4 projection calls, twice per iteration), so the checks that REPORT an alarm as
# non-termination (C07 generic, C18; C08 does the same itself) ask for `patient=True`: a run that exceeds the short limit is
# repeated from scratch with a long one first (thorough-tier false alarm of C07, DESIGN 5.1).  After two runs that also exceeded
# the long limit the short one is taken at its word (a tree that hangs would otherwise cost SLOW_LIMIT per instance).  Suites
# that only count alarms (C02, C03, C04, C10: a truncated run is simply not judged) keep the short limit.
SLOW_LIMIT = 400.0
SLOW_STATS = {"repeated_with_long_limit": 0, "confirmed_hangs": 0}


def gen_run(dfols, seed_tuple, allow=None, alarm=10.0, mutate_cfg=None, fault=None, maxfun_override=None, patient=False):
    rng = np.random.default_rng(seed_tuple)
    prob = problems.rand_problem(rng)
    if allow is None:
        kw, d = problems.rand_config(rng, prob)
    else:
        kw, d = problems.rand_config(rng, prob, allow=allow)
    if mutate_cfg is not None:
        mutate_cfg(rng, prob, kw, d)
    if maxfun_override is not None:
        kw["maxfun"] = int(maxfun_override)
        d["maxfun"] = int(maxfun_override)
        d["maxfun_override"] = True
    f = prob["f"]
    if d.get("avg") and rng.random() < 0.5:
        # a genuinely noisy objective under sample averaging (seeded: the run replays exactly): with a deterministic one
        # every sample of a point is the same vector and a mix-up of samples would be invisible
        nrng = np.random.default_rng([int(v) for v in seed_tuple] + [4242])
        f0 = f

        def f(x, f0=f0, nrng=nrng):
            r = np.asarray(f0(x), dtype=float)
            return r + 1e-3 * (1.0 + np.abs(r)) * nrng.normal(size=r.shape)
        d["noisy_objective"] = True
    if fault is not None:
        f = problems.faulty(f, fault[0], fault[1])
        d["fault"] = list(fault)
    kw2 = dict(kw)
    h = kw2.pop("h", None)
    # NumPy's GLOBAL generator feeds the documented-random options (random initial directions, growing, momentum,
    # increase_npt) and the rank-repair loops of the projection branch: seed it so that every run replays exactly
    np.random.seed(int(sum((j + 1) * int(v) for j, v in enumerate(seed_tuple)) * 7919 % (2 ** 32)))
    t = tr.traced_solve(dfols, f, prob["x0"], alarm=alarm, h=h, **kw2)
    if patient and isinstance(t.exception, core.Alarm) and alarm < SLOW_LIMIT and SLOW_STATS["confirmed_hangs"] < 2:
        SLOW_STATS["repeated_with_long_limit"] += 1
        prob, kw, d, t = gen_run(dfols, seed_tuple, allow=allow, alarm=SLOW_LIMIT, mutate_cfg=mutate_cfg, fault=fault,
                                 maxfun_override=maxfun_override, patient=False)
        d["repeated_with_long_limit"] = True
        if isinstance(t.exception, core.Alarm):
            SLOW_STATS["confirmed_hangs"] += 1
    return prob, kw, d, t


def lean_accept(runs):
    """runs: list of (maxfun, hasH, trace[, max_unsucc, abs_tol]) -> list of reply strings (one per run)"""
    lines = []
    for run in runs:
        maxfun, hasH, t = run[0], run[1], run[2]
        mu = run[3] if len(run) > 3 else 10
        at = run[4] if len(run) > 4 else 1e-12
        lines.append("begin %d %d %d %s" % (maxfun, 1 if hasH else 0, mu, core.fkey(at)))
        for e in t.events:
            lines.append(tr.render(e))
        lines.append("end")
    if not lines:
        return []
    out = core.run_driver(lines, main="AcceptMain.lean", timeout=1200)
    return [o for o in out if o]


def parse_reply(rep: str) -> dict:
    """'count=ok nf=.. | book=ok best=pt:en:ns:v:resid averaged=0 runs=1 | runs=...' -> dict"""
    res = {}
    for part in rep.split(" | "):
        part = part.strip()
        name, rest = part.split("=", 1)
        m = re.match(r"rej@(\d+):(.*)", rest)
        if m:
            res[name] = {"ok": False, "at": int(m.group(1)), "why": m.group(2)}
        else:
            d = {"ok": rest.startswith("ok")}
            for tok in rest.split()[1:]:
                if "=" in tok:
                    k, v = tok.split("=", 1)
                    d[k] = v
            res[name] = d
    return res


def describe(d: dict) -> dict:
    return {k: (v if isinstance(v, (int, float, str, bool, list, tuple, dict, type(None))) else str(v)) for k, v in d.items()}


def run_trace_property(ctx, acc_name, n_quick, n_thorough, suite_const, oracle, allow=None, mutate_cfg=None,
                       extra_compare=None, fault_kinds=None, alarm=10.0, patient=False):
    """generic: generate runs; correspondence = acceptor `acc_name` accepts every real trace (and extra_compare
    of its prediction with the real result); search = oracle(trace, d, kw) -> [(sig, what)]"""
    dfols = core.import_dfols()
    n = ctx.scale(n_quick, n_thorough) * getattr(ctx, "boost", 1)
    runs, metas = [], []
    stats = {"flags": {}, "exceptions": {}, "alarms": 0, "events": 0, "evals": 0, "tags": {}}
    for i in range(n):
        seed = [ctx.seed, suite_const, i]
        fault = None
        if fault_kinds:
            rngf = np.random.default_rng([ctx.seed, suite_const, i, 7])
            if rngf.random() < 0.7:
                fault = (int(rngf.integers(0, 25)), fault_kinds[int(rngf.integers(len(fault_kinds)))])
        prob, kw, d, t = gen_run(dfols, seed, allow=allow, alarm=alarm, mutate_cfg=mutate_cfg, fault=fault, patient=patient)
        ctx.seen((suite_const, i, len(t.events)))
        stats["events"] += len(t.events)
        stats["evals"] += len(t.calls)
        tag = so.context_tags(t, d)
        stats["tags"][tag] = stats["tags"].get(tag, 0) + 1
        if isinstance(t.exception, core.Alarm):
            stats["alarms"] += 1
        elif t.exception is not None:
            k = type(t.exception).__name__
            stats["exceptions"][k] = stats["exceptions"].get(k, 0) + 1
        elif t.result is not None:
            k = so.exit_route(t)
            stats["flags"][k] = stats["flags"].get(k, 0) + 1
        up = kw.get("user_params", {}) or {}
        runs.append((kw["maxfun"], bool(d.get("regu")), t, int(up.get("restarts.max_unsuccessful_restarts", 10)),
                     float(up.get("model.abs_tol", 1e-12))))
        metas.append((seed, prob, kw, d, t, fault))
        if i < 2:
            ctx.add_sample({"config": describe(d), "n_events": len(t.events),
                            "first_events": [tr.render(e) for e in t.events[:8]],
                            "result": None if t.result is None else {"flag": int(t.result.flag), "nf": int(t.result.nf), "msg": str(t.result.msg)}})
    return runs, metas, stats


def check_acceptor(ctx, acc_name, runs, metas, extra_compare=None, limit_broken=4):
    replies = lean_accept(runs)
    nrej = 0
    rejected = []
    for (seed, prob, kw, d, t, fault), rep in zip(metas, replies):
        pr = parse_reply(rep)
        a = pr.get(acc_name, {"ok": False, "why": "no reply"})
        if not a["ok"]:
            nrej += 1
            rejected.append((seed, d, a))
            if not hasattr(ctx, "_rejected"):
                ctx._rejected = []
            if "at" in a and len(seed) == 3:
                ctx._rejected.append((acc_name, seed, sum(1 for e in t.events[:a["at"] + 1] if e[0] == "obj")))
            if nrej <= limit_broken:
                ev = t.events[a["at"]] if "at" in a and a["at"] < len(t.events) else None
                ctx.broke("correspondence:%s-rejects-real-trace" % acc_name,
                          {"seed": seed, "config": describe(d), "event_index": a.get("at"), "event": None if ev is None else tr.render(ev),
                           "rule": a.get("why")})
        elif extra_compare is not None:
            msg = extra_compare(a, t, d, kw)
            if msg:
                nrej += 1
                if nrej <= limit_broken:
                    ctx.broke("correspondence:%s-prediction-differs" % acc_name, {"seed": seed, "config": describe(d), "detail": msg})
    ctx.cov["acceptor_" + acc_name] = {"traces": len(runs), "rejected_or_differing": nrej}
    return rejected


def rejection_budgets(ctx, oracle, allow=None, mutate_cfg=None, alarm=10.0, limit=6):
    """failing-input search aimed at what an acceptor rejected: the same run is repeated with the budget ending at the
    evaluation where the rejected event happened (and one before / after) — a book-keeping slip that the run later
    repairs by luck (the lost point is found again) shows in the result of a run that stops right there.
    oracle(t, d, kw) -> [(signature, what)]"""
    dfols = core.import_dfols()
    done = 0
    for acc_name, seed, nf_at in getattr(ctx, "_rejected", [])[:limit]:
        for mf in (nf_at, nf_at + 1, nf_at - 1):
            if mf < 1:
                continue
            prob, kw, d, t = gen_run(dfols, seed, allow=allow, alarm=alarm, mutate_cfg=mutate_cfg, maxfun_override=mf)
            done += 1
            ctx.seen(("rejection-budget", tuple(seed), mf))
            for sig, what in oracle(t, d, kw):
                ctx.fail(sig + "|at-rejected-event", what + " (budget placed at the event the %s acceptor rejected)" % acc_name,
                         {"seed": seed, "maxfun_override": mf, "config": describe(d)})
    ctx.cov["rejection_budget_runs"] = done


def budget_sweep(ctx, suite_const, nbases_quick, nbases_thorough, width=36, alarm=10.0):
    """Targeted budget sweeps.  For a few base configurations in which runs end early and restart (hard restarts
    with / without re-use of the residuals, soft restarts, averaging, loose rhoend) a PROBE run with a large budget
    finds where runs end / restarts begin (nf at every `rst`, `srb`); the configuration is then solved with every
    budget maxfun in a window around each of these boundaries and through the initialisation phase.  Off-by-one and
    exit-route defects in counters / labels / merges typically show on one or two such budgets only."""
    dfols = core.import_dfols()
    nb = ctx.scale(nbases_quick, nbases_thorough) * getattr(ctx, "boost", 1)
    runs, metas = [], []
    for b in range(nb):
        rng = np.random.default_rng([ctx.seed, suite_const, 4242, b])
        prob = problems.rand_problem(rng, nmax=2)
        mode = ["hard-newrk", "hard", "soft", "hard-newrk"][b % 4]
        k = int(rng.integers(2, 4)) if b % 2 == 0 else int(rng.integers(1, 3))
        up = {"restarts.use_restarts": True, "restarts.use_soft_restarts": mode == "soft",
              "restarts.max_unsuccessful_restarts": int(rng.integers(2, 6))}
        if mode == "hard-newrk":
            up["restarts.hard.use_old_rk"] = False
        if rng.random() < 0.3:
            up["restarts.increase_npt"] = True
            up["restarts.max_npt"] = prob["n"] + 1 + int(rng.integers(1, 3))
        if rng.random() < 0.3:
            up["model.abs_tol"] = float(rng.choice([1e-3, 0.1, 1.0]))
        rhobeg = float(rng.choice([0.1, 0.3]))

        def make_kw(mf):
            kw = {"rhobeg": rhobeg, "rhoend": 1e-2, "maxfun": mf, "user_params": dict(up)}
            if k > 1:
                kw["nsamples"] = (lambda delta, rho, it, nruns, k=k: k)
            return kw
        np.random.seed((ctx.seed * 1000003 + suite_const * 101 + b * 7) % (2 ** 32))
        probe = tr.traced_solve(dfols, prob["f"], prob["x0"], alarm=alarm, **make_kw(300))
        bounds_nf = sorted(set(e[2] for e in probe.events if e[0] == "rst" and e[2] > 0))
        nfc = 0
        for e in probe.events:
            if e[0] == "obj":
                nfc += 1
            elif e[0] == "srb":
                bounds_nf.append(nfc)
        budgets = set(range(1, prob["n"] + 4))
        for bnd in sorted(set(bounds_nf))[:6]:
            budgets.update(range(max(1, bnd - 1), bnd + k + 2))
        budgets = sorted(budgets)[:width]
        for mf in budgets:
            kw = make_kw(mf)
            d = {"n": prob["n"], "kind": prob["kind"], "maxfun": mf, "restarts": mode, "sweep": [b, mf], "user_params": dict(up)}
            if k > 1:
                d["avg"] = (k, "sweep")
            np.random.seed((ctx.seed * 1000003 + suite_const * 101 + b * 7 + mf) % (2 ** 32))
            t = tr.traced_solve(dfols, prob["f"], prob["x0"], alarm=alarm, **kw)
            ctx.seen(("sweep", suite_const, b, mf, len(t.events)))
            runs.append((mf, False, t, int(up["restarts.max_unsuccessful_restarts"]), float(up.get("model.abs_tol", 1e-12))))
            metas.append(([ctx.seed, suite_const, 4242, b, mf], prob, kw, d, t, None))
    return runs, metas


def replay_sweep(dfols, seed):
    """re-run one budget of a sweep: seed = [ctx.seed, suite_const, 4242, b, mf]"""
    class _C:  # minimal ctx
        pass
    c = _C()
    c.seed, c.tier, c.boost = seed[0], "quick", 1
    c.scale = lambda q, t: seed[3] + 1
    c.seen = lambda *_a: None
    runs, metas = budget_sweep(c, seed[1], seed[3] + 1, seed[3] + 1)
    for m in metas:
        if m[0] == list(seed):
            return m
    return None
