"""Layer G: the wiring of OptimResults (C20), regenerated from /repo's solver.py on every run into
lean/DfolsVerif/Gen/JsonFields.lean:

  ctorAssigns    (attribute, constructor parameter)         every `self.a = p` of OptimResults.__init__ (p a parameter)
  ctorOther      (attribute, expression)                     every other `self.a = e` of __init__ (diagnostic_info = None, EXIT_* names)
  ctorParams     parameter names of __init__ in order
  toDictWrites   (key, attribute, conversion)                every `soln_dict[key] = e` of to_dict: the one attribute e reads, and how
  fromDictReads  (key, local variable, conversion)           every `v = e` of from_dict where e subscripts soln_dict with one key
  fromDictCtor   the positional arguments of the OptimResults(...) call in from_dict
  fromDictLate   (attribute, key)                            `soln.a = f(soln_dict[key])` after construction
  strReads       attributes `self.a` read by __str__

Theorems over these tables (Proofs/JsonFields.lean, Properties/C20.lean): to_dict writes and from_dict reads the same keys; every
attribute travels attribute -> key -> local variable -> constructor position -> the same attribute; __str__ reads only
attributes the constructor binds."""
import ast
import os
import core
from gen_exitsites import q


class Unsupported(Exception):
    pass


def self_attrs(e):
    return sorted({n.attr for n in ast.walk(e) if isinstance(n, ast.Attribute) and isinstance(n.value, ast.Name) and n.value.id == "self"})


def dict_keys(e, dname):
    return sorted({n.slice.value for n in ast.walk(e) if isinstance(n, ast.Subscript) and isinstance(n.value, ast.Name) and n.value.id == dname
                   and isinstance(n.slice, ast.Constant) and isinstance(n.slice.value, str)})


def conv_out(e, attr):
    """how to_dict converts the attribute (canonical text with the attribute name abstracted)"""
    return ast.unparse(e).replace("self." + attr, "self.@")


def conv_in(e, key):
    return ast.unparse(e).replace("soln_dict[%r]" % key, "@")


def collect():
    tree = ast.parse(open(os.path.join(core.REPO, "dfols", "solver.py")).read())
    cls = [n for n in tree.body if isinstance(n, ast.ClassDef) and n.name == "OptimResults"]
    if len(cls) != 1:
        raise Unsupported("no unique class OptimResults")
    meth = {n.name: n for n in cls[0].body if isinstance(n, ast.FunctionDef)}
    for m in ("__init__", "__str__", "to_dict", "from_dict"):
        if m not in meth:
            raise Unsupported("OptimResults has no method " + m)
    init = meth["__init__"]
    params = [a.arg for a in init.args.args if a.arg != "self"]
    assigns, other = [], []
    for st in ast.walk(init):
        if isinstance(st, ast.Assign):
            for t in st.targets:
                if isinstance(t, ast.Attribute) and isinstance(t.value, ast.Name) and t.value.id == "self":
                    if isinstance(st.value, ast.Name) and st.value.id in params:
                        assigns.append((t.attr, st.value.id))
                    else:
                        other.append((t.attr, ast.unparse(st.value)))
    writes = []
    td = meth["to_dict"]
    for st in ast.walk(td):
        if isinstance(st, ast.Assign) and len(st.targets) == 1 and isinstance(st.targets[0], ast.Subscript) \
                and isinstance(st.targets[0].value, ast.Name) and st.targets[0].value.id == "soln_dict":
            k = st.targets[0].slice
            if not (isinstance(k, ast.Constant) and isinstance(k.value, str)):
                raise Unsupported("to_dict key " + ast.unparse(k))
            attrs = self_attrs(st.value)
            if len(attrs) != 1:
                raise Unsupported("to_dict value reads %r" % (attrs,))
            writes.append((k.value, attrs[0], conv_out(st.value, attrs[0])))
    reads, late, ctor = [], [], None
    fd = meth["from_dict"]
    for st in ast.walk(fd):
        if isinstance(st, ast.Assign) and len(st.targets) == 1:
            t = st.targets[0]
            keys = dict_keys(st.value, "soln_dict")
            if isinstance(t, ast.Name) and isinstance(st.value, ast.Call) and ast.unparse(st.value.func) == "OptimResults":
                if st.value.keywords or not all(isinstance(a, ast.Name) for a in st.value.args):
                    raise Unsupported("OptimResults(...) call in from_dict is not plain positional names")
                ctor = (t.id, [a.id for a in st.value.args])
            elif isinstance(t, ast.Name) and keys:
                if len(keys) != 1:
                    raise Unsupported("from_dict statement reads keys %r" % (keys,))
                reads.append((keys[0], t.id, conv_in(st.value, keys[0])))
            elif isinstance(t, ast.Attribute) and isinstance(t.value, ast.Name) and keys:
                if len(keys) != 1:
                    raise Unsupported("from_dict late statement reads keys %r" % (keys,))
                late.append((t.attr, keys[0], t.value.id))
    if ctor is None:
        raise Unsupported("from_dict does not construct OptimResults")
    # keys that are only tested (`if soln_dict['diagnostic_info'] is not None`) are reads too, but carry no value
    all_keys_read = dict_keys(fd, "soln_dict")
    str_reads = self_attrs(meth["__str__"])
    return {"params": params, "assigns": assigns, "other": other, "writes": writes, "reads": reads, "late": late, "ctor": ctor,
            "all_keys_read": all_keys_read, "str_reads": str_reads}


def regenerate(ctx=None):
    path = os.path.join(core.LEAN_DIR, "DfolsVerif", "Gen", "JsonFields.lean")
    info = {}
    try:
        c = collect()
        def pairs(name, rows):
            return "def %s : List (String × String) := [\n%s]\n" % (name, ",\n".join("  (%s, %s)" % (q(a), q(b)) for a, b in rows))
        def triples(name, rows):
            return "def %s : List (String × String × String) := [\n%s]\n" % (name, ",\n".join("  (%s, %s, %s)" % (q(a), q(b), q(x)) for a, b, x in rows))
        def strs(name, rows):
            return "def %s : List String := [%s]\n" % (name, ", ".join(q(a) for a in rows))
        defs = [strs("ctorParams", c["params"]), pairs("ctorAssigns", c["assigns"]), pairs("ctorOther", c["other"]),
                triples("toDictWrites", c["writes"]), triples("fromDictReads", c["reads"]), strs("fromDictCtor", c["ctor"][1]),
                "def fromDictResultName : String := %s\n" % q(c["ctor"][0]),
                triples("fromDictLate", c["late"]), strs("fromDictKeysRead", c["all_keys_read"]), strs("strReads", c["str_reads"])]
        info = {"keys_written": len(c["writes"]), "keys_read": len(c["all_keys_read"]), "ctor_params": len(c["params"]), "str_reads": len(c["str_reads"])}
    except Exception as exc:
        if ctx is not None:
            ctx.broke("gen:json-fields", repr(exc))
        defs = ["-- TRANSLATION FAILED: %s" % repr(exc).replace("\n", " ")]
    content = "\n".join(["/- GENERATED by harness/gen_json.py from /repo's solver.py (class OptimResults) on every run — do not edit. -/",
                         "namespace Dfols.Gen", ""] + defs + ["end Dfols.Gen", ""])
    old = open(path).read() if os.path.exists(path) else None
    if old != content:
        open(path, "w").write(content)
    if ctx is not None:
        ctx.cov["optimresults_wiring"] = info
    return info


if __name__ == "__main__":
    print(regenerate())
