"""Layer G: who owns what `solve` writes to, and what state outlives a call (C19).

Two analyses of /repo's AST, regenerated on every run into lean/DfolsVerif/Gen/Ownership.lean:

(a) an ownership abstract interpretation of the body of `solve` (the only public entry point).  Every local name is
    "caller" (may be / alias an object the caller handed in), "caller-empty" (the caller's object, but known to be
    falsy = an empty container on this path: the `projections` default), or "fresh" (an object created inside this call).
    The parameters the property names as caller DATA (x0, bounds, projections, user_params) start as "caller"; callables, scalars
    and the args tuples (immutable) are not tracked.  `v = e` makes v fresh when e is a copying form (`.astype(..)` / `.copy()` without
    copy=False, list()/dict()/tuple()/np.array()/np.ones.., arithmetic, constants, lambdas) or mentions no non-fresh name;
    any other call may return one of its arguments.  Branches are joined pessimistically, loops run to a fixed point.
    Tables: every in-place write through a local name in `solve` (subscript/attribute store, augmented assignment, mutating
    method, del) with the ownership of that name at that point; every call that passes a non-fresh name onwards.

(b) the state that outlives a call: module-level bindings, class-level bindings, `global`/`nonlocal` statements and
    non-constant default arguments of every function of the package.

Theorems over these tables are in Proofs/Ownership.lean / Properties/C19.lean.  What the analysis does NOT follow: writes
made by callees through the objects that escape (table solveEscapes lists them), aliasing through containers."""
import ast
import os
import core
from gen_exitsites import q

FILES = ("__init__.py", "controller.py", "diagnostic_info.py", "hessian.py", "model.py", "params.py", "solver.py", "trust_region.py", "util.py")
MUT_METHODS = {"append", "extend", "insert", "pop", "remove", "sort", "reverse", "clear", "update", "setdefault", "popitem", "fill",
               "resize", "put", "itemset", "partition", "setflags", "add", "discard"}
FRESH_BUILTINS = {"list", "dict", "tuple", "set", "float", "int", "bool", "str", "len", "min", "max", "abs", "sum", "range", "sorted",
                  "isinstance", "callable", "type", "repr", "ceil", "sqrt", "ParameterList", "ExitInformation", "OptimResults",
                  "DiagnosticInfo", "any", "all", "zip", "enumerate"}
FRESH_NP = {"array", "ones", "zeros", "empty", "full", "eye", "arange", "linspace", "copy", "where", "maximum", "minimum", "abs", "max",
            "min", "sum", "sqrt", "isfinite", "isnan", "any", "all", "logical_and", "logical_or", "logical_not", "dot", "shape",
            "size", "finfo", "concatenate", "vstack", "hstack", "allclose", "isinf", "isscalar"}

TRACKED = ("x0", "bounds", "projections", "user_params")
CALLER, EMPTY, FRESH = "caller", "caller-empty", "fresh"
RANK = {FRESH: 0, EMPTY: 1, CALLER: 2}


def join(a, b):
    return a if RANK[a] >= RANK[b] else b


def has_copy_false(call):
    return any(k.arg == "copy" and isinstance(k.value, ast.Constant) and k.value.value is False for k in call.keywords)


class Own:
    def __init__(self, fn):
        self.fn = fn
        params = [a.arg for a in fn.args.posonlyargs + fn.args.args + fn.args.kwonlyargs]
        if fn.args.vararg:
            params.append(fn.args.vararg.arg)
        if fn.args.kwarg:
            params.append(fn.args.kwarg.arg)
        self.params = params
        self.writes = {}   # (lineno, col) -> row   (last visit wins: loops are re-run to the fixed point)
        self.escapes = {}

    # ownership of the value of an expression
    def of(self, e, st):
        if e is None or isinstance(e, (ast.Constant, ast.Lambda, ast.JoinedStr, ast.Compare, ast.ListComp, ast.DictComp, ast.SetComp,
                                       ast.GeneratorExp, ast.BinOp, ast.UnaryOp)):
            return FRESH
        if isinstance(e, ast.BoolOp):   # `a or b` returns one of its operands
            r = FRESH
            for v in e.values:
                r = join(r, self.of(v, st))
            return r
        if isinstance(e, ast.Name):
            return st.get(e.id, FRESH)
        if isinstance(e, (ast.Subscript, ast.Attribute, ast.Starred)):
            return self.of(e.value, st)
        if isinstance(e, ast.IfExp):
            return join(self.of(e.body, st), self.of(e.orelse, st))
        if isinstance(e, (ast.Tuple, ast.List, ast.Set)):
            r = FRESH
            for v in e.elts:
                r = join(r, self.of(v, st))
            return r
        if isinstance(e, ast.Dict):
            r = FRESH
            for v in e.values:
                r = join(r, self.of(v, st))
            return r
        if isinstance(e, ast.Call):
            f = e.func
            if isinstance(f, ast.Attribute) and f.attr in ("astype", "copy", "flatten", "tolist") and not has_copy_false(e):
                return FRESH
            if isinstance(f, ast.Name) and f.id in FRESH_BUILTINS:
                return FRESH
            if isinstance(f, ast.Attribute) and isinstance(f.value, ast.Name) and f.value.id in ("np", "numpy", "LA", "math") \
                    and f.attr in FRESH_NP and not has_copy_false(e):
                return FRESH
            if isinstance(f, ast.Attribute) and isinstance(f.value, ast.Attribute) and ast.unparse(f.value) in ("np.linalg", "np.random"):
                return FRESH
            # any other callee may hand back one of its arguments (apply_scaling does, without a scaling)
            r = FRESH
            for a in list(e.args) + [k.value for k in e.keywords]:
                r = join(r, self.of(a, st))
            if isinstance(f, ast.Attribute):
                r = join(r, self.of(f.value, st))
            return CALLER if r == CALLER else FRESH
        return CALLER  # anything not understood is the caller's

    def bind(self, target, own, st):
        if isinstance(target, ast.Name):
            st[target.id] = own
        elif isinstance(target, (ast.Tuple, ast.List)):
            for t in target.elts:
                self.bind(t, own, st)
        elif isinstance(target, ast.Starred):
            self.bind(target.value, own, st)
        elif isinstance(target, (ast.Subscript, ast.Attribute)):
            base = target
            while isinstance(base, (ast.Subscript, ast.Attribute)):
                base = base.value
            if isinstance(base, ast.Name):
                kind = "[...]=" if isinstance(target, ast.Subscript) else ".attr="
                self.write(target, base.id, kind, st)

    def write(self, node, name, kind, st):
        if name == "self":
            return
        self.writes[(node.lineno, node.col_offset, kind)] = {"name": name, "kind": kind, "owner": st.get(name, FRESH),
                                                             "stmt": ast.unparse(node)[:90]}

    def scan_calls(self, node, st):
        for n in ast.walk(node):
            if isinstance(n, ast.Lambda):
                continue
            if isinstance(n, ast.Call):
                f = n.func
                if isinstance(f, ast.Attribute) and f.attr in MUT_METHODS and isinstance(f.value, ast.Name):
                    self.write(n, f.value.id, "." + f.attr + "()", st)
                callee = ast.unparse(f)
                for a in list(n.args) + [k.value for k in n.keywords]:
                    a0 = a.value if isinstance(a, ast.Starred) else a
                    if isinstance(a0, ast.Name) and st.get(a0.id, FRESH) != FRESH:
                        self.escapes[(n.lineno, n.col_offset, a0.id)] = {"callee": callee, "arg": a0.id, "owner": st[a0.id]}

    def block(self, stmts, st):
        for s in stmts:
            st = self.stmt(s, st)
        return st

    def stmt(self, s, st):
        if isinstance(s, ast.Assign):
            self.scan_calls(s.value, st)
            own = self.of(s.value, st)
            for t in s.targets:
                self.bind(t, own, st)
            return st
        if isinstance(s, ast.AnnAssign):
            if s.value is not None:
                self.scan_calls(s.value, st)
                self.bind(s.target, self.of(s.value, st), st)
            return st
        if isinstance(s, ast.AugAssign):
            self.scan_calls(s.value, st)
            base = s.target
            while isinstance(base, (ast.Subscript, ast.Attribute)):
                base = base.value
            if isinstance(base, ast.Name):
                self.write(s, base.id, "op=" if isinstance(s.target, ast.Name) else "[...]op=", st)
            return st
        if isinstance(s, ast.Delete):
            for t in s.targets:
                if isinstance(t, (ast.Subscript, ast.Attribute)) and isinstance(t.value, ast.Name):
                    self.write(s, t.value.id, "del", st)
            return st
        if isinstance(s, ast.If):
            self.scan_calls(s.test, st)
            st_t, st_f = dict(st), dict(st)
            # `if v:` / `if not v:` — on the other branch the caller's container is known to be empty
            t = s.test
            if isinstance(t, ast.Name) and st.get(t.id) == CALLER:
                st_f[t.id] = EMPTY
            if isinstance(t, ast.UnaryOp) and isinstance(t.op, ast.Not) and isinstance(t.operand, ast.Name) and st.get(t.operand.id) == CALLER:
                st_t[t.operand.id] = EMPTY
            a = self.block(s.body, st_t)
            b = self.block(s.orelse, st_f)
            return {k: join(a.get(k, FRESH), b.get(k, FRESH)) for k in set(a) | set(b)}
        if isinstance(s, (ast.For, ast.While)):
            if isinstance(s, ast.For):
                self.scan_calls(s.iter, st)
            else:
                self.scan_calls(s.test, st)
            cur = dict(st)
            for _ in range(4):
                body_in = dict(cur)
                if isinstance(s, ast.For):
                    self.bind(s.target, self.of(s.iter, body_in), body_in)
                out = self.block(s.body, body_in)
                nxt = {k: join(cur.get(k, FRESH), out.get(k, FRESH)) for k in set(cur) | set(out)}
                if nxt == cur:
                    break
                cur = nxt
            return self.block(s.orelse, cur)
        if isinstance(s, ast.Try):
            a = self.block(s.body, dict(st))
            res = {k: join(a.get(k, FRESH), st.get(k, FRESH)) for k in set(a) | set(st)}
            for h in s.handlers:
                b = self.block(h.body, dict(res))
                res = {k: join(res.get(k, FRESH), b.get(k, FRESH)) for k in set(res) | set(b)}
            res = self.block(s.orelse, res)
            return self.block(s.finalbody, res)
        if isinstance(s, ast.With):
            for it in s.items:
                self.scan_calls(it.context_expr, st)
                if it.optional_vars is not None:
                    self.bind(it.optional_vars, self.of(it.context_expr, st), st)
            return self.block(s.body, st)
        if isinstance(s, (ast.FunctionDef, ast.ClassDef)):
            st[s.name] = FRESH
            return st
        # Expr, Return, Assert, Raise, ...
        self.scan_calls(s, st)
        return st

    def run(self):
        st = {p: (CALLER if p in TRACKED else FRESH) for p in self.params}
        self.block(self.fn.body, st)
        writes = [self.writes[k] for k in sorted(self.writes)]
        escapes = [self.escapes[k] for k in sorted(self.escapes)]
        return writes, escapes


def value_kind(v):
    if isinstance(v, ast.Constant):
        return "const"
    if isinstance(v, ast.UnaryOp) and isinstance(v.operand, ast.Constant):
        return "const"
    if isinstance(v, (ast.List, ast.Tuple)) and all(isinstance(e, ast.Constant) and isinstance(e.value, str) for e in v.elts):
        return "names"
    if isinstance(v, ast.Call) and ast.unparse(v.func) == "logging.getLogger":
        return "logger"
    return "other:" + ast.unparse(v)[:60]


def collect():
    src = open(os.path.join(core.REPO, "dfols", "solver.py")).read()
    tree = ast.parse(src)
    solve = [n for n in tree.body if isinstance(n, ast.FunctionDef) and n.name == "solve"]
    assert len(solve) == 1, "solver.py has no unique top-level def solve"
    own = Own(solve[0])
    writes, escapes = own.run()
    module_state, class_state, globals_, defaults = [], [], [], []

    for fname in FILES:
        path = os.path.join(core.REPO, "dfols", fname)
        if not os.path.exists(path):
            continue
        t = ast.parse(open(path).read())

        def top(stmts):
            for st in stmts:
                if isinstance(st, (ast.Assign, ast.AnnAssign, ast.AugAssign)):
                    tg = st.targets if isinstance(st, ast.Assign) else [st.target]
                    for x in tg:
                        module_state.append({"file": fname, "name": ast.unparse(x), "kind": value_kind(st.value) if not isinstance(st, ast.AugAssign) else "other:augmented"})
                elif isinstance(st, (ast.If, ast.Try, ast.With, ast.For, ast.While)):
                    for fld in ("body", "orelse", "finalbody"):
                        top(getattr(st, fld, []))
                    for h in getattr(st, "handlers", []):
                        top(h.body)
        top(t.body)
        for n in ast.walk(t):
            if isinstance(n, (ast.Global, ast.Nonlocal)):
                globals_.append({"file": fname, "name": ",".join(n.names), "kind": type(n).__name__.lower()})
            if isinstance(n, ast.ClassDef):
                for st in n.body:
                    if isinstance(st, (ast.Assign, ast.AnnAssign, ast.AugAssign)):
                        tg = st.targets if isinstance(st, ast.Assign) else [st.target]
                        for x in tg:
                            class_state.append({"file": fname, "name": n.name + "." + ast.unparse(x),
                                                "kind": value_kind(st.value) if getattr(st, "value", None) is not None and not isinstance(st, ast.AugAssign) else "other:augmented"})
            if isinstance(n, (ast.FunctionDef, ast.Lambda)):
                a = n.args
                names = [x.arg for x in a.posonlyargs + a.args]
                for nm, d in list(zip(names[len(names) - len(a.defaults):], a.defaults)) + \
                        [(x.arg, d) for x, d in zip(a.kwonlyargs, a.kw_defaults) if d is not None]:
                    k = value_kind(d)
                    if isinstance(d, ast.Tuple) and not d.elts:
                        k = "const"
                    if isinstance(d, ast.Name):
                        k = "const" if d.id in ("USE_FORTRAN", "ZERO_THRESH", "None", "True", "False") else "other:" + d.id
                    if k not in ("const",):
                        defaults.append({"file": fname, "name": "%s.%s" % (getattr(n, "name", "<lambda>"), nm), "kind": k})
    return own.params, writes, escapes, module_state, class_state, globals_, defaults


def render(params, writes, escapes, module_state, class_state, globals_, defaults):
    L = ["/- GENERATED by harness/gen_ownership.py from /repo's AST on every run — do not edit. -/", "namespace Dfols", "",
         "/-- an in-place write through a local name of `solve`, with the ownership of that name at that point -/",
         "structure OwnWrite where", "  name : String", "  kind : String", "  owner : String", "  stmt : String", "deriving DecidableEq, Repr", "",
         "/-- a call inside `solve` that passes a not-fresh name onwards -/",
         "structure OwnEscape where", "  callee : String", "  arg : String", "  owner : String", "deriving DecidableEq, Repr", "",
         "/-- a binding that outlives a call of `solve` -/",
         "structure StateBinding where", "  file : String", "  name : String", "  kind : String", "deriving DecidableEq, Repr", "",
         "namespace Gen", ""]
    L.append("def solveParams : List String := [%s]\n" % ", ".join(q(p) for p in params))
    L.append("def trackedParams : List String := [%s]\n" % ", ".join(q(p) for p in TRACKED))
    L.append("def solveWrites : List OwnWrite := [\n%s]\n" % ",\n".join(
        "  { name := %s, kind := %s, owner := %s, stmt := %s }" % (q(w["name"]), q(w["kind"]), q(w["owner"]), q(w["stmt"])) for w in writes))
    L.append("def solveEscapes : List OwnEscape := [\n%s]\n" % ",\n".join(
        "  { callee := %s, arg := %s, owner := %s }" % (q(e["callee"]), q(e["arg"]), q(e["owner"])) for e in escapes))
    for nm, rows in (("moduleState", module_state), ("classState", class_state), ("globalStatements", globals_), ("nonConstantDefaults", defaults)):
        L.append("def %s : List StateBinding := [\n%s]\n" % (nm, ",\n".join(
            "  { file := %s, name := %s, kind := %s }" % (q(r["file"]), q(r["name"]), q(r["kind"])) for r in rows)))
    L += ["end Gen", "end Dfols", ""]
    return "\n".join(L)


def regenerate(ctx=None):
    params, writes, escapes, module_state, class_state, globals_, defaults = collect()
    text = render(params, writes, escapes, module_state, class_state, globals_, defaults)
    path = os.path.join(core.LEAN_DIR, "DfolsVerif", "Gen", "Ownership.lean")
    old = open(path).read() if os.path.exists(path) else None
    if old != text:
        with open(path, "w") as f:
            f.write(text)
    info = {"solve_writes": len(writes), "solve_writes_not_fresh": sum(w["owner"] != FRESH for w in writes), "solve_escapes": len(escapes),
            "module_bindings": len(module_state), "class_bindings": len(class_state), "global_statements": len(globals_),
            "non_constant_defaults": len(defaults)}
    if ctx is not None:
        ctx.cov["ownership_tables"] = info
    return info


if __name__ == "__main__":
    import json
    print(json.dumps(regenerate(), indent=1))
