"""C01 — Bound constraints are never violated at any evaluation point.

Correspondence: (a) bit-exact: Model.as_absolute_coordinates / xpt(abs) / util.remove_scaling / x0 clamping vs the Lean
Float model on adversarial placements; (b) layer G: the call-site inventory is regenerated from /repo's AST on every run
and `callsites_ok` re-checked by lake build; (c) every objfun argument of real runs equals remove_scaling(asAbs(..)) —
observed through the wrappers of as_absolute_coordinates.
Search: recording wrapper on random bounded / one-sided / scaled / averaged / restarted runs; exact comparison.
"""
import numpy as np
import core
from core import fbits_raw, fbits
import solve_suite as ss
import solve_oracles as so
import gen_callsites

MODULE = "DfolsVerif.Properties.C01"
BUILD_TARGETS = ["DfolsVerif.Driver.ClipDrv"]
THEOREMS = ["Dfols.C01.C01_asAbs_in_bounds", "Dfols.C01.C01_removeScaling_in_bounds", "Dfols.C01.C01_eval_in_bounds",
            "Dfols.C01.C01_x0_clamp", "Dfols.C01.C01_no_new_nan", "Dfols.C01.callsites_ok",
            "Dfols.C01.C01_old_overshoots", "Dfols.C01.C01_new_exact", "Dfols.C01.gen_clip_fns", "Dfols.C01.C01_gen_eval_in_bounds", "Dfols.C01.gen_scaling_setup",
            "Dfols.C01.C01_scaling_roundtrip"]
TRUSTED_EXTRA = [
    "AST-to-Lean translator harness/gen_kernels.py (translate_clip): elementwise np.minimum/np.maximum/+/* expressions and the masked x0 assignments as ClipOps terms; the projection branch (dykstra) is C09's",
    "non-NaN doubles <-> Int order keys is an order embedding; + and x are arbitrary functions in the theorems (any rounding)",
    "provenance of objfun arguments is a syntactic inventory of call sites (AST translator harness/gen_callsites.py) plus observed traces; that the step itself is never NaN is numerics (search)",
    "with projections the last projector is the bound box (C09)",
]
ALLOW = ("bounds", "scaling", "proj", "avg", "soft", "hard", "npt", "growing", "regression", "noise", "randinit")


def pre_build(ctx):
    gen_callsites.regenerate(ctx)
    import gen_kernels
    ctx.cov["translated_clip_functions"] = gen_kernels.regenerate_clip(ctx)
    import gen_scaling
    gen_scaling.regenerate(ctx)


def canon(bits_str):
    # identify -0.0 with +0.0 (np.minimum/maximum do not define the sign of a zero result)
    return "0" if bits_str == str(1 << 63) else bits_str


def adversarial(rng):
    """one scalar case: bounds, base point, relative bounds as the code computes them, a step"""
    xl = float(np.round(rng.normal() * 3, int(rng.integers(0, 4))))
    gap = float(abs(rng.normal()) * 3 + 0.2)
    xu = xl + gap
    c = rng.random()
    if c < 0.3:
        xbase = float(rng.uniform(xl, xu))
    elif c < 0.5:
        xbase = xl
    elif c < 0.7:
        xbase = xu
    else:
        xbase = float(np.round(rng.uniform(xl, xu), 2))
    nshift = int(rng.integers(0, 4))
    sl, su = xl - xbase, xu - xbase
    for _ in range(nshift):           # base shifts accumulate rounding in sl, su (model.shift_base)
        s = float(rng.normal() * 0.3)
        xbase = xbase + s
        sl, su = sl - s, su - s
    u = rng.random()
    if u < 0.3:
        x = su
    elif u < 0.5:
        x = sl
    elif u < 0.7:
        x = su + abs(rng.normal())
    elif u < 0.8:
        x = sl - abs(rng.normal())
    elif u < 0.85:
        x = float("nan")
    else:
        x = float(rng.uniform(sl, su))
    return xl, xu, xbase, sl, su, float(x)


def correspondence(ctx):
    try:
        _correspondence(ctx)
    except Exception as exc:   # the real code raised on the model's calling convention: a broken correspondence, not a tool failure
        import traceback
        ctx.broke("correspondence:Clip-real-code-raised", traceback.format_exc()[-1500:])


def _correspondence(ctx):
    dfols = core.import_dfols()
    from dfols.model import Model
    from dfols.util import remove_scaling
    n = ctx.scale(4000, 200000)
    lines, want = [], []
    for i in range(n):
        rng = np.random.default_rng([ctx.seed, 101, i])
        xl, xu, xbase, sl, su, x = adversarial(rng)
        md = Model(2, np.array([xbase]), np.array([1.0]), np.array([xl]), np.array([xu]), [], 1)
        md.sl = np.array([sl]); md.su = np.array([su])      # relative bounds after base shifts
        got = md.as_absolute_coordinates(np.array([x]))[0]
        lines.append("asabs " + " ".join(fbits_raw(v) for v in (xl, xu, xbase, sl, su, x)))
        want.append(fbits(got))
        md.points[0, 0] = x
        got2 = md.xpt(0, abs_coordinates=True)[0]
        lines.append("asabs " + " ".join(fbits_raw(v) for v in (xl, xu, xbase, sl, su, x)))
        want.append(fbits(got2))
        # remove_scaling with the repaired 4-tuple
        z = float(rng.choice([0.0, 1.0, rng.random(), 1.0 + 1e-16, -1e-17]))
        got3 = remove_scaling(np.array([z]), (np.array([xl]), np.array([xu - xl]), np.array([xl]), np.array([xu])))[0]
        lines.append("rmscale " + " ".join(fbits_raw(v) for v in (xl, xu - xl, xl, xu, z)))
        want.append(fbits(got3))
        ctx.seen(("c01k", i))
    out = core.run_driver(lines, main="ClipMain.lean")
    mism = [(l, o, w) for l, o, w in zip(lines, out, want) if canon(o) != canon(w)]
    ctx.cov["kernel_correspondence"] = {"lines": len(lines), "mismatches": len(mism)}
    for m in mism[:3]:
        ctx.broke("correspondence:Clip-vs-numpy", {"line": m[0], "lean": m[1], "real": m[2]})
    ctx.add_sample({"kind": "asabs xl xu xbase sl su x -> result bits", "line": lines[0], "lean": out[0], "real": want[0]})
    # x0 clamping through the real solve (first objfun argument)
    lines, want = [], []
    for i in range(ctx.scale(150, 2000)):
        rng = np.random.default_rng([ctx.seed, 102, i])
        xl, xu = sorted(np.round(rng.normal(size=2) * 2, 2))
        xu = xu + 1.0
        x0 = float(rng.choice([xl, xu, xl - 0.3, xu + 0.2, rng.uniform(xl, xu)]))
        seen = []

        def f(x):
            seen.append(float(x[0]))
            return np.array([x[0] - 0.1, 1.0])
        dfols.solve(f, np.array([x0]), bounds=(np.array([xl]), np.array([xu])), rhobeg=0.1, maxfun=1, do_logging=False)
        lines.append("clampx0 " + " ".join(fbits_raw(v) for v in (xl, xu, x0)))
        want.append(fbits(seen[0]))
    out = core.run_driver(lines, main="ClipMain.lean")
    mism = [(l, o, w) for l, o, w in zip(lines, out, want) if canon(o) != canon(w)]
    ctx.cov["x0_clamp_correspondence"] = {"lines": len(lines), "mismatches": len(mism)}
    for m in mism[:3]:
        ctx.broke("correspondence:clampX0-vs-solve", {"line": m[0], "lean": m[1], "real": m[2]})
    # scaled problems end-to-end: the first objfun argument must be remove_scaling(clamp(apply_scaling(x0))) clipped to the USER's bounds
    lines, want = [], []
    for i in range(ctx.scale(150, 2000)):
        rng = np.random.default_rng([ctx.seed, 104, i])
        xl = float(np.round(rng.normal() * 2, int(rng.integers(0, 3))))
        xu = xl + float(np.round(abs(rng.normal()) * 2 + 0.5, int(rng.integers(0, 3))))
        x0 = float(rng.choice([xl, xu, xl - 0.3, xu + 0.2, xu + 1e-9, rng.uniform(xl, xu)]))
        seen = []

        def f(x):
            seen.append(float(x[0]))
            return np.array([x[0] - 0.1, 1.0])
        dfols.solve(f, np.array([x0]), bounds=(np.array([xl]), np.array([xu])), scaling_within_bounds=True, maxfun=1, do_logging=False)
        z = (x0 - xl) / (xu - xl)
        z = min(max(z, 0.0), 1.0) if z == z else z
        lines.append("rmscale " + " ".join(fbits_raw(v) for v in (xl, xu - xl, xl, xu, z)))
        want.append(fbits(seen[0]))
    out = core.run_driver(lines, main="ClipMain.lean")
    mism = [(l, o, w) for l, o, w in zip(lines, out, want) if canon(o) != canon(w)]
    ctx.cov["scaled_first_eval_correspondence"] = {"lines": len(lines), "mismatches": len(mism)}
    for m in mism[:3]:
        ctx.broke("correspondence:scaled-first-evaluation", {"line": m[0], "lean": m[1], "real": m[2]})
    ctx.cov["callsites"] = {"evaluate_objective": len(gen_callsites.regenerate()[0]), "objfun": len(gen_callsites.regenerate()[1])}


def mutate(rng, prob, kw, d):
    # C01 needs bounds: force them
    if "bounds" not in kw and "projections" not in kw:
        n = prob["n"]
        x0 = prob["x0"]
        gap = 2 * kw["rhobeg"] * (1 + rng.random(n) * 2)
        xl = x0 - rng.random(n) * gap
        xu = xl + gap
        kw["bounds"] = (xl, xu)
        d["bounds"] = "box(forced)"
        if rng.random() < 0.5:
            kw["scaling_within_bounds"] = True
            kw["rhobeg"] = 0.1
            d["scaling"] = True


def search(ctx):
    dfols = core.import_dfols()
    n = ctx.scale(250, 3000) * getattr(ctx, "boost", 1)
    nviol = 0
    stats = {"runs": 0, "evaluations": 0, "scaled": 0}
    for i in range(n):
        seed = [ctx.seed, 103, i]
        prob, kw, d, t = ss.gen_run(dfols, seed, allow=ALLOW, mutate_cfg=mutate, alarm=10)
        stats["runs"] += 1
        stats["evaluations"] += len(t.calls)
        stats["scaled"] += 1 if d.get("scaling") else 0
        ctx.seen(("c01s", i, len(t.calls)))
        b = kw.get("bounds")
        if b is None:
            continue
        for v in so.c01(t, b[0], b[1]):
            nviol += 1
            ctx.fail("C01:%s-outside-bounds|%s" % (v[0], "scaling" if d.get("scaling") else "unscaled"),
                     "%s %d component %d = %r outside [%r, %r]" % (v[0], v[1], v[2], v[3],
                        None if b[0] is None else float(b[0][v[2]]), None if b[1] is None else float(b[1][v[2]])),
                     {"seed": seed, "config": ss.describe(d)})
        if nviol > 6:
            break
    ctx.cov["search"] = stats


def replay(payload):
    dfols = core.import_dfols()
    rp = payload.get("replay", {})
    if "seed" not in rp:
        print("replay names a broken obligation:", payload.get("broken"))
        return 1
    prob, kw, d, t = ss.gen_run(dfols, rp["seed"], allow=ALLOW, mutate_cfg=mutate, alarm=10)
    b = kw.get("bounds")
    res = so.c01(t, b[0], b[1]) if b is not None else []
    print("replay:", res if res else "property holds on this input now")
    return 1 if res else 0
