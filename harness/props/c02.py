"""C02 — Evaluation budget and evaluation counters are exact.

Correspondence: traces of real dfols.solve runs (wrappers, harness/trace.py) must be accepted by the Lean
counting acceptor CountAcc (the model of the x0 block, evaluate_objective and the counter threading).
Search: the property stated directly on the independent record of objfun calls.
"""
import numpy as np
import core
import solve_suite as ss
import solve_oracles as so

MODULE = "DfolsVerif.Properties.C02"
BUILD_TARGETS = ss.ACCEPT_TARGETS
def pre_build(ctx):
    import gen_trysites
    gen_trysites.regenerate(ctx)
    import gen_mainccalls
    gen_mainccalls.regenerate(ctx)
    import gen_kernels
    ctx.cov["translated_sampling_loops"] = gen_kernels.regenerate_loops(ctx) + gen_kernels.regenerate_guards(ctx)


THEOREMS = [
    "Dfols.C02.gen_evalLoops", "Dfols.C02.gen_sample_points", "Dfols.C02.C02_evaluate_objective", "Dfols.C02.C02_x0_block",
    "Dfols.C02.C02_loop_refines_acceptor", "Dfols.C02.C02_x0_refines_acceptor", "Dfols.C02.C02_hard_restart_guard",
    "Dfols.C02.C02_budget",
    "Dfols.C02.C02_result_counters",
    "Dfols.C02.C02_numbering",
    "Dfols.C02.C02_samples", "Dfols.C02.C02_src_counters_threaded", "Dfols.C02.C02_src_objfun_choke_points"]
TRUSTED_EXTRA = [
    "AST-to-Lean translator harness/gen_kernels.py (translate_loops): the bodies and preludes of the two sampling loops as transformers of the integer/boolean loop state; array bookkeeping (rvec_list, obj_list) is not modelled",
    "model = set of event lists accepted by CountAcc.step (hand-written mirror of solver.py:157-202, controller.py:625-659, the nf/nx threading of solve_main/solve)",
    "the wrappers of harness/trace.py report the events faithfully (evaluation events come from eval_least_squares_with_regularisation as bound in solver/controller, the independent call count from the wrapped user objfun)",
]


def mutate(rng, prob, kw, d):
    # C02 is about budgets: bias towards tiny budgets and averaging
    if rng.random() < 0.4:
        kw["maxfun"] = int(rng.integers(1, 12))
        d["maxfun"] = kw["maxfun"]
    if rng.random() < 0.4 and "nsamples" not in kw:
        kk = int(rng.integers(1, 5))
        kw["nsamples"] = lambda delta, rho, it, nruns, kk=kk: kk if it % 2 == 0 else 1
        d["avg"] = (kk, 9)


def _runs(ctx):
    if not hasattr(ctx, "_c02"):
        runs, metas, stats = ss.run_trace_property(ctx, "count", 250, 3000, 202, None, mutate_cfg=mutate)
        r2, m2 = ss.budget_sweep(ctx, 202, 6, 40)
        stats["budget_sweep_runs"] = len(r2)
        ctx._c02 = (runs + r2, metas + m2, stats)
    return ctx._c02


def correspondence(ctx):
    runs, metas, stats = _runs(ctx)
    ss.check_acceptor(ctx, "count", runs, metas)
    ctx.cov["runs"] = stats


def search(ctx):
    if getattr(ctx, "boost", 1) > 1 and hasattr(ctx, "_c02"):
        del ctx._c02
    runs, metas, stats = _runs(ctx)
    for (seed, prob, kw, d, t, fault) in metas:
        for sig, what in so.c02(t, d, kw["maxfun"]):
            ctx.fail(sig, what, {"seed": seed, "config": ss.describe(d)})
        if len(ctx.failures) > 8:
            break
    log_numbering(ctx)


def log_case(dfols, seed_tuple):
    """one run with logging on; returns (failures [(sig, what)], info)"""
    import logging
    import re
    pat = re.compile(r"Function eval (\d+) at point (\d+) has obj")
    rng = np.random.default_rng(seed_tuple)
    n = int(rng.choice([2, 3, 6, 7]))            # the log format changes at logging.n_to_print_whole_x_vector (default 6)
    k = int(rng.choice([1, 2, 3]))
    maxfun = int(rng.integers(n + 3, 6 * n + 10))
    A = rng.normal(size=(n + 1, n))
    b = rng.normal(size=n + 1)
    xs, recs = [], []

    def f(x):
        xs.append(np.array(x, dtype=float).tobytes())
        return A @ x - b

    class H(logging.Handler):
        def emit(self, record):
            recs.append(record.getMessage())
    h = H()
    lg = logging.getLogger("dfols")
    old_level, old_prop = lg.level, lg.propagate
    lg.addHandler(h)
    lg.setLevel(logging.INFO)
    lg.propagate = False
    info = {"n": n, "nsamples": k, "maxfun": maxfun, "alarm": False}
    try:
        kw = dict(maxfun=maxfun, do_logging=True)
        if k > 1:
            kw["nsamples"] = lambda delta, rho, it, nruns: k
            kw["objfun_has_noise"] = True
        np.random.seed(int(seed_tuple[-1]))
        core.with_alarm(30, dfols.solve, f, rng.normal(size=n), **kw)
    except core.Alarm:
        info["alarm"] = True
        return [], info
    finally:
        lg.removeHandler(h)
        lg.setLevel(old_level)
        lg.propagate = old_prop
    logged = [(int(m.group(1)), int(m.group(2))) for m in (pat.search(r) for r in recs) if m]
    info["log_lines"] = len(logged)
    tag = "long-x" if n >= 6 else "short-x"
    if len(logged) != len(xs):
        return [("C02:log-lines-vs-calls|" + tag, "%d 'Function eval' log lines for %d objective calls" % (len(logged), len(xs)))], info
    pt, last = 0, None
    for j, ((en, pn), xb) in enumerate(zip(logged, xs)):
        if en != j + 1:
            return [("C02:log-eval-number|" + tag, "call %d is logged as 'Function eval %d'" % (j + 1, en))], info
        if pn == pt:
            if xb != last:
                return [("C02:log-point-number|" + tag, "calls %d and %d are logged with point number %d but received different x" % (j, j + 1, pn))], info
        elif pn == pt + 1:
            pt = pn
        else:
            return [("C02:log-point-number|" + tag, "call %d is logged at point %d after point %d (gap or step back)" % (j + 1, pn, pt))], info
        last = xb
    return [], info


def log_numbering(ctx):
    """the clause 'evaluations are numbered 1,2,... and evaluation points 1,2,... without gaps (as reported in the log)':
    real runs with logging on, the log lines 'Function eval i at point j ...' compared with the independent call record"""
    dfols = core.import_dfols()
    nrun = ctx.scale(10, 60) * getattr(ctx, "boost", 1)
    st = {"runs": 0, "log_lines": 0, "long_x_runs": 0, "averaged_runs": 0}
    for i in range(nrun):
        seed = [ctx.seed, 2020, i]
        fails, info = log_case(dfols, seed)
        if info["alarm"]:
            continue
        st["runs"] += 1
        st["long_x_runs"] += int(info["n"] >= 6)
        st["averaged_runs"] += int(info["nsamples"] > 1)
        st["log_lines"] += info.get("log_lines", 0)
        ctx.seen(("c02log", i, info["n"], info["nsamples"], info.get("log_lines", 0)))
        for sig, what in fails:
            ctx.fail(sig, what, {"log_seed": seed, **{k: v for k, v in info.items() if k != "alarm"}})
    ctx.cov["log_numbering"] = st


def replay(payload):
    dfols = core.import_dfols()
    rp = payload.get("replay", {})
    if "log_seed" in rp:
        res, _info = log_case(dfols, rp["log_seed"])
        print("replay:", res if res else "property holds on this input now")
        return 1 if res else 0
    if "seed" not in rp:
        print("replay names a broken obligation:", payload.get("broken"))
        return 1
    if len(rp["seed"]) == 5:
        _seed, prob, kw, d, t, _f = ss.replay_sweep(dfols, rp["seed"])
    else:
        prob, kw, d, t = ss.gen_run(dfols, rp["seed"], mutate_cfg=mutate)
    res = so.c02(t, d, kw["maxfun"])
    print("replay:", res if res else "property holds on this input now")
    return 1 if res else 0
