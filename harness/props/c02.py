"""C02 — Evaluation budget and evaluation counters are exact.

Correspondence: traces of real dfols.solve runs (wrappers, harness/trace.py) must be accepted by the Lean
counting acceptor CountAcc (the model of the x0 block, evaluate_objective and the counter threading).
Search: the property stated directly on the independent record of objfun calls.
"""
import numpy as np
import core
import solve_suite as ss
import solve_oracles as so

MODULE = "DfolsVerif.Properties.C02"
BUILD_TARGETS = ss.ACCEPT_TARGETS
THEOREMS = [
    "Dfols.C02.C02_budget",
    "Dfols.C02.C02_result_counters",
    "Dfols.C02.C02_numbering",
    "Dfols.C02.C02_samples",
]
TRUSTED_EXTRA = [
    "model = set of event lists accepted by CountAcc.step (hand-written mirror of solver.py:157-202, controller.py:625-659, the nf/nx threading of solve_main/solve)",
    "the wrappers of harness/trace.py report the events faithfully (evaluation events come from eval_least_squares_with_regularisation as bound in solver/controller, the independent call count from the wrapped user objfun)",
]


def mutate(rng, prob, kw, d):
    # C02 is about budgets: bias towards tiny budgets and averaging
    if rng.random() < 0.4:
        kw["maxfun"] = int(rng.integers(1, 12))
        d["maxfun"] = kw["maxfun"]
    if rng.random() < 0.4 and "nsamples" not in kw:
        kk = int(rng.integers(1, 5))
        kw["nsamples"] = lambda delta, rho, it, nruns, kk=kk: kk if it % 2 == 0 else 1
        d["avg"] = (kk, 9)


def _runs(ctx):
    if not hasattr(ctx, "_c02"):
        runs, metas, stats = ss.run_trace_property(ctx, "count", 250, 3000, 202, None, mutate_cfg=mutate)
        r2, m2 = ss.budget_sweep(ctx, 202, 6, 40)
        stats["budget_sweep_runs"] = len(r2)
        ctx._c02 = (runs + r2, metas + m2, stats)
    return ctx._c02


def correspondence(ctx):
    runs, metas, stats = _runs(ctx)
    ss.check_acceptor(ctx, "count", runs, metas)
    ctx.cov["runs"] = stats


def search(ctx):
    if getattr(ctx, "boost", 1) > 1 and hasattr(ctx, "_c02"):
        del ctx._c02
    runs, metas, stats = _runs(ctx)
    for (seed, prob, kw, d, t, fault) in metas:
        for sig, what in so.c02(t, d, kw["maxfun"]):
            ctx.fail(sig, what, {"seed": seed, "config": ss.describe(d)})
        if len(ctx.failures) > 8:
            break


def replay(payload):
    dfols = core.import_dfols()
    rp = payload.get("replay", {})
    if "seed" not in rp:
        print("replay names a broken obligation:", payload.get("broken"))
        return 1
    if len(rp["seed"]) == 5:
        _seed, prob, kw, d, t, _f = ss.replay_sweep(dfols, rp["seed"])
    else:
        prob, kw, d, t = ss.gen_run(dfols, rp["seed"], mutate_cfg=mutate)
    res = so.c02(t, d, kw["maxfun"])
    print("replay:", res if res else "property holds on this input now")
    return 1 if res else 0
