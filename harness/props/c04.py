"""C04 — The best point ever evaluated is never lost.

Correspondence: real traces must be accepted by BookAcc (incl. its Guard on writes to the incumbent's row and the
"every evaluated point is stored or saved before the run moves on" rule).
Search: soln.obj <= objective of every recorded evaluation (deterministic objective, no averaging).
"""
import numpy as np
import core
import solve_suite as ss
import solve_oracles as so

MODULE = "DfolsVerif.Properties.C04"
BUILD_TARGETS = ss.ACCEPT_TARGETS + ["DfolsVerif.Driver.RadiusDrv"]
THEOREMS = ["Dfols.C04.C04_best", "Dfols.C04.C04_hist_complete", "Dfols.C04.C04_restart_monotone",
            "Dfols.C04.C04_ratio_gate", "Dfols.C04.C04_negative_pred_exits", "Dfols.C04.gen_calcRatio_eq",
            "Dfols.C04.gen_mayReplaceKopt_eq", "Dfols.C04.gen_skipKopt_guards", "Dfols.C04.C04_gen_ratio_gate", "Dfols.C04.gen_model_decisions", "Dfols.C04.gen_restart_merge", "Dfols.C04.C04_src_no_point_dropped", "Dfols.C04.C04_src_controller_no_point_dropped", "Dfols.C04.C04_src_returns_via_final_results"]
TRUSTED_EXTRA = [
    "AST-to-Lean translator harness/gen_kernels.py for calculate_ratio's decision tail and the skip_kopt=False gate; the definitions of pred_reduction / actual_reduction (numpy reductions) are inputs of the kernel, recomputed by the tracer with the package's own helpers",
    "model = event lists accepted by BookAcc.step; theorem for traces without sample averaging and without a regulariser",
    "with a regulariser the property holds only up to rounding of h(x) (objective of one point recomputed at xbase+points[k]): partial, checked by the search with tolerance 1e-9",
    "objective values of the evaluations are recomputed by the harness from the recorded residuals (np.dot) and must equal the values the model stored (checked by the acceptor when h is None)",
]


def pre_build(ctx):
    import gen_skeleton
    gen_skeleton.regenerate(ctx)
    gen_skeleton.regenerate_ctrl(ctx)
    gen_skeleton.regenerate_solve_main(ctx)
    import gen_kernels
    ctx.cov["translated_kernels"] = gen_kernels.regenerate(ctx) + gen_kernels.regenerate_model(ctx)


ALLOW = ("bounds", "scaling", "proj", "soft", "hard", "npt", "growing", "regression", "noise", "diag", "randinit", "parallel", "regu")


def mutate(rng, prob, kw, d):
    if kw.get("scaling_within_bounds") and "h" not in kw and rng.random() < 0.3:
        # a regulariser together with internal scaling (the base generator keeps them apart): h must always see the user's
        # coordinates, also where a stored or saved objective is recomputed
        lam = float(10 ** rng.uniform(-2, 0))
        kw["h"] = lambda x, lam=lam: lam * float(np.sum(np.abs(x)))
        kw["lh"] = lam * float(np.sqrt(prob["n"]))
        kw["prox_uh"] = lambda x, u, lam=lam: np.sign(x) * np.maximum(np.abs(x) - lam * u, 0.0)
        kw["maxfun"] = min(kw["maxfun"], 60)
        d["maxfun"] = kw["maxfun"]
        d["regu"] = lam
    up0 = kw.get("user_params") or {}
    if up0.get("regression.num_extra_steps") and rng.random() < 0.4:
        # as many (or more) extra regression steps as there are interpolation points: the documented cap npt-1 must keep the
        # iterate's own row out of the points that are moved
        up0["regression.num_extra_steps"] = int(kw.get("npt", prob["n"] + 1)) + int(rng.integers(0, 2))
        d["regression"] = up0["regression.num_extra_steps"]
        d["user_params"] = dict(up0)
    if prob["n"] >= 2 and not d.get("proj") and "npt" not in kw and rng.random() < 0.12:
        # growing phase that adds SEVERAL directions per iteration, with a budget that ends inside or just after such a batch
        # (each new point must get a row of its own: seeded change C04_9 wrote the whole batch into one row)
        up0 = dict(up0)
        up0["growing.ndirs_initial"] = int(rng.integers(1, prob["n"]))
        up0["growing.num_new_dirns_each_iter"] = int(rng.integers(2, 4))
        for k in ("regression.num_extra_steps", "regression.momentum_extra_steps"):
            up0.pop(k, None)
        kw["user_params"] = up0
        kw["maxfun"] = int(up0["growing.ndirs_initial"] + 2 + rng.integers(0, 10))
        d["maxfun"] = kw["maxfun"]
        d["growing"] = up0["growing.ndirs_initial"]
        d["growing_batch"] = up0["growing.num_new_dirns_each_iter"]
        d["user_params"] = dict(up0)
    # the rare exits: two projections with x0 near an intersection, tight trust regions
    force = (not d.get("proj")) and ("bounds" not in kw) and kw.get("h") is None and rng.random() < 0.15
    if force or (d.get("proj") and rng.random() < 0.7):
        import problems
        x0 = prob["x0"]
        c = x0 + rng.normal(size=prob["n"]) * 0.5
        P = [lambda x, c=c: problems.pball(x, c, 1.0), lambda x, lo=x0 - 0.7, hi=x0 + 0.7: problems.pbox(x, lo, hi)]
        if force or rng.random() < 0.5:
            # a small feasible region around x0 whose ball and box are both active at the constrained minimiser:
            # near convergence the projected-gradient steps give (slightly) negative predicted reductions
            c = x0 + rng.normal(size=prob["n"]) * 0.2
            rad = float(rng.uniform(0.5, 1.2))
            lo, hi = c - rng.uniform(0.2, 1.0, size=prob["n"]), c + rng.uniform(0.2, 1.0, size=prob["n"])
            P = [lambda x, c=c, rad=rad: problems.pball(x, c, rad), lambda x, lo=lo, hi=hi: problems.pbox(x, lo, hi)]
            d["active_region"] = True
        kw["projections"] = P
        d["proj"] = 2
        kw["maxfun"] = 100 if not d.get("active_region") else 200
        d["maxfun"] = kw["maxfun"]


def _runs(ctx):
    if not hasattr(ctx, "_runs"):
        runs, metas, stats = ss.run_trace_property(ctx, "book", 350, 4000, 404, None, allow=ALLOW, mutate_cfg=mutate)
        r2, m2 = ss.budget_sweep(ctx, 404, 4, 30)
        stats["budget_sweep_runs"] = len(r2)
        ctx._runs = (runs + r2, metas + m2, stats)
    return ctx._runs


def correspondence(ctx):
    runs, metas, stats = _runs(ctx)
    keep = [i for i, m in enumerate(metas) if not m[3].get("user_params", {}).get("init.run_in_parallel")]
    ss.check_acceptor(ctx, "book", [runs[i] for i in keep], [metas[i] for i in keep])
    # the ratio gate: (ratio, exit flag) of every calculate_ratio call, bit for bit
    from core import fbits, fbits_raw
    lines, want, where = [], [], []
    for (seed, prob, kw, d, t, fault) in metas:
        for i, e in enumerate(t.events):
            if e[0] == "rat":
                _, pred, actual, nproj, r, flag = e
                lines.append("ratio %d %s %s" % (nproj, fbits_raw(pred), fbits_raw(actual)))
                want.append("%s %s" % (fbits(r), flag))
                where.append((seed, i, pred, actual))
    out = core.run_driver(lines, main="RadiusMain.lean") if lines else []
    mism = [(l, o, w, wh) for l, o, w, wh in zip(lines, out, want, where) if o.rsplit(" ", 1)[0] != w]
    ctx.cov["ratio_gate"] = {"calls_compared": len(lines), "negative_pred": sum(1 for w in where if w[2] < 0), "mismatches": len(mism)}
    for m in mism[:4]:
        ctx.broke("correspondence:calcRatio-vs-observed", {"line": m[0], "lean": m[1], "observed": m[2], "seed": m[3][0], "event": m[3][1],
                                                           "pred_reduction": m[3][2], "actual_reduction": m[3][3]})
    ctx.cov["runs"] = stats


def search(ctx):
    if getattr(ctx, "boost", 1) > 1 and hasattr(ctx, "_runs"):
        del ctx._runs
    runs, metas, stats = _runs(ctx)
    n_checked = 0
    for (seed, prob, kw, d, t, fault) in metas:
        if t.result is None:
            continue
        n_checked += 1
        for sig, what in so.c04(t, d, h=kw.get("h")):
            ctx.fail(sig, what, {"seed": seed, "config": ss.describe(d)})
        # soln.obj <= f(x0 projected): first call is x0
        if t.calls and t.result.x is not None and not d.get("avg"):
            f0 = t.calls[0]["v"]
            if f0 == f0 and not (float(t.result.obj) <= f0 + (1e-9 * (1 + abs(f0)) if kw.get("h") else 0.0)):
                ctx.fail("C04:worse-than-x0|" + so.context_tags(t, d), "soln.obj=%r > f(x0)=%r" % (t.result.obj, f0), {"seed": seed})
    ctx.cov["results_checked"] = n_checked
    ss.rejection_budgets(ctx, lambda t, d, kw: so.c04(t, d, h=kw.get("h")) if t.result is not None else [], allow=ALLOW, mutate_cfg=mutate)


def replay(payload):
    dfols = core.import_dfols()
    rp = payload.get("replay", {})
    if "seed" not in rp:
        print("replay names a broken obligation:", payload.get("broken"))
        return 1
    if len(rp["seed"]) == 5:
        _seed, prob, kw, d, t, _f = ss.replay_sweep(dfols, rp["seed"])
    else:
      prob, kw, d, t = ss.gen_run(dfols, rp["seed"], allow=ALLOW, mutate_cfg=mutate, maxfun_override=rp.get("maxfun_override"))
    res = so.c04(t, d, h=kw.get("h"))
    print("replay:", res if res else "property holds on this input now")
    return 1 if res else 0
