"""C07 — solve always returns a well-formed result; bad input is reported, not raised.

Lean side: DfolsVerif/Book/{PyVal,ExitTable,Validate}.lean (model), Gen/*.lean (tables regenerated from /repo's AST),
Spec/*.lean (committed reference), Proofs/{GenSpec,Validate}.lean, Properties/C07.lean, Driver/ValidateDrv.lean.

Correspondence (model vs real code, same inputs, outputs diffed as strings):
  * `validate`  vs the real `dfols.solve` with `solve_main` replaced by a sentinel (so exactly the validation part of the
    real `solve` runs): outcome class (result / exception class / proceeds to solve_main), flag, full message text, nf,
    nx, nruns, which fields are None, whether str() works; on "proceeds": npt, maxfun, rhobeg, scaling and the complete
    ParameterList state (71 values + changed flags);
  * `PList.call / checkParam / checkAll` vs the real `ParameterList` object under random call sequences (reads with
    None, second updates, unknown keys);
  * `ExitTable.message / ableToRestart? / exposes` vs the real `ExitInformation` / `OptimResults`.
Search (no Lean involved): the property stated directly on the real `dfols.solve` (full solves, small maxfun, 10 s alarm).
The documented ranges / exit constants used by the search come from harness/spec_tables.json (the committed reference),
NOT from the code under test.
"""
import json
import math
import os
import re

import numpy as np

import core
from core import f2bits

MODULE = "DfolsVerif.Properties.C07"
BUILD_TARGETS = ["DfolsVerif.Driver.ValidateDrv"]
MAIN = "ValidateMain.lean"
def pre_build(ctx):
    import gen_skeleton
    gen_skeleton.regenerate_solve_main(ctx)
    import gen_trysites
    gen_trysites.regenerate(ctx)
    import gen_exitsites
    ctx.cov["exit_creation_sites_in_repo"] = gen_exitsites.regenerate(ctx)


THEOREMS = [
    "Dfols.GenSpec.paramDefaults_eq",
    "Dfols.GenSpec.paramTypes_eq",
    "Dfols.GenSpec.exitTable_eq",
    "Dfols.C07.gen_eq_spec",
    "Dfols.C07.C07_input_error_iff",
    "Dfols.C07.C07_first_failing_check_wins",
    "Dfols.C07.C07_in_domain_never_raises",
    "Dfols.C07.C07_input_error_result",
    "Dfols.C07.C07_flag_documented",
    "Dfols.C07.C07_unknown_key",
    "Dfols.C07.C07_user_params_effect",
    "Dfols.C07.C07_table_total",
    "Dfols.C07.C07_exit_constants",
    "Dfols.C07.C07_messages_match_source",
    "Dfols.C07.C07_old_nine_argument_call",
    "Dfols.C07.C07_old_missing_constants",
    "Dfols.C07.C07_src_input_checks",
    "Dfols.C07.C07_src_input_checks_guarded", "Dfols.C07.C07_src_no_evaluation_before_validation", "Dfols.C07.C07_src_solve_returns_result"]
TRUSTED_EXTRA = [
    "modelled, not verified: arrays are represented by their shapes; rhobeg's default 0.1*max(max|x0|,1) and min(xu-xl) are "
    "computed by the harness with the code's own elementwise NumPy expressions and handed to the model as exact doubles",
    "floats are modelled exactly (finite double = integer multiple of 2^-1074); `2.0*rhobeg` and `npt-1` are exact in the model and "
    "correctly rounded in CPython: they agree unless |value| >= 2^53 (npt-1) — the generators stay below that",
    "the AST translators harness/gen.py (tables) are trusted; gen_eq_spec ties their output to the committed reference",
    "everything after validation (solve_main) is outside this model: the 'flag is documented / result prints' clause for "
    "non-error exits is checked by the failing-input search only (theorem C07_flag_documented covers the input-error path)",
]
EXPLANATION = ("C07: validation logic of solve/ParameterList proved correct on a table-driven model (tables regenerated from the "
               "source AST each run and proved equal to the committed reference); model tied to the real solve by differential runs; "
               "property searched directly on the real solve.")

HERE = os.path.dirname(os.path.abspath(__file__))
SPEC = json.load(open(os.path.join(os.path.dirname(HERE), "spec_tables.json")))
SPEC_TYPES = dict((k, v) for k, v in SPEC["params"]["types"])
SPEC_KEYS = [k for k, _ in SPEC["params"]["defaults"]]
SPEC_CONST = dict((k, v) for k, v in SPEC["exit"]["constants"])
GUIDE_EXITS = list(SPEC["exit"]["userGuideExits"])
DOCUMENTED_FLAGS = sorted(SPEC_CONST[nm] for nm in GUIDE_EXITS if nm in SPEC_CONST)
INPUT_ERROR = SPEC_CONST["EXIT_INPUT_ERROR"]
NAN = float("nan")
INF = float("inf")


class Reached(Exception):
    """raised by the sentinel that replaces solve_main in the correspondence"""

    def __init__(self, npt, rhobeg, maxfun, params, scaling_changes):
        self.npt, self.rhobeg, self.maxfun, self.params, self.scaling_changes = npt, rhobeg, maxfun, params, scaling_changes


# ----------------------------------------------------------------------------------------------
# JSON-able value specs  <->  Python values  <->  protocol tokens
# ----------------------------------------------------------------------------------------------
def enc(v):
    if v is None:
        return ["N"]
    if isinstance(v, (bool,)):
        return ["b", bool(v)]
    if isinstance(v, np.bool_):
        return ["nb", bool(v)]
    if isinstance(v, np.integer):
        return ["ni", int(v)]
    if isinstance(v, np.floating):
        return ["nf", float(v).hex()]
    if isinstance(v, int):
        return ["i", v]
    if isinstance(v, float):
        return ["f", v.hex()]
    if isinstance(v, str):
        return ["s", v]
    return ["o"]


def dec(s):
    t = s[0]
    if t == "N":
        return None
    if t == "b":
        return bool(s[1])
    if t == "nb":
        return np.bool_(s[1])
    if t == "ni":
        return np.int64(s[1])
    if t == "nf":
        return np.float64(float.fromhex(s[1]))
    if t == "i":
        return int(s[1])
    if t == "f":
        return float.fromhex(s[1])
    if t == "s":
        return s[1]
    if t == "o":
        return [1.0]
    raise ValueError(s)


ABSENT = ["-"]


def ftok(x):
    x = float(x)
    if x != x:
        return "fnan"
    if x == 0.0:
        x = 0.0          # -0.0 and 0.0 are the same model value
    return "f%d" % f2bits(x)


def ftok_in(x):
    """float token sent to Lean (raw bits; NaN bits decode to nan there)"""
    return "f%d" % f2bits(float(x))


def tok(v, as_arg):
    """token of a Python value the way the code's isinstance tests see it; for positional arguments NumPy scalars
    behave as numbers, for parameter values np.int64 / np.bool_ are 'other' (not int / bool instances)."""
    if v is None:
        return "N"
    if isinstance(v, bool):
        return "b1" if v else "b0"
    if isinstance(v, int):
        return "i%d" % v
    if isinstance(v, float):          # includes np.float64 (a subclass of float)
        return ftok(v)
    if as_arg and isinstance(v, np.bool_):
        return "b1" if v else "b0"
    if as_arg and isinstance(v, np.integer):
        return "i%d" % int(v)
    if isinstance(v, str):
        return "s"
    return "o"


def tok_in(v, as_arg):
    t = tok(v, as_arg)
    if t == "fnan":
        return ftok_in(v)
    return t


def shape_tok(sh):
    if sh is None:
        return "-"
    if len(sh) == 0:
        return "e"
    return ",".join(str(int(d)) for d in sh)


# ----------------------------------------------------------------------------------------------
# cases
# ----------------------------------------------------------------------------------------------
def base_case(rng, kind=None):
    """a valid small problem; `kind` in plain/bounds/scaled/noise/reg/proj/onesided"""
    n = int(rng.integers(1, 4))
    m = int(rng.integers(max(1, n - 1), n + 3))
    kinds = ["plain", "bounds", "scaled", "noise", "reg", "proj", "onesided"]
    if kind is None:
        kind = kinds[int(rng.integers(len(kinds)))]
    x0 = np.round(rng.normal(size=n), 2)
    c = dict(kind=kind, n=n, m=m, oseed=int(rng.integers(1 << 30)), x0=x0.tolist(), x0_2d=False, h=0, prox=0, lh=ABSENT,
             xl=None, xu=None, bounds_none=True, proj=None, npt=ABSENT, rhobeg=ABSENT, rhoend=ABSENT,
             maxfun=enc(int(rng.integers(6, 16))), up=None, noise=False, scaling=False, logging=bool(rng.random() < 0.5))
    if kind in ("bounds", "scaled"):
        c["bounds_none"] = False
        c["xl"] = (x0 - np.round(rng.uniform(1.0, 3.0, size=n), 2)).tolist()
        c["xu"] = (x0 + np.round(rng.uniform(1.0, 3.0, size=n), 2)).tolist()
        c["scaling"] = kind == "scaled"
    elif kind == "onesided":
        c["bounds_none"] = False
        if rng.random() < 0.5:
            c["xl"] = (x0 - 1.5).tolist()
        else:
            c["xu"] = (x0 + 1.5).tolist()
        c["scaling"] = bool(rng.random() < 0.3)     # ignored with a warning
    elif kind == "noise":
        c["noise"] = True
    elif kind == "reg":
        c["h"], c["prox"], c["lh"] = 1, 1, enc(0.1 * math.sqrt(n))
        # part of the base problem (overridden when the case itself sets the key): S-FISTA with its default 500 inner iterations
        # costs ~0.4 s per solve, which is what the quick tier cannot afford 200 times
        c["up_base"] = [["func_tol.max_iters", enc(25)]]
    elif kind == "proj":
        c["proj"] = "ball"
    return c


def build_call(case, counter=None):
    """(args, kwargs) of the real dfols.solve call described by `case`"""
    n, m = case["n"], case["m"]
    r = np.random.default_rng(case["oseed"])
    A = r.normal(size=(m, n)) + (np.eye(m, n) * 2.0)
    b = r.normal(size=m)

    sigma = case.get("osigma", 0.0)
    rr = np.random.default_rng([case["oseed"], 1])

    def objfun(x):
        if counter is not None:
            counter[0] += 1
        if sigma:
            return A.dot(x) - b + sigma * rr.normal(size=m)      # a genuinely noisy objective (restart heuristics need one)
        return A.dot(x) - b

    x0 = np.array(case["x0"], dtype=float)
    if case.get("x0_2d"):
        x0 = x0.reshape((1, -1)) if case["x0_2d"] == "row" else x0.reshape((-1, 1))
    kw = {}
    if case["h"]:
        kw["h"] = lambda x: 0.1 * float(np.sum(np.abs(x)))
    if case["prox"]:
        kw["prox_uh"] = lambda x, u: np.sign(x) * np.maximum(np.abs(x) - 0.1 * u, 0.0)
    if case["lh"] != ABSENT:
        kw["lh"] = dec(case["lh"])
    if not case["bounds_none"]:
        xl = None if case["xl"] is None else np.array(case["xl"], dtype=float)
        xu = None if case["xu"] is None else np.array(case["xu"], dtype=float)
        kw["bounds"] = (xl, xu)
    if case["proj"] == "ball":
        cen, rad = np.zeros(n), 50.0
        kw["projections"] = [lambda x: cen + (x - cen) * min(1.0, rad / max(float(np.linalg.norm(x - cen)), 1e-300))]
    elif case["proj"] == "two":
        kw["projections"] = [lambda x: x * min(1.0, 50.0 / max(float(np.linalg.norm(x)), 1e-300)),
                             lambda x: x - max(float(np.sum(x)) - 60.0, 0.0) / len(x)]
    for nm in ("npt", "rhobeg", "rhoend", "maxfun"):
        if case[nm] != ABSENT:
            kw[nm] = dec(case[nm])
    if case["up"] is not None or case.get("up_base"):
        own = case["up"] or []
        kw["user_params"] = dict([(k, dec(v)) for k, v in case.get("up_base", []) if k not in [kk for kk, _ in own]] +
                                 [(k, dec(v)) for k, v in own])
    if case["noise"]:
        kw["objfun_has_noise"] = True
    if case["scaling"]:
        kw["scaling_within_bounds"] = True
    if not case.get("logging", True):
        kw["do_logging"] = False
    return (objfun, x0), kw


def case_line(case):
    """protocol line for the Lean `validate` (same information the real call receives)"""
    (objfun, x0), kw = build_call(case)
    x0f = x0.astype(float)
    n = len(x0f)
    xl = xu = None
    if "bounds" in kw:
        xl, xu = kw["bounds"]
    try:
        drho = 0.1 * max(np.max(np.abs(x0f)), 1.0)                       # solver.py:972 verbatim
    except Exception:
        drho = 0.0
    xl_e = xl.astype(float) if xl is not None else -1e20 * np.ones((n,))
    xu_e = xu.astype(float) if xu is not None else 1e20 * np.ones((n,))
    try:
        graw = float(np.min(xu_e - xl_e))                                 # solver.py:1045 verbatim
    except Exception:
        graw = 0.0
    gsc = 0.0
    if xl is not None and xu is not None and np.shape(xl) == (n,) and np.shape(xu) == (n,) and np.shape(x0f) == (n,):
        shift, scale = xl_e.copy(), xu_e - xl_e                           # solver.py:1003-1009 / util.apply_scaling verbatim
        gsc = float(np.min((xu_e - shift) / scale - (xl_e - shift) / scale))
    up = "noup"
    if "user_params" in kw:
        up = " ".join(["up"] + ["%s %s" % (k, tok_in(v, False)) for k, v in kw["user_params"].items()])
    toks = ["val", shape_tok(np.shape(x0f)), "1" if "h" in kw else "0", "1" if "prox_uh" in kw else "0",
            tok_in(kw.get("lh"), True), shape_tok(None if xl is None else np.shape(xl)), shape_tok(None if xu is None else np.shape(xu)),
            "1" if kw.get("projections") else "0", tok_in(kw.get("npt"), True), tok_in(kw.get("rhobeg"), True),
            tok_in(kw.get("rhoend", 1e-8), True), tok_in(kw.get("maxfun"), True), "1" if kw.get("objfun_has_noise") else "0",
            "1" if kw.get("scaling_within_bounds") else "0", str(f2bits(float(drho))), str(f2bits(graw)), str(f2bits(gsc)), up]
    return " ".join(toks)


def digest_real(dfols, case, stub=True, alarm=10, counter=None):
    """run the real solve; canonical outcome string in the format of the Lean driver"""
    args, kw = build_call(case, counter)
    try:
        soln = core.with_alarm(alarm, dfols.solve, *args, **kw)
    except Reached as r:
        ps = ",".join(tok(r.params.params[k], False) + ("*" if r.params.params_changed[k] else "") for k in r.params.params)
        return "proceed npt=%s maxfun=%s rhobeg=%s scal=%d params=%s" % (tok(r.npt, True), tok(r.maxfun, True), tok(r.rhobeg, True),
                                                                         0 if r.scaling_changes is None else 1, ps), None
    except core.Alarm:
        return "timeout", None
    except Exception as e:
        return "raise " + type(e).__name__, e
    try:
        s = str(soln)
        str_ok = 1 if isinstance(s, str) and len(s) > 0 else 0
    except Exception:
        str_ok = 0
    has = "".join("0" if getattr(soln, a) is None else "1" for a in ("x", "resid", "obj", "jacobian", "xmin_eval_num", "jacmin_eval_nums"))
    return "result flag=%d nf=%d nx=%d nruns=%d has=%s str=%d msg=%s" % (soln.flag, soln.nf, soln.nx, soln.nruns, has, str_ok, soln.msg), soln


def install_stub(dfols):
    import dfols.solver as S

    def stub(objfun, x0, argsf, xl, xu, projections, npt, rhobeg, rhoend, maxfun, nruns_so_far, nf_so_far, nx_so_far, nsamples, params,
             diagnostic_info, scaling_changes, *a, **k):
        raise Reached(npt, rhobeg, maxfun, params, scaling_changes)

    S.solve_main = stub


# ----------------------------------------------------------------------------------------------
# the documented table (committed reference) as an oracle for the generators
# ----------------------------------------------------------------------------------------------
def spec_entry(key, npt):
    e = SPEC_TYPES[key]
    env = {"npt": npt, "None": None}
    return e["type"], e["none_ok"], eval(e["lower"], {"__builtins__": {}}, env), eval(e["upper"], {"__builtins__": {}}, env)


def param_values(rng, key, npt):
    """[(category, value, class)] with class in valid / invalid / undefined (wrt the documented table)"""
    ty, none_ok, lo, hi = spec_entry(key, npt)
    out = [("none", None, "valid")]          # None = "leave the default" (params.py:132)
    if ty == "float":
        lo_f = None if lo is None else float(lo)
        hi_f = None if hi is None else float(hi)
        a = lo_f if lo_f is not None else -10.0
        bnd = hi_f if hi_f is not None else a + 10.0 ** rng.uniform(-2, 1)
        mid = float(a + (bnd - a) * rng.uniform(0.05, 0.95))
        out += [("in-range", mid, "valid"), ("np-float64", np.float64(mid), "valid")]
        if lo_f is not None:
            out += [("boundary-lower", lo_f, "valid"), ("just-below-lower", float(np.nextafter(lo_f, -INF)), "invalid"),
                    ("out-of-range-low", lo_f - 1.0 - float(rng.random()), "invalid"), ("neg-inf", -INF, "invalid")]
        if hi_f is not None:
            out += [("boundary-upper", hi_f, "valid"), ("just-above-upper", float(np.nextafter(hi_f, INF)), "invalid"),
                    ("out-of-range-high", hi_f + 1.0 + float(rng.random()), "invalid"), ("pos-inf", INF, "invalid")]
        else:
            out += [("pos-inf", INF, "undefined")]
        iv = int(math.ceil(a)) if (hi_f is None or math.ceil(a) <= hi_f) else None
        if iv is not None:
            out += [("int-for-float", iv, "invalid")]
        out += [("nan", NAN, "invalid"), ("wrong-type-str", "abc", "invalid"), ("wrong-type-list", [1.0], "invalid"),
                ("bool-for-float", True, "invalid")]
    elif ty == "int":
        a = lo if lo is not None else 0
        top = hi if hi is not None else a + 6
        if top >= a:
            out += [("in-range", int(rng.integers(a, top + 1)), "valid")]
        if lo is not None:
            out += [("out-of-range-low", lo - 1, "invalid")]
            if hi is None or lo <= hi:
                out += [("boundary-lower", lo, "valid")]
        if hi is not None:
            out += [("out-of-range-high", hi + 1, "invalid")]
            if lo is None or lo <= hi:
                out += [("boundary-upper", hi, "valid")]
        out += [("float-for-int", float(a + 1), "invalid"), ("nan", NAN, "invalid"), ("wrong-type-str", "abc", "invalid"),
                ("wrong-type-list", [1.0], "invalid"), ("bool-for-int", True, "undefined"), ("np-int64", np.int64(a + 1), "undefined")]
    elif ty == "bool":
        out += [("in-range-true", True, "valid"), ("in-range-false", False, "valid"), ("int-for-bool", 1, "invalid"),
                ("float-for-bool", 0.0, "invalid"), ("nan", NAN, "invalid"), ("wrong-type-str", "abc", "invalid"),
                ("np-bool", np.bool_(True), "undefined")]
    return out


DEFAULT_BOOLS = {  # documented defaults of the options that take part in the cross-option rules (noise-dependent ones handled below)
    "growing.safety.full_geom_step": False, "growing.safety.reduce_delta": False, "growing.full_rank.use_full_rank_interp": True,
    "growing.perturb_trust_region_step": False, "init.run_in_parallel": False, "growing.reset_rho": False, "growing.reset_delta": False,
}


def contradictory(case, npt_eff):
    """the documented cross-option rules, restated independently of the code"""
    up = dict((k, dec(v)) for k, v in (case["up"] or []))

    def val(k, default):
        v = up.get(k)
        return default if v is None else v

    n = case["n"]
    g = lambda k: val(k, DEFAULT_BOOLS[k])
    if g("growing.safety.full_geom_step") and g("growing.safety.reduce_delta"):
        return True
    if g("growing.full_rank.use_full_rank_interp") and g("growing.perturb_trust_region_step"):
        return True
    if val("noise.quit_on_noise_level", case["noise"]):
        if val("noise.multiplicative_noise_level", None) is not None and val("noise.additive_noise_level", None) is not None:
            return True
    if g("init.run_in_parallel") and not val("init.random_initial_directions", npt_eff > (n + 1) * (n + 2) // 2):
        return True
    if g("growing.reset_rho") and not g("growing.reset_delta"):
        return True
    return False


AFFINITY = {"func_tol": "reg", "sfista": "reg", "dykstra": "proj", "noise": "noise", "restarts": "noise", "matrix_rank": "proj"}


def with_param(rng, key, cat, kinds=None):
    """a base case plus one user parameter of the given category; returns the case (with tag + expect) or None"""
    kind = None if kinds is None else kinds[int(rng.integers(len(kinds)))]
    if kinds is None and key.split(".")[0] in AFFINITY and rng.random() < 0.75:
        kind = AFFINITY[key.split(".")[0]]          # the base problem on which the key is actually read
    c = base_case(rng, kind)
    npt = c["n"] + 1
    if rng.random() < 0.3 and c["proj"] is None:
        npt = c["n"] + 1 + int(rng.integers(0, c["n"] + 1))
        c["npt"] = enc(npt)
    for (cc, v, cls) in param_values(rng, key, npt):
        if cc == cat:
            c["up"] = [[key, enc(v)]]
            if key == "dykstra.d_tol" and cls == "valid" and isinstance(v, float) and v == 0.0:
                # tol = 0 means "always run dykstra.max_iters sweeps": terminates, but slowly; keep the sweep count small so that
                # the wall-clock alarm only ever fires on genuine non-termination
                c["up"].append(["dykstra.max_iters", enc(5)])
            c["tag"] = "param:%s:%s" % (key, cat)
            if cls == "valid" and contradictory(c, npt):
                cls = "invalid"
                c["tag"] += ":cross-option"
            c["expect"] = cls
            return c
    return None


ALL_CATS = ["none", "in-range", "np-float64", "boundary-lower", "boundary-upper", "just-below-lower", "just-above-upper",
            "out-of-range-low", "out-of-range-high", "neg-inf", "pos-inf", "int-for-float", "nan", "wrong-type-str", "wrong-type-list",
            "bool-for-float", "float-for-int", "bool-for-int", "np-int64", "in-range-true", "in-range-false", "int-for-bool",
            "float-for-bool", "np-bool"]


def arg_cases(rng):
    """one mutation of a positional / keyword argument each; [(case)] with tag + expect"""
    out = []

    def add(kind, tag, expect, **mods):
        c = base_case(rng, kind)
        for k, v in mods.items():
            c[k] = v(c) if callable(v) else v
        c["tag"], c["expect"] = tag, expect
        out.append(c)

    for kind in ("plain", "bounds", "noise"):
        # radii
        for cat, v, ex in [("zero", 0.0, "invalid"), ("negative", -0.5, "invalid"), ("int-zero", 0, "invalid"), ("neg-inf", -INF, "invalid"),
                           ("below-rhoend", 1e-9, "invalid"), ("equal-rhoend", 1e-8, "invalid"), ("in-range", 0.3, "valid"),
                           ("int-for-float", 1, "valid"), ("np-float64", np.float64(0.25), "valid"), ("none", None, "valid"),
                           ("bool-for-float", True, "undefined"), ("nan", NAN, "undefined"), ("pos-inf", INF, "undefined"),
                           ("wrong-type-str", "abc", "undefined"), ("wrong-type-list", [1.0], "undefined")]:
            add(kind, "arg:rhobeg:" + cat, ex, rhobeg=enc(v))
        for cat, v, ex in [("zero", 0.0, "invalid"), ("negative", -1e-3, "invalid"), ("int-zero", 0, "invalid"), ("neg-inf", -INF, "invalid"),
                           ("above-rhobeg", 5.0, "invalid"), ("int-above-rhobeg", 7, "invalid"), ("pos-inf", INF, "invalid"),
                           ("in-range", 1e-5, "valid"), ("np-float64", np.float64(1e-6), "valid"), ("none", None, "undefined"),
                           ("bool-for-float", True, "undefined"), ("nan", NAN, "undefined"),
                           ("wrong-type-str", "abc", "undefined"), ("wrong-type-list", [1.0], "undefined")]:
            add(kind, "arg:rhoend:" + cat, ex, rhoend=enc(v))
        add(kind, "arg:rhobeg-rhoend:equal", "invalid", rhobeg=enc(0.01), rhoend=enc(0.01))
        add(kind, "arg:rhobeg-rhoend:just-above", "valid", rhobeg=enc(float(np.nextafter(0.01, 1.0))), rhoend=enc(0.01))
        # npt
        for cat, f, ex in [("n", lambda c: c["n"], "invalid"), ("zero", lambda c: 0, "invalid"), ("negative", lambda c: -2, "invalid"),
                           ("boundary-n+1", lambda c: c["n"] + 1, "valid"), ("in-range", lambda c: c["n"] + 2, "valid"),
                           ("2n+1", lambda c: 2 * c["n"] + 1, "valid"), ("quadratic+1", lambda c: (c["n"] + 1) * (c["n"] + 2) // 2 + 1, "valid"),
                           ("none", lambda c: None, "valid"), ("float-for-int", lambda c: float(c["n"] + 1), "undefined"),
                           ("float-fraction", lambda c: c["n"] + 0.5, "undefined"), ("np-int64", lambda c: np.int64(c["n"] + 1), "undefined"),
                           ("bool-for-int", lambda c: True, "undefined"), ("nan", lambda c: NAN, "undefined"), ("pos-inf", lambda c: INF, "undefined"),
                           ("wrong-type-str", lambda c: "abc", "undefined"), ("wrong-type-list", lambda c: [1.0], "undefined")]:
            add(kind, "arg:npt:" + cat, ex, npt=lambda c, f=f: enc(f(c)))
        # maxfun
        for cat, v, ex in [("zero", 0, "invalid"), ("negative", -3, "invalid"), ("one", 1, "valid"), ("two", 2, "valid"), ("in-range", 15, "valid"),
                           ("none", None, "valid"), ("float-for-int", 9.0, "undefined"), ("float-fraction", 0.5, "undefined"),
                           ("bool-for-int", True, "undefined"), ("bool-false", False, "undefined"), ("nan", NAN, "undefined"),
                           ("pos-inf", INF, "undefined"), ("np-int64", np.int64(9), "undefined"),
                           ("wrong-type-str", "abc", "undefined"), ("wrong-type-list", [1.0], "undefined")]:
            if cat == "none":
                continue        # default budget 100(n+1): a full-length solve, exercised once below
            add(kind, "arg:maxfun:" + cat, ex, maxfun=enc(v))
    add("plain", "arg:maxfun:none", "valid", maxfun=ABSENT)
    # regulariser
    for cat, mods, ex in [("no-prox", dict(h=1, prox=0), "invalid"), ("no-prox-with-lh", dict(h=1, prox=0, lh=enc(1.0)), "invalid"),
                          ("no-lh", dict(h=1, prox=1), "invalid"), ("lh-none", dict(h=1, prox=1, lh=enc(None)), "invalid"),
                          ("lh-zero", dict(h=1, prox=1, lh=enc(0.0)), "invalid"), ("lh-int-zero", dict(h=1, prox=1, lh=enc(0)), "invalid"),
                          ("lh-negative", dict(h=1, prox=1, lh=enc(-2.0)), "invalid"), ("lh-neg-inf", dict(h=1, prox=1, lh=enc(-INF)), "invalid"),
                          ("lh-in-range", dict(h=1, prox=1, lh=enc(0.4)), "valid"), ("lh-int", dict(h=1, prox=1, lh=enc(1)), "valid"),
                          ("lh-nan", dict(h=1, prox=1, lh=enc(NAN)), "undefined"), ("lh-str", dict(h=1, prox=1, lh=enc("abc")), "undefined"),
                          ("lh-bool", dict(h=1, prox=1, lh=enc(True)), "undefined"),
                          ("prox-lh-without-h", dict(h=0, prox=1, lh=enc(0.0)), "valid")]:
        add("plain", "arg:h:" + cat, ex, **mods)
    # bounds
    def narrow(c, gap):
        c["bounds_none"] = False
        x0 = np.array(c["x0"])
        c["xl"] = (x0 - gap / 2).tolist()
        c["xu"] = (np.array(c["xl"]) + gap).tolist()
        return False

    for cat, gap, rb, ex in [("too-narrow", 0.9, 0.5, "invalid"), ("exactly-2rhobeg", 1.0, 0.5, "valid"), ("inverted", -1.0, 0.1, "invalid"),
                             ("equal", 0.0, 0.1, "invalid"), ("wide", 4.0, 0.5, "valid")]:
        add("plain", "arg:bounds:" + cat, ex, scaling=lambda c, gap=gap: narrow(c, gap), rhobeg=enc(rb))
    add("plain", "arg:bounds:too-narrow-default-rhobeg", "invalid", scaling=lambda c: narrow(c, 0.15))
    add("plain", "arg:bounds:too-narrow-one-coordinate", "invalid",
        scaling=lambda c: (narrow(c, 4.0), c["xu"].__setitem__(0, c["xl"][0] + 0.1))[0] and False)
    for cat, gap, ex in [("scaled-narrow", 0.05, "valid"), ("scaled-inverted", -1.0, "invalid"), ("scaled-equal", 0.0, "invalid")]:
        add("plain", "arg:bounds:" + cat, ex, scaling=lambda c, gap=gap: (narrow(c, gap), True)[1])
    add("plain", "arg:bounds:scaled-rhobeg-too-large", "invalid", scaling=lambda c: (narrow(c, 4.0), True)[1], rhobeg=enc(0.6))
    for cat, which, ex in [("xl-wrong-length", "xl", "invalid"), ("xu-wrong-length", "xu", "invalid")]:
        def wrong(c, which=which):
            narrow(c, 4.0)
            c[which] = c[which] + [c[which][-1]] * 2
            return False
        add("plain", "arg:bounds:" + cat, ex, scaling=wrong)
        add("plain", "arg:bounds:scaled-" + cat, ex, scaling=lambda c, wrong=wrong: (wrong(c), True)[1])
    add("plain", "arg:bounds:scaled-one-coordinate-zero-width", "invalid",
        scaling=lambda c: (narrow(c, 4.0), c["xu"].__setitem__(0, c["xl"][0]), True)[2])
    add("plain", "arg:x0:2d-row", "invalid", x0_2d="row")
    add("plain", "arg:x0:2d-column", "undefined", x0_2d="col")      # len(x0) = n rows of width 1: default rhobeg etc. still defined
    add("proj", "arg:projections:narrow-bounds-ignored", "valid", scaling=lambda c: narrow(c, 120.0), rhobeg=enc(0.5))
    add("proj", "arg:projections:scaling-ignored", "valid", scaling=lambda c: (narrow(c, 120.0), True)[1])
    # contradictory options (and their consistent counterparts)
    T, F_ = enc(True), enc(False)
    for cat, up, ex, kind in [
            ("safety-both", [["growing.safety.full_geom_step", T], ["growing.safety.reduce_delta", T]], "invalid", "plain"),
            ("safety-full-geom-only", [["growing.safety.full_geom_step", T]], "valid", "plain"),
            ("safety-reduce-delta-only", [["growing.safety.reduce_delta", T]], "valid", "plain"),
            ("growing-both", [["growing.perturb_trust_region_step", T]], "invalid", "plain"),
            ("growing-both-explicit", [["growing.full_rank.use_full_rank_interp", T], ["growing.perturb_trust_region_step", T]], "invalid", "plain"),
            ("growing-perturb-only", [["growing.full_rank.use_full_rank_interp", F_], ["growing.perturb_trust_region_step", T]], "valid", "plain"),
            ("noise-both", [["noise.quit_on_noise_level", T], ["noise.multiplicative_noise_level", enc(0.05)], ["noise.additive_noise_level", enc(0.1)]], "invalid", "plain"),
            ("noise-both-default-quit", [["noise.multiplicative_noise_level", enc(0.05)], ["noise.additive_noise_level", enc(0.1)]], "invalid", "noise"),
            ("noise-both-but-no-quit", [["noise.multiplicative_noise_level", enc(0.05)], ["noise.additive_noise_level", enc(0.1)]], "valid", "plain"),
            ("noise-additive-only", [["noise.quit_on_noise_level", T], ["noise.additive_noise_level", enc(0.1)]], "valid", "plain"),
            ("noise-multiplicative-only", [["noise.quit_on_noise_level", T], ["noise.multiplicative_noise_level", enc(0.05)]], "valid", "plain"),
            ("noise-neither", [["noise.quit_on_noise_level", T]], "valid", "plain"),
            ("parallel-coordinate", [["init.run_in_parallel", T]], "invalid", "plain"),
            ("parallel-coordinate-explicit", [["init.run_in_parallel", T], ["init.random_initial_directions", F_]], "invalid", "plain"),
            ("parallel-random", [["init.run_in_parallel", T], ["init.random_initial_directions", T]], "valid", "plain"),
            ("reset-rho-only", [["growing.reset_rho", T]], "invalid", "plain"),
            ("reset-rho-and-delta", [["growing.reset_rho", T], ["growing.reset_delta", T]], "valid", "plain"),
            ("reset-delta-only", [["growing.reset_delta", T]], "valid", "plain")]:
        for _rep in range(2):
            add(kind, "options:" + cat, ex, up=up)
    # unknown keys (ValueError), alone and together with another invalid argument
    for cat, up, mods in [("typo", [["tr_radius.eta3", enc(0.5)]], {}), ("case", [["TR_RADIUS.ETA1", enc(0.1)]], {}),
                          ("prefix", [["tr_radius", enc(0.1)]], {}), ("with-valid-key", [["tr_radius.eta1", enc(0.2)], ["nope", enc(None)]], {}),
                          ("none-value", [["unknown.key", enc(None)]], {}), ("with-bad-rhobeg", [["tr_radius.eta3", enc(0.5)]], dict(rhobeg=enc(-1.0))),
                          ("with-missing-prox", [["zzz", enc(True)]], dict(h=1, prox=0))]:
        add("plain", "unknown-key:" + cat, "unknown", up=up, **mods)
    # first failing check wins / several things wrong at once
    add("plain", "multi:rhobeg-and-param", "invalid", rhobeg=enc(-1.0), up=[["tr_radius.eta1", enc(7.0)]])
    add("plain", "multi:npt-and-maxfun", "invalid", npt=enc(1), maxfun=enc(0))
    add("plain", "multi:params-two-bad", "invalid", up=[["tr_radius.eta2", enc(3.0)], ["general.safety_step_thresh", enc(-1.0)], ["slow.max_slow_iters", enc(2.5)]])
    add("plain", "multi:param-and-options", "invalid", up=[["tr_radius.eta2", enc(3.0)], ["growing.reset_rho", enc(True)]])
    add("reg", "multi:lh-and-rhoend", "invalid", lh=enc(-1.0), rhoend=enc(-1.0))
    # adjacent checks failing together: the message must be that of the earlier one (order of the source)
    add("reg", "multi:lh-and-npt", "invalid", lh=enc(0.0), npt=enc(1))
    add("plain", "multi:npt-and-rhobeg", "invalid", npt=enc(1), rhobeg=enc(-1.0))
    add("plain", "multi:rhobeg-and-rhoend", "invalid", rhobeg=enc(-1.0), rhoend=enc(-2.0))
    add("plain", "multi:rhoend-and-order", "invalid", rhobeg=enc(0.5), rhoend=enc(0.0))
    add("plain", "multi:order-and-maxfun", "invalid", rhobeg=enc(0.5), rhoend=enc(0.7), maxfun=enc(0))
    add("plain", "multi:maxfun-and-x0", "invalid", maxfun=enc(-1), x0_2d="row")

    def both_wrong(c):
        narrow(c, 4.0)
        c["xl"] = c["xl"] + [c["xl"][-1]]
        c["xu"] = c["xu"] + [c["xu"][-1]] * 2
        return False
    add("plain", "multi:xl-and-xu-shape", "invalid", scaling=both_wrong)
    add("plain", "multi:xu-shape-and-param", "invalid", scaling=lambda c: (narrow(c, 4.0), c.__setitem__("xu", c["xu"] + [1.0]))[0] and False,
        up=[["tr_radius.eta1", enc(5.0)]])
    add("plain", "multi:gap-and-param", "invalid", scaling=lambda c: narrow(c, 0.5), rhobeg=enc(0.5), up=[["tr_radius.eta1", enc(5.0)]])
    add("plain", "multi:safety-and-growing", "invalid", up=[["growing.safety.full_geom_step", T], ["growing.safety.reduce_delta", T],
                                                             ["growing.perturb_trust_region_step", T]])
    add("plain", "multi:growing-and-noise", "invalid", up=[["growing.perturb_trust_region_step", T], ["noise.quit_on_noise_level", T],
                                                            ["noise.multiplicative_noise_level", enc(0.1)], ["noise.additive_noise_level", enc(0.1)]])
    add("noise", "multi:noise-and-parallel", "invalid", up=[["noise.multiplicative_noise_level", enc(0.1)], ["noise.additive_noise_level", enc(0.1)],
                                                             ["init.run_in_parallel", T]])
    add("plain", "multi:parallel-and-reset", "invalid", up=[["init.run_in_parallel", T], ["growing.reset_rho", T]])
    add("plain", "options:empty-dict", "valid", up=[])
    return out


def random_combo(rng):
    """2-4 random keys with documented in-range / boundary values (valid unless a cross-option rule says otherwise)"""
    c = base_case(rng)
    npt = c["n"] + 1
    ks = [SPEC_KEYS[int(i)] for i in rng.choice(len(SPEC_KEYS), size=int(rng.integers(2, 5)), replace=False)]
    up = []
    for k in ks:
        vals = [(cc, v) for (cc, v, cls) in param_values(rng, k, npt) if cls == "valid" and cc != "none"]
        cc, v = vals[int(rng.integers(len(vals)))]
        up.append([k, enc(v)])
    if any(k == "dykstra.d_tol" and dec(v) == 0.0 for k, v in up) and not any(k == "dykstra.max_iters" for k, v in up):
        up.append(["dykstra.max_iters", enc(5)])      # see with_param: tol = 0 is slow, not divergent
    c["up"] = up
    c["tag"] = "combo:" + "+".join(sorted(ks))
    c["expect"] = "invalid" if contradictory(c, npt) else "valid"
    return c


BOUNDARY_KINDS = [["plain", "bounds", "scaled", "onesided"], ["reg"], ["noise"], ["proj"]]


def all_param_cases(ctx, suite, per_key_cats=None, kinds=None, boundary_on_all_kinds=False):
    """every key x every category; with boundary_on_all_kinds the accepted boundary values are tried on each family of
    base problems (a boundary value typically only bites on the code path that reads the key)"""
    out = []
    for ki, key in enumerate(SPEC_KEYS):
        for ci, cat in enumerate(ALL_CATS):
            if per_key_cats is not None and cat not in per_key_cats:
                continue
            if boundary_on_all_kinds and cat in ("boundary-lower", "boundary-upper"):
                for rep in range(ctx.scale(2, 4)):
                    for kk, ks in enumerate(BOUNDARY_KINDS):
                        c = with_param(np.random.default_rng([ctx.seed, suite, ki, ci, kk, rep]), key, cat, ks)
                        if c is not None:
                            out.append(c)
                continue
            rng = np.random.default_rng([ctx.seed, suite, ki, ci])
            c = with_param(rng, key, cat, kinds)
            if c is not None:
                out.append(c)
    return out


# ----------------------------------------------------------------------------------------------
# correspondence
# ----------------------------------------------------------------------------------------------
def _driver(ctx, lines):
    try:
        return core.run_driver(lines, main=MAIN)
    except Exception as e1:     # e.g. the driver module was not built because another target of the same build failed
        b = core.lake_build(tuple(BUILD_TARGETS))
        try:
            return core.run_driver(lines, main=MAIN)
        except Exception as e2:
            ctx.broke("correspondence:driver", "Lean driver unavailable: %s / build ok=%s %s" % (str(e2)[-600:], b.ok, b.log[-600:]))
            return None


def corr_validate(ctx, dfols):
    install_stub(dfols)
    cases = all_param_cases(ctx, 701)
    cases += arg_cases(np.random.default_rng([ctx.seed, 702]))
    for i in range(ctx.scale(300, 3000)):
        cases.append(random_combo(np.random.default_rng([ctx.seed, 703, i])))
    if ctx.thorough():
        for rep in range(4):
            cases += all_param_cases(ctx, 710 + rep)
            cases += arg_cases(np.random.default_rng([ctx.seed, 720 + rep]))
    lines = [case_line(c) for c in cases]
    replies = _driver(ctx, ["keys"] + lines)
    if replies is None:
        return
    lean_keys = replies[0].split()[1:]
    replies = replies[1:]
    classes, mism, unmodelled = {}, [], 0
    for c, line, rep in zip(cases, lines, replies):
        real, obj = digest_real(dfols, c, stub=True)
        ctx.seen(("c07corr", line))
        if rep == "unmodelled":
            unmodelled += 1
            continue
        cl = real.split(" ")[0] + (":" + real.split(" ")[1] if real.startswith("raise") else "")
        classes[cl] = classes.get(cl, 0) + 1
        if real != rep:
            mism.append({"tag": c["tag"], "case": c, "protocol": line, "lean": rep[:600], "real": real[:600]})
    # key order of the real ParameterList (dict order) against the generated table
    from dfols.params import ParameterList
    real_keys = list(ParameterList(2, 3, 10).params.keys())
    if real_keys != lean_keys:
        ctx.broke("correspondence:param-key-order", {"real_only": sorted(set(real_keys) - set(lean_keys)), "lean_only": sorted(set(lean_keys) - set(real_keys)),
                                                     "same_set": set(real_keys) == set(lean_keys)})
    ctx.cov["correspondence_validate"] = {"cases": len(cases), "outcome_classes_real": classes, "unmodelled_skipped": unmodelled,
                                          "mismatches": len(mism), "tags": len(set(c["tag"] for c in cases))}
    for c, line, rep in list(zip(cases, lines, replies))[:1] + [x for x in zip(cases, lines, replies) if x[2].startswith("result")][:2]:
        ctx.add_sample({"kind": "validate vs solve", "tag": c["tag"], "protocol": line[:300], "lean": rep[:300]})
    for mm in mism[:6]:
        ctx.broke("correspondence:validate-vs-solve", mm)
    ctx._c07_mism = mism


def corr_plist(ctx, dfols):
    """random call sequences on the real ParameterList object vs PList"""
    from dfols.params import ParameterList
    nseq = ctx.scale(40, 400)
    lines, want, owner = [], [], []
    for i in range(nseq):
        rng = np.random.default_rng([ctx.seed, 730, i])
        n = int(rng.integers(1, 5))
        npt = n + 1 + int(rng.integers(0, 2 * n + 6))
        mf = int(rng.integers(1, 200))
        nz = bool(rng.random() < 0.5)
        P = ParameterList(n, npt, mf, objfun_has_noise=nz)

        def dig():
            return ",".join(tok(P.params[k], False) + ("*" if P.params_changed[k] else "") for k in P.params)

        lines.append("pinit %d %d %d %d" % (n, npt, mf, 1 if nz else 0))
        want.append("ok " + dig())
        owner.append(i)
        touched = []
        for _ in range(int(rng.integers(5, 25))):
            u = rng.random()
            if u < 0.55:
                key = SPEC_KEYS[int(rng.integers(len(SPEC_KEYS)))] if (rng.random() < 0.6 or not touched) else touched[int(rng.integers(len(touched)))]
                vals = param_values(rng, key, npt)
                cc, v, _cls = vals[int(rng.integers(len(vals)))]
                touched.append(key)
                lines.append("pcall %s %s" % (key, tok_in(v, False)))
                try:
                    r = P(key, new_value=v)
                    want.append("ok %s %s" % (tok(r, False), dig()))
                except Exception as e:
                    want.append("raise " + type(e).__name__)
            elif u < 0.65:
                key = ["nope", "tr_radius.eta3", "general"][int(rng.integers(3))]
                t = ["N", "b1", "i3"][int(rng.integers(3))]
                lines.append("pcall %s %s" % (key, t))
                try:
                    P(key, new_value={"N": None, "b1": True, "i3": 3}[t])
                    want.append("ok ?")
                except Exception as e:
                    want.append("raise " + type(e).__name__)
            elif u < 0.9:
                key = SPEC_KEYS[int(rng.integers(len(SPEC_KEYS)))]
                vals = param_values(rng, key, npt)
                cc, v, _cls = vals[int(rng.integers(len(vals)))]
                nptv = npt if rng.random() < 0.7 else [float(npt), npt + 0.5, True, npt - 1][int(rng.integers(4))]
                lines.append("pcheck %s %s %s" % (key, tok_in(v, False), tok_in(nptv, True)))
                try:
                    want.append("ok %d" % (1 if P.check_param(key, v, nptv) else 0))
                except Exception as e:
                    want.append("raise " + type(e).__name__)
            else:
                lines.append("pcheckall %s" % tok_in(npt, True))
                try:
                    ok, bad = P.check_all_params(npt)
                    want.append("ok " + ",".join(bad) if ok == (len(bad) == 0) else "inconsistent %r %r" % (ok, bad))
                except Exception as e:
                    want.append("raise " + type(e).__name__)
            owner.append(i)
        lines.append("pcheck no.such.key b1 i%d" % npt)
        try:
            P.check_param("no.such.key", True, npt)
            want.append("ok ?")
        except Exception as e:
            want.append("raise " + type(e).__name__)
        owner.append(i)
    replies = _driver(ctx, lines)
    if replies is None:
        return
    mism = [{"sequence": o, "line": l, "lean": r[:300], "real": w[:300]} for l, r, w, o in zip(lines, replies, want, owner) if r != w]
    for l in lines:
        ctx.seen(("c07plist", l))
    ctx.cov["correspondence_parameterlist"] = {"sequences": nseq, "protocol_lines": len(lines), "mismatches": len(mism)}
    for mm in mism[:4]:
        ctx.broke("correspondence:ParameterList-vs-PList", mm)


def corr_exit(ctx, dfols):
    import dfols.controller as C
    import dfols.solver as S
    lines, want = [], []
    for flag in range(-8, 10):
        ei = C.ExitInformation(flag, "<details>")
        lines.append("xmessage %d" % flag)
        want.append("ok " + ei.message(with_stem=True))
        lines.append("xrestart %d" % flag)
        a, b = C.ExitInformation(flag, "abc").able_to_do_restart(), C.ExitInformation(flag, "objective is sufficiently small").able_to_do_restart()
        want.append("ok " + ("m" if (a, b) == (True, False) else ("1" if (a, b) == (True, True) else ("0" if (a, b) == (False, False) else "?"))))
    names = sorted(set([k for k in vars(C) if k.startswith("EXIT_")] + list(SPEC_CONST) + ["EXIT_NOT_A_CONSTANT"]))
    try:
        soln = S.OptimResults(np.zeros(1), np.zeros(1), 0.0, None, 1, 1, 1, 0, "m", 1, None)
    except Exception as e:
        soln = None
        ctx.notes.append("OptimResults(11 args) raised %r" % (e,))
    for nm in names:
        lines.append("xconst %s" % nm)
        want.append("ok " + (str(getattr(C, nm)) if hasattr(C, nm) else "-"))
        if soln is not None:
            lines.append("xexposes %s" % nm)
            want.append("ok " + (str(getattr(soln, nm)) if hasattr(soln, nm) else "-"))
    replies = _driver(ctx, lines)
    if replies is None:
        return
    mism = [{"line": l, "lean": r, "real": w} for l, r, w in zip(lines, replies, want) if r != w]
    for l in lines:
        ctx.seen(("c07exit", l))
    ctx.cov["correspondence_exit_tables"] = {"protocol_lines": len(lines), "mismatches": len(mism)}
    for mm in mism[:4]:
        ctx.broke("correspondence:ExitInformation-vs-ExitTable", mm)


def _import(ctx):
    try:
        return core.import_dfols()
    except Exception as e:      # the package under test does not even import: a failing input for every property
        ctx.fail("C07:dfols-import-fails", "import dfols raised %r" % (e,), {"import": True})
        return None


def correspondence(ctx):
    dfols = _import(ctx)
    if dfols is None:
        return
    # corr_validate installs the solve_main sentinel in this import of dfols (search re-imports a fresh copy)
    for fn in (corr_exit, corr_plist, corr_validate):
        try:
            fn(ctx, dfols)
        except Exception as e:  # the real code misbehaved in a way the comparison did not anticipate: a disagreement, not a tool failure
            import traceback
            ctx.broke("correspondence:%s" % fn.__name__, "%r\n%s" % (e, traceback.format_exc()[-1500:]))


# ----------------------------------------------------------------------------------------------
# failing-input search: the property stated directly on the real solve
# ----------------------------------------------------------------------------------------------
def spec_defaults(n, npt, maxfun, noise):
    """the documented defaults (committed reference), evaluated the way ParameterList.__init__ builds them"""
    import types
    d = {}
    env = {"n": n, "npt": npt, "maxfun": maxfun, "objfun_has_noise": noise, "self": types.SimpleNamespace(params=d),
           "True": True, "False": False, "None": None}
    for k, src in SPEC["params"]["defaults"]:
        d[k] = eval(src, {"__builtins__": {}}, env)
    return d


def boundary_culprits(case):
    """user parameters sitting exactly on a bound of the documented table (the usual reason for a crash on accepted input);
    a value equal to the key's default cannot be the reason and is left out"""
    out = []
    npt = case["n"] + 1 if case["npt"] == ABSENT or not isinstance(dec(case["npt"]), int) else dec(case["npt"])
    mf = dec(case["maxfun"]) if case["maxfun"] != ABSENT and isinstance(dec(case["maxfun"]), int) else 100
    dflt = spec_defaults(case["n"], npt, mf, bool(case["noise"]))
    for k, sv in (case["up"] or []):
        v = dec(sv)
        if k not in SPEC_TYPES or isinstance(v, (bool, np.bool_)) or not isinstance(v, (int, float)):
            continue
        if dflt.get(k) is not None and not isinstance(dflt[k], bool) and v == dflt[k]:
            continue
        _ty, _none_ok, lo, hi = spec_entry(k, npt)
        if (lo is not None and v == lo) or (hi is not None and v == hi):
            out.append("%s=%s" % (k, repr(float(v)) if isinstance(v, float) else repr(int(v))))
    return sorted(out)


KNOWN_BAD = set()      # boundary values that already failed on their own in this run


NAMED = {("slow.history_for_slow=0", "ZeroDivisionError"): "C07:history_for_slow-0-zerodivision",
         ("tr_radius.alpha1=1.0", "nontermination"): "C07:alpha1-1.0-nontermination"}


def input_class(tag):
    """param:<key>:<category>[:cross-option] -> param:<category>; combo:<keys> -> combo; everything else unchanged"""
    p = tag.split(":")
    if p[0] == "param":
        return "param:" + ":".join(p[2:])
    if p[0] == "combo":
        return "combo"
    return tag


def crash_signature(case, failure):
    """stable signature of a crash / hang on documented input: names the boundary value(s) responsible when there are any"""
    cul = boundary_culprits(case)
    if len(cul) > 1 and any(c in KNOWN_BAD for c in cul):
        cul = [c for c in cul if c in KNOWN_BAD]         # attribute a combination to the value(s) known to fail alone
    if cul:
        if len(cul) == 1:
            KNOWN_BAD.add(cul[0])
        if len(cul) == 1 and (cul[0], failure) in NAMED:
            return NAMED[(cul[0], failure)]
        # the exception class is not part of the signature: the same division by zero surfaces as ZeroDivisionError or as
        # OverflowError (inf -> int) depending on whether a Python float or a NumPy scalar reaches it
        return "C07:boundary:%s:%s" % ("+".join(cul), failure if failure == "nontermination" else "crash")
    return None


def check_case(dfols, case, alarm=10):
    """None if the property holds on this input, else (signature, what)"""
    counter = [0]
    real, obj = digest_real(dfols, case, stub=False, alarm=alarm, counter=counter)
    tag, expect = case["tag"], case["expect"]
    kind = real.split(" ")[0]
    exc = real.split(" ")[1] if kind == "raise" else None
    if expect == "unknown":
        if exc == "ValueError" and "nknown parameter" in str(obj):
            return None
        return ("C07:unknown-key:" + (exc or kind), "unknown parameter name did not raise ValueError('Unknown parameter …') but gave: %s" % real[:200])
    if expect == "undefined":
        # outside the documented domain: nothing is promised about exceptions, but a returned result must be well formed
        if kind != "result":
            return None
        return check_result(obj, real, case, counter, None)
    if kind == "timeout":
        sig = crash_signature(case, "nontermination")
        if sig is not None and expect == "valid":
            return (sig, "solve did not return within %g s with the accepted boundary value(s) %s (%s)" % (alarm, ", ".join(boundary_culprits(case)), tag))
        return ("C07:nontermination:" + input_class(tag), "solve did not return within %g s (%s, expected %s)" % (alarm, tag, expect))
    if kind == "raise":
        msg = str(obj)
        if expect == "invalid":
            return ("C07:input-error-raises:" + exc, "invalid input (%s) raised %s(%s) instead of returning the input-error result" % (tag, exc, msg[:120]))
        if exc == "RuntimeError" and "Unable to generate suitable initial directions" in msg:
            return ("C07:projections-runtimeerror-init-directions" if case["proj"] else "C07:runtimeerror-init-directions",
                    "RuntimeError('Unable to generate suitable initial directions') for %s" % tag)
        sig = crash_signature(case, exc)
        if sig is not None:
            return (sig, "the accepted boundary value(s) %s raised %s(%s) (%s)" % (", ".join(boundary_culprits(case)), exc, msg[:120], tag))
        return ("C07:valid-input-raises:%s:%s" % (input_class(tag), exc), "documented input (%s) raised %s(%s)" % (tag, exc, msg[:160]))
    return check_result(obj, real, case, counter, expect)


def check_result(soln, real, case, counter, expect):
    tag = case["tag"]
    if soln.flag not in DOCUMENTED_FLAGS:
        return ("C07:undocumented-flag:%s" % soln.flag, "flag %r (%s) is not the value of any exit constant named in the user guide (%s)" % (soln.flag, soln.msg[:60], tag))
    if not isinstance(soln.msg, str) or len(soln.msg) == 0:
        return ("C07:empty-message", "msg = %r (%s)" % (soln.msg, tag))
    if " str=0 " in real:
        return ("C07:str-raises", "str(soln) raised or was empty (%s, flag %d)" % (tag, soln.flag))
    if soln.flag == INPUT_ERROR and (soln.nf != 0 or soln.nx != 0 or counter[0] != 0):
        return ("C07:input-error-nonzero-counters", "input-error result with nf=%r nx=%r, objfun called %d times (%s)" % (soln.nf, soln.nx, counter[0], tag))
    if expect == "invalid" and soln.flag != INPUT_ERROR:
        return ("C07:invalid-accepted:" + input_class(tag), "invalid input (%s) was accepted: flag %d, %s" % (tag, soln.flag, soln.msg[:80]))
    if expect == "valid" and soln.flag == INPUT_ERROR:
        return ("C07:valid-rejected:" + input_class(tag), "documented input (%s) was rejected: %s" % (tag, soln.msg[:120]))
    missing = [nm for nm in GUIDE_EXITS if not hasattr(soln, nm)]
    if missing:
        return ("C07:result-lacks-exit-constants:" + "+".join(missing),
                "the result object has no attribute %s although the user guide names %s" % (", ".join(missing), ", ".join("soln." + nm for nm in missing)))
    for nm in GUIDE_EXITS:
        if getattr(soln, nm) != SPEC_CONST.get(nm):
            return ("C07:exit-constant-value:" + nm, "soln.%s = %r but the documented value is %r" % (nm, getattr(soln, nm), SPEC_CONST.get(nm)))
    return None


# quick tier: the categories whose solves are instantaneous (rejected inputs) plus in-range and boundary values;
# `none` / `np-float64` / the remaining wrong-type variants are covered by the correspondence on every run and by the thorough search
QUICK_CATS = ["in-range", "boundary-lower", "boundary-upper", "out-of-range-low", "out-of-range-high", "just-above-upper", "just-below-lower",
              "wrong-type-str", "nan", "int-for-float", "float-for-int", "bool-for-int", "in-range-true", "in-range-false", "int-for-bool"]


def search_cases(ctx, round_):
    cases = []
    # inputs on which the correspondence disagreed come first (seeds of the enlarged search)
    for mm in getattr(ctx, "_c07_mism", [])[:40]:
        cases.append(mm["case"])
    cases += arg_cases(np.random.default_rng([ctx.seed, 750 + round_]))
    pc = all_param_cases(ctx, 760 + round_, per_key_cats=None if (ctx.thorough() or round_ > 0) else QUICK_CATS, boundary_on_all_kinds=True)
    # accepted boundary values first (that is where documented inputs crash), then the rest
    cases += [c for c in pc if ":boundary-" in c["tag"]] + [c for c in pc if ":boundary-" not in c["tag"]]
    for i in range(ctx.scale(60, 1500)):
        cases.append(random_combo(np.random.default_rng([ctx.seed, 770 + round_, i])))
    # projections with npt != n+1 / several sets (known limitation: RuntimeError in the initial directions)
    for i in range(ctx.scale(12, 200)):
        rng = np.random.default_rng([ctx.seed, 780 + round_, i])
        c = base_case(rng, "proj")
        c["proj"] = "ball" if i % 2 else "two"
        c["npt"] = enc(c["n"] + 1 + int(rng.integers(0, c["n"] + 2)))
        if rng.random() < 0.5:
            c["x0"] = (np.array(c["x0"]) / max(np.linalg.norm(c["x0"]), 1e-9) * 50.0).tolist()     # on the curved boundary
        c["tag"], c["expect"] = "projections:npt-n+1+%d" % (dec(c["npt"]) - c["n"] - 1), "valid"
        cases.append(c)
    # noisy objective, hard restarts, eager auto-detection: the exits that only restarts produce (flags 3 and 4)
    for i in range(ctx.scale(40, 400)):
        rng = np.random.default_rng([ctx.seed, 790 + round_, i])
        c = base_case(rng, "noise")
        c["osigma"] = float(10.0 ** rng.uniform(-6, -1))
        c["maxfun"] = enc(int(rng.integers(15, 80)))
        c["up"] = [["restarts.use_soft_restarts", enc(bool(rng.random() < 0.3))], ["restarts.auto_detect.history", enc(int(rng.integers(2, 8)))],
                   ["restarts.auto_detect.min_correl", enc(0.0)], ["restarts.auto_detect.min_chgJ_slope", enc(0.0)]]
        c["tag"], c["expect"] = "restarts:auto-detect", "valid"
        cases.append(c)
    return cases


def search(ctx):
    dfols = _import(ctx)
    if dfols is None:
        return
    boost = getattr(ctx, "boost", 1)
    rounds = 1 if boost == 1 else 2
    t_budget = ctx.scale(55, 1500) * (1 if boost == 1 else 2)
    import time
    t0 = time.time()
    seen_sig = set(f.signature for f in ctx.failures)
    stats = {"valid": 0, "invalid": 0, "unknown": 0, "undefined": 0}
    outcomes = {}
    ran = 0
    skipped_budget = 0
    skipped_culprit = 0
    bad_culprits = set()
    for round_ in range(rounds):
        if boost > 1 and round_ == 0 and getattr(ctx, "_c07_searched", False):
            continue            # round 0 already ran at boost 1
        for c in search_cases(ctx, round_):
            if time.time() - t0 > t_budget:
                skipped_budget += 1
                continue
            # a hanging configuration costs the whole alarm: do not run further cases containing a boundary value that already failed
            cul = boundary_culprits(c) if c["expect"] == "valid" else []
            if any(x in bad_culprits for x in cul):
                skipped_culprit += 1
                continue
            res = check_case(dfols, c)
            ran += 1
            stats[c["expect"]] += 1
            ctx.seen(("c07search", json.dumps(c, sort_keys=True, default=str)))
            if res is not None:
                sig, what = res
                outcomes[sig] = outcomes.get(sig, 0) + 1
                if sig.startswith("C07:boundary:") or sig in NAMED.values():
                    bad_culprits.update(cul)
                if sig not in seen_sig:
                    seen_sig.add(sig)
                    ctx.fail(sig, what, {"case": c})
    ctx._c07_searched = True
    generic_option_space(ctx, dfols, seen_sig)
    defaults_sweep(ctx, dfols, seen_sig)
    prev = ctx.cov.get("search", {})
    ctx.cov["search"] = {"solve_calls": ran + prev.get("solve_calls", 0), "by_expectation": stats, "failing_signatures": outcomes,
                         "cases_skipped_time_budget": skipped_budget, "cases_skipped_boundary_value_already_failing": skipped_culprit, "documented_flags": DOCUMENTED_FLAGS,
                         "user_guide_constants": GUIDE_EXITS}


def mutate_generic(rng, prob, kw, d):
    """regularisers that REQUIRE their documented extra arguments (argsh / argsprox), more often than the base generator"""
    n = prob["n"]
    if "h" not in kw and not kw.get("scaling_within_bounds") and rng.random() < 0.15:
        lam = float(10 ** rng.uniform(-2, 0))
        kw["h"] = lambda x, lam=lam: lam * float(np.sum(np.abs(x)))
        kw["lh"] = lam * float(np.sqrt(n))
        kw["prox_uh"] = lambda x, u, lam=lam: np.sign(x) * np.maximum(np.abs(x) - lam * u, 0.0)
        kw["maxfun"] = min(kw["maxfun"], 60)
        d["maxfun"] = kw["maxfun"]
        d["regu"] = lam
    if "h" in kw and rng.random() < 0.7:
        lam = float(d.get("regu", 0.1))
        kw["h"] = lambda x, w, lam=lam: lam * w * float(np.sum(np.abs(x)))            # no default: the extra argument is required
        kw["prox_uh"] = lambda x, u, w, lam=lam: np.sign(x) * np.maximum(np.abs(x) - lam * w * u, 0.0)
        kw["argsh"] = (1.0,)
        kw["argsprox"] = (1.0,)
        d["regu_args"] = True


def generic_option_space(ctx, dfols, seen_sig):
    """solve over the random configurations of the documented option space used by the trace properties
    (bounds / one-sided / scaling / projections / averaging / restarts / npt / growing / regression / noise /
    diagnostics / tolerances, budgets from 1): every call must RETURN a result with a documented flag, a non-empty
    message, and str() must work.  An exception that is not the objective's own is a violation, named by type and
    raise site."""
    import traceback
    import solve_suite as ss
    n = ctx.scale(110, 2500) * getattr(ctx, "boost", 1)
    stats = {"runs": 0, "exceptions": {}, "flags": {}}
    for i in range(n):
        seed = [ctx.seed, 7070, i]
        prob, kw, d, t = ss.gen_run(dfols, seed, alarm=20, mutate_cfg=mutate_generic, patient=True)
        # (gen_run repeats a run that exceeds the 20 s with ss.SLOW_LIMIT before it reports an alarm)
        stats["runs"] += 1
        stats["regulariser_with_required_args"] = stats.get("regulariser_with_required_args", 0) + int(bool(d.get("regu_args")))
        ctx.seen(("c07generic", i))
        sig = what = None
        if isinstance(t.exception, core.Alarm):
            sig, what = "C07:generic:does-not-terminate", "no termination within %d s of CPU time: %s" % (ss.SLOW_LIMIT, ss.describe(d))
        elif t.exception is not None:
            tb = traceback.extract_tb(t.exception.__traceback__)
            site = next(("%s:%s" % (fr.filename.split("/")[-1], fr.name) for fr in reversed(tb) if "/dfols/" in fr.filename), "outside-dfols")
            sig = "C07:generic:raises:%s:%s" % (type(t.exception).__name__, site)
            what = "solve raised %s: %s (at %s) for %s" % (type(t.exception).__name__, str(t.exception)[:80], site, ss.describe(d))
            stats["exceptions"][sig] = stats["exceptions"].get(sig, 0) + 1
        elif t.result is not None:
            r = t.result
            stats["flags"][int(r.flag)] = stats["flags"].get(int(r.flag), 0) + 1
            try:
                txt = str(r)
            except Exception as e:
                sig, what = "C07:generic:str-raises:%s" % type(e).__name__, "str(soln) raised %r" % (e,)
            else:
                if int(r.flag) not in DOCUMENTED_FLAGS:
                    sig, what = "C07:generic:undocumented-flag:%d" % int(r.flag), "flag %r" % (r.flag,)
                elif not str(r.msg).strip():
                    sig, what = "C07:generic:empty-message", "empty message with flag %r" % (r.flag,)
        if sig is not None and sig not in seen_sig:
            seen_sig.add(sig)
            ctx.fail(sig, what, {"generic_seed": seed})
    stats["slow_runs"] = dict(ss.SLOW_STATS)
    ctx.cov["generic_option_space"] = stats


def defaults_sweep(ctx, dfols, seen_sig, only=None):
    """every parameter key passed EXPLICITLY with its own default value (a value in the documented domain), on an over-determined, a
    square and an under-determined problem (m < n switches the default growing method, which re-sets parameters the user may have
    set: seeded change C07_13), with and without `objfun_has_noise`: solve must return a result, never raise"""
    import traceback
    stats = {"calls": 0, "raised": 0}
    for shape, (n, m) in (("over", (2, 4)), ("square", (3, 3)), ("under", (4, 2))):
        rng = np.random.default_rng([ctx.seed, 7071, n, m])
        A = rng.normal(size=(m, n))
        b = rng.normal(size=m)
        x0 = rng.normal(size=n)
        for noise in (False, True):
            pl = dfols.params.ParameterList(n, n + 1, 30, objfun_has_noise=noise)
            for key, val in sorted(pl.params.items()):
                if val is None:
                    continue
                tag = "%s|%s|%s" % (shape, "noise" if noise else "plain", key)
                if only is not None and tag != only:
                    continue
                np.random.seed(11)
                try:
                    core.with_alarm(30, dfols.solve, lambda x: A.dot(x) - b, x0.copy(), maxfun=12, do_logging=False, objfun_has_noise=noise,
                                    user_params={key: val})
                    exc = None
                except core.Alarm:
                    exc = None          # (a slow configuration is the generic suite's business)
                except BaseException as e:
                    exc = e
                stats["calls"] += 1
                ctx.seen(("c07defaults", tag))
                if exc is not None:
                    stats["raised"] += 1
                    tb = traceback.extract_tb(exc.__traceback__)
                    site = next(("%s:%s" % (fr.filename.split("/")[-1], fr.name) for fr in reversed(tb) if "/dfols/" in fr.filename), "outside-dfols")
                    sig = "C07:defaults:raises:%s:%s:%s" % (type(exc).__name__, site, key)
                    if sig not in seen_sig:
                        seen_sig.add(sig)
                        ctx.fail(sig, "solve raised %s: %s with user_params={%r: %r} (its own default) on a %s problem (n=%d, m=%d)"
                                 % (type(exc).__name__, str(exc)[:100], key, val, shape, n, m), {"defaults_case": tag, "defaults_seed": ctx.seed})
    ctx.cov["every_key_at_its_default"] = stats


def replay(payload):
    rp = payload.get("replay", {})
    if rp.get("defaults_case"):
        dfols = core.import_dfols()

        class _C:
            seed = rp["defaults_seed"]
            cov = {}
            fails = []
            def seen(self, *a): pass
            def fail(self, sig, what, r): self.fails.append((sig, what))
        c = _C()
        defaults_sweep(c, dfols, set(), only=rp["defaults_case"])
        print("replay:", c.fails if c.fails else "property holds on this input now")
        return 1 if c.fails else 0
    if rp.get("generic_seed"):
        import solve_suite as ss
        dfols = core.import_dfols()
        prob, kw, d, t = ss.gen_run(dfols, rp["generic_seed"], alarm=ss.SLOW_LIMIT, mutate_cfg=mutate_generic)
        bad = t.exception is not None
        print("replay:", "still raises %r" % (t.exception,) if bad else "property holds on this input now")
        return 1 if bad else 0
    if rp.get("import"):
        try:
            core.import_dfols()
            print("replay: dfols imports now")
            return 0
        except Exception as e:
            print("replay: import dfols still raises %r" % (e,))
            return 1
    dfols = core.import_dfols()
    if "case" not in rp:
        print("replay file names a broken obligation, nothing to execute:", payload.get("broken"))
        return 1
    res = check_case(dfols, rp["case"])
    if res is None:
        print("replay: property holds on this input now")
        return 0
    print("replay: still fails:", res[0], "-", res[1])
    return 1
