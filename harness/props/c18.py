"""C18 — Trust-region radii and the diagnostic table obey their invariants.

Correspondence: (i) layer G — the canonical source of every assignment to delta/rho/rhoend is regenerated from /repo's
AST on every run and must hash to the committed reference (`radius_src_eq`, re-checked by lake build); (ii) bit-exact:
the Lean Float kernels reduceRho / trUpdate / geomDelta reproduce the (delta, rho) observed in real runs from the
observed (ratio, dnorm, tau, delta, rho, dist).
Search: the time-series and table-shape clauses checked on soln.diagnostic_info of real runs.
"""
import math
import numpy as np
import core
from core import fbits_raw, fbits
import solve_suite as ss
import solve_oracles as so
import gen_radius
import gen_kernels

MODULE = "DfolsVerif.Properties.C18"
BUILD_TARGETS = ["DfolsVerif.Driver.RadiusDrv", "DfolsVerif.Driver.IterDrv"]
THEOREMS = ["Dfols.C18.radius_src_eq", "Dfols.C18.applyOp_inv", "Dfols.C18.C18_radii", "Dfols.C18.C18_rho_nonincreasing",
            "Dfols.C18.C18_delta_cap_partial", "Dfols.C18.C18_reduce_progress", "Dfols.C18.C18_no_stall",
            "Dfols.C18.C18_table_shape", "Dfols.C18.gen_reduceRho_eq", "Dfols.C18.gen_trUpdate_eq", "Dfols.C18.gen_geomDelta_eq",
            "Dfols.C18.gen_safetyDelta_eq", "Dfols.C18.applyOpR_inv", "Dfols.C18.C18_radii_rounded", "Dfols.C18.gridRounding_consts",
            "Dfols.C18.C18_src_diag_sites", "Dfols.C18.C18_diag_rectangular", "Dfols.C18.C18_src_no_stall", "Dfols.C18.C18_src_geom_fix_evaluates", "Dfols.C18.C18_src_did_fix_geom_guarded", "Dfols.C18.C18_src_one_row_per_iteration"]
TRUSTED_EXTRA = [
    "radius theorems: exact arithmetic (C18_radii) and ANY monotone idempotent rounding with rnd x <= 2x after every *, /, sqrt, literal (C18_radii_rounded); that IEEE round-to-nearest satisfies these laws absent overflow/underflow is assumed, not proved; hypothesis 1/250 <= alpha1 <= 1 (the table accepts [0,1]: recorded)",
    "delta <= 1e10 proved for tau = 1 only (with a regulariser delta is divided by tau <= 1)",
    "table shape / counters: proved for traces the DiagAcc acceptor accepts (real runs' events are fed to it); best-objective monotonicity and the column list are checked on real tables only",
    "AST translator harness/gen_radius.py (hashes of ast.unparse)",
    "AST-to-Lean translator harness/gen_kernels.py (Python scalar subset -> RadOps terms; statements assigning no modelled state are dropped and listed in Gen/KernelFns.lean)",
]
ALLOW = ("bounds", "scaling", "proj", "avg", "soft", "hard", "npt", "growing", "regression", "noise", "randinit")


def pre_build(ctx):
    import gen_skeleton
    gen_skeleton.regenerate_ctrl(ctx)
    gen_skeleton.regenerate_solve_main(ctx)
    import gen_skeleton
    gen_skeleton.regenerate(ctx)
    gen_radius.regenerate(ctx)
    import gen_diag
    gen_diag.regenerate(ctx)
    ctx.cov["translated_kernels"] = gen_kernels.regenerate(ctx)


def tr_params(kw):
    up = kw.get("user_params", {}) or {}
    noise = bool(kw.get("objfun_has_noise"))
    gdec = float(up.get("tr_radius.gamma_dec", 0.98 if noise else 0.5))
    return dict(eta1=float(up.get("tr_radius.eta1", 0.1)), eta2=float(up.get("tr_radius.eta2", 0.7)), gdec=gdec,
                ggdec=float(up.get("growing.gamma_dec", gdec)), ginc=float(up.get("tr_radius.gamma_inc", 2.0)),
                gincbar=float(up.get("tr_radius.gamma_inc_overline", 4.0)))


def mutate(rng, prob, kw, d):
    up = kw.setdefault("user_params", {})
    up["logging.save_diagnostic_info"] = True
    if rng.random() < 0.5:
        up["logging.save_poisedness"] = False
    if rng.random() < 0.2:
        up["tr_radius.gamma_dec"] = float(rng.choice([0.25, 0.5, 0.9]))
    if rng.random() < 0.2:
        up["tr_radius.alpha1"] = float(rng.choice([0.05, 0.1, 0.5, 0.9]))
        up["tr_radius.alpha2"] = float(rng.choice([0.3, 0.5, 0.95]))
    if up.get("restarts.use_restarts") and rng.random() < 0.5:
        # the slow-progress route into a restart (table rows must still show a new run after it)
        up["slow.max_slow_iters"] = int(rng.integers(1, 4))
        up["slow.thresh_for_slow"] = float(rng.choice([0.1, 1.0, 10.0]))
        up["slow.history_for_slow"] = int(rng.integers(1, 3))
        d["slow"] = True
    if rng.random() < 0.12 and not up.get("restarts.use_restarts") and not kw.get("objfun_has_noise"):
        # small alpha1 (>= 1/250, the hypothesis of C18_radii) with rhobeg/rhoend in the geometric-mean window of reduce_rho
        a1 = float(rng.uniform(0.005, 0.035))
        r0 = float(rng.uniform(26.0, min(240.0, 0.95 / a1)))
        rb = float(kw.get("rhobeg", d.get("rhobeg", 0.1)))
        up["tr_radius.alpha1"] = a1
        kw["rhoend"] = rb / r0
        kw["maxfun"] = int(rng.integers(150, 300))
        d.update(rhoend=kw["rhoend"], maxfun=kw["maxfun"], small_alpha1=a1)
    if d.get("restarts") == "hard" and rng.random() < 0.5:
        # hard restarts that really happen (loose rhoend, larger budget), with and without re-use of the old residuals:
        # the counters handed from run to run show in the nf / nx columns
        up["restarts.hard.use_old_rk"] = bool(rng.random() < 0.5)
        rb = float(kw.get("rhobeg", d.get("rhobeg", 0.1)))
        kw["rhoend"] = rb * 10.0 ** (-rng.uniform(1.0, 2.0))
        kw["maxfun"] = int(rng.integers(100, 200))
        d.update(rhoend=kw["rhoend"], maxfun=kw["maxfun"], hard_reached=True)
    if up.get("restarts.increase_npt") and rng.random() < 0.6:
        # several points per restart: the cap restarts.max_npt must hold whatever the increment
        up["restarts.increase_npt_amt"] = int(rng.integers(2, 4))
        up["restarts.max_npt"] = int(kw.get("npt", prob["n"] + 1)) + int(rng.integers(1, 4))
    if d.get("growing") and rng.random() < 0.5:
        # batches of new directions that do not divide the number of missing points: the last batch meets a full set
        up["growing.num_new_dirns_each_iter"] = int(rng.integers(2, 4))
    if up.get("regression.num_extra_steps") and rng.random() < 0.5:
        # as many (or more) extra regression steps as interpolation points: the documented cap npt-1 keeps the iterate's row out
        # of the points that are moved, so the recorded best objective cannot jump up (seeded change C18_10: two sites)
        up["regression.num_extra_steps"] = int(kw.get("npt", prob["n"] + 1)) + int(rng.integers(0, 3))
        d["regression"] = up["regression.num_extra_steps"]
    if d.get("growing") and rng.random() < 0.3:
        up["growing.reset_delta"] = True
        if rng.random() < 0.5:
            up["growing.reset_rho"] = True
    d["user_params"] = dict(up)
    d["diag"] = True


def _runs(ctx):
    if not hasattr(ctx, "_runs"):
        ctx._runs = ss.run_trace_property(ctx, "count", 200, 2500, 1818, None, allow=ALLOW, mutate_cfg=mutate, alarm=60.0, patient=True)
    return ctx._runs


def correspondence(ctx):
    runs, metas, stats = _runs(ctx)
    lines, want, where = [], [], []
    n = {"rrho": 0, "trupd": 0, "geomd": 0}
    for (seed, prob, kw, d, t, fault) in metas:
        P = tr_params(kw)
        ev = t.events
        last_trs = None
        for i, e in enumerate(ev):
            if e[0] == "trs":
                last_trs = e
            elif e[0] == "rrho":
                _, d0, r0, re0, a1, a2, d1, r1 = e
                lines.append("rrho " + " ".join(fbits_raw(v) for v in (a1, a2, r0, re0)))
                want.append(fbits(d1) + " " + fbits(r1))
                where.append((seed, i))
                n["rrho"] += 1
            elif e[0] == "ratio" and e[2] == "-" and last_trs is not None:
                # (ratio, exit, delta, rho, finished_growing); the next 'rad' gives delta after the update
                _, ratio, _ex, delta, rho, fg = e
                nxt = None
                for f in ev[i + 1:i + 12]:
                    if f[0] in ("srb", "ext", "rst", "rend", "evb"):
                        break
                    if f[0] == "rad":
                        nxt = f
                        break
                if nxt is None:
                    continue
                dnorm, tau = last_trs[1], last_trs[2]
                gdec = P["gdec"] if fg else P["ggdec"]
                lines.append("trupd " + " ".join(fbits_raw(v) for v in (P["eta1"], P["eta2"], gdec, P["ginc"], P["gincbar"], ratio, dnorm, tau, delta, rho)))
                want.append(fbits(nxt[1]))
                where.append((seed, i))
                n["trupd"] += 1
            elif e[0] == "fgb" and e[1] == 1:
                # check_and_fix_geometry(update_delta=True): (flag, delta, rho, distsq, thresh) .. fge (did, exit, delta, rho)
                _, _u, delta, rho, distsq, thr = e
                fge = next((f for f in ev[i + 1:] if f[0] == "fge"), None)
                if fge is None or not (distsq > thr):
                    continue
                lines.append("geomd " + " ".join(fbits_raw(v) for v in (delta, rho, math.sqrt(distsq))))
                want.append(fbits(fge[3]))
                where.append((seed, i))
                n["geomd"] += 1
    # progress acceptor: every iteration evaluates / strictly reduces rho / restarts / exits
    from core import fkey
    ilines = []
    for (seed, prob, kw, d, t, fault) in metas:
        toks = []
        for e in t.events:
            if e[0] == "itp":
                toks.append("i")
            elif e[0] == "obj":
                toks.append("o")
            elif e[0] == "srb":
                toks.append("s")
            elif e[0] in ("rst", "rend"):
                toks.append("e")
            elif e[0] == "rrho":
                toks.append("r:%s:%s:%s" % (fkey(e[2]), fkey(e[7]), fkey(e[3])))
        ilines.append("iter " + " ".join(toks))
    iout = core.run_driver(ilines, main="IterMain.lean") if ilines else []
    nrej, maxstreak = 0, 0
    for (seed, prob, kw, d, t, fault), rep in zip(metas, iout):
        if rep.startswith("ok"):
            maxstreak = max(maxstreak, int(rep.split("=")[1]))
        else:
            nrej += 1
            if nrej <= 3:
                ctx.broke("correspondence:IterAcc-rejects-real-trace", {"seed": seed, "config": ss.describe(d), "lean": rep})
    ctx.cov["progress_acceptor"] = {"traces": len(ilines), "rejected": nrej, "longest_evaluation_free_streak": maxstreak}
    # diagnostic-table acceptor: rows agree with the evaluations / points / runs counted from the events
    dlines, dmeta = [], []
    for (seed, prob, kw, d, t, fault) in metas:
        toks, lastpt, mx = [], None, 2
        up = kw.get("user_params", {}) or {}
        if up.get("restarts.increase_npt"):
            # documented: restarts may add interpolation points, up to restarts.max_npt (default (n+1)(n+2)/2)
            mx = max(mx, int(up.get("restarts.max_npt", (prob["n"] + 1) * (prob["n"] + 2) // 2)))
        for e in t.events:
            if e[0] == "rst":
                toks.append("b:%d:%d:%d" % (e[1], e[2], e[3]))
                mx = max(mx, int(e[6]))
                lastpt = None if e[1] == 0 else lastpt
            elif e[0] == "obj":
                toks.append("o1" if e[3] != lastpt else "o0")
                lastpt = e[3]
            elif e[0] == "sre" and e[1] == 0:
                toks.append("k")
            elif e[0] == "rend":
                toks.append("e")
            elif e[0] == "diag":
                toks.append("w:%d:%d:%d:%d:%d" % (e[1], e[2], e[3], e[4], e[8]))
            elif e[0] == "res":
                toks.append("z:%d:%d:%d" % (e[1], e[2], e[3]))
        if any(tk.startswith("w:") for tk in toks):
            dlines.append("diag %d " % mx + " ".join(toks))
            dmeta.append((seed, d, t))
    dout = core.run_driver(dlines, main="IterMain.lean") if dlines else []
    drej, drows = 0, 0
    for (seed, d, t), rep in zip(dmeta, dout):
        if rep.startswith("ok"):
            nr = int(rep.split()[1].split("=")[1])
            drows += nr
            df = t.result.diagnostic_info if t.result is not None else None
            if df is not None and len(df) != nr:
                ctx.broke("correspondence:DiagAcc-row-count", {"seed": seed, "config": ss.describe(d), "lean_rows": nr, "table_rows": len(df)})
        else:
            drej += 1
            if drej <= 3:
                ctx.broke("correspondence:DiagAcc-rejects-real-trace", {"seed": seed, "config": ss.describe(d), "lean": rep})
    ctx.cov["diag_acceptor"] = {"traces": len(dlines), "rejected": drej, "rows": drows}
    # the DiagnosticInfo state machine (Proofs/DiagTable.lean, on the columns generated from __init__): the real sequence of
    # method calls of every run with the table switched on must run through without a failed update, and end with as many rows
    # as the real table, rectangular, iters_total = 0..rows-1
    import gen_diag
    sets = {}
    for (m, k, op) in gen_diag.collect()["ops"]:
        if op == "set-last":
            sets.setdefault(m, []).append(k)
    olines, ometa = [], []
    for (seed, prob, kw, d, t, fault) in metas:
        if t.diag_ops:
            toks = []
            for m in t.diag_ops:
                toks += ["s"] if m == "save_info_from_control" else ["u:" + k for k in sets.get(m, ["<unknown:%s>" % m])]
            olines.append("dops " + " ".join(toks))
            ometa.append((seed, d, t, kw))
    oout = core.run_driver(olines, main="IterMain.lean") if olines else []
    obad = 0
    for (seed, d, t, kw), rep in zip(ometa, oout):
        df = t.result.diagnostic_info if t.result is not None else None
        ok = rep.startswith("ok") and "rect=true" in rep and "its=true" in rep
        if ok and df is not None:
            nr = int(rep.split()[1].split("=")[1])
            ok = (nr == len(df)) and list(df["iters_total"]) == list(range(nr)) and int(rep.split()[3].split("=")[1]) == len(df.columns) + 2 - int(bool((kw.get("user_params") or {}).get("logging.save_xk"))) - int(bool((kw.get("user_params") or {}).get("logging.save_rk")))
        if not ok:
            obad += 1
            if obad <= 3:
                ctx.broke("correspondence:DiagTable-state-machine", {"seed": seed, "config": ss.describe(d), "lean": rep,
                                                                      "table_rows": None if df is None else len(df),
                                                                      "table_columns": None if df is None else len(df.columns)})
    ctx.cov["diag_state_machine"] = {"runs": len(olines), "disagreements": obad, "method_calls": sum(len(t.diag_ops) for (_s, _d, t, _k) in ometa)}
    out = core.run_driver(lines, main="RadiusMain.lean") if lines else []
    mism = [(l, o, w, wh) for l, o, w, wh in zip(lines, out, want, where) if o != w]
    ctx.cov["radius_correspondence"] = {"updates_compared": n, "mismatches": len(mism)}
    for m in mism[:4]:
        ctx.broke("correspondence:Radius-vs-observed", {"line": m[0], "lean": m[1], "observed": m[2], "seed": m[3][0], "event": m[3][1]})
    if lines:
        ctx.add_sample({"kind": "radius update line", "line": lines[0], "lean": out[0], "observed": want[0]})
    ctx.cov["radius_sites_in_repo"] = len(gen_radius.regenerate())
    ctx.cov["runs"] = stats


def table_oracle(t, d, kw):
    out = []
    r = t.result
    if r is None or r.x is None or r.diagnostic_info is None:
        return out
    df = r.diagnostic_info
    ctxt = so.context_tags(t, d)
    up = kw.get("user_params", {}) or {}
    cols = ["fk", "rho", "delta", "interpolation_error", "interpolation_condition_number", "interpolation_change_J_norm",
            "interpolation_total_residual", "poisedness", "max_distance_xk", "norm_gk", "norm_sk", "nruns", "nf", "nx", "npt",
            "nsamples", "iter_this_run", "iters_total", "iter_type", "ratio", "slow_iter"]
    missing = [c for c in cols if c not in df.columns]
    if missing:
        out.append(("C18:table-columns", "diagnostic table lacks columns %s" % missing))
        return out
    if len(df) == 0:
        return out
    rhobeg = kw["rhobeg"]
    rhoend = kw["rhoend"]
    scale = float(up.get("restarts.rhoend_scale", 1.0))
    delta = df["delta"].to_numpy(dtype=float)
    rho = df["rho"].to_numpy(dtype=float)
    nr = df["nruns"].to_numpy()
    it = df["iters_total"].to_numpy()
    if not np.array_equal(it, np.arange(len(df))):
        out.append(("C18:table-iters-not-consecutive|" + ctxt, "iters_total is not 0,1,2,..."))
    if np.any(~(delta >= rho)) or np.any(~(rho > 0)):
        i = int(np.argmax(~((delta >= rho) & (rho > 0))))
        out.append(("C18:delta-below-rho|" + ctxt, "row %d: delta=%r rho=%r" % (i, delta[i], rho[i])))
    if np.any(rho > rhobeg * (1 + 1e-15)):
        out.append(("C18:rho-above-rhobeg|" + ctxt, "rho=%r > rhobeg=%r" % (float(rho.max()), rhobeg)))
    rhoend_k = rhoend * scale ** nr.astype(float)
    if not d.get("scaling") or True:
        bad = rho < rhoend_k * (1 - 1e-12)
        if np.any(bad):
            i = int(np.argmax(bad))
            a1 = float(up.get("tr_radius.alpha1", 0.9 if kw.get("objfun_has_noise") else 0.1))
            out.append(("C18:rho-below-rhoend|alpha1%s1/250|%s" % ("<" if a1 < 1 / 250 else ">=", ctxt),
                        "row %d: rho=%r < rhoend*scale^nruns=%r" % (i, rho[i], rhoend_k[i])))
    if np.any(delta > 1e10):
        if rhobeg > 1e10:
            # the cap is applied where delta is INCREASED; a starting radius above it (rhobeg > 1e10, e.g. the default 0.1 max|x0|
            # for |x0| ~ 1e12) is never capped - the hypothesis `delta <= 1e10` of C18_delta_cap_partial fails at the first row
            out.append(("C18:delta-above-1e10|rhobeg-above-1e10", "delta=%r with rhobeg=%r" % (float(delta.max()), rhobeg)))
        else:
            out.append(("C18:delta-above-1e10|" + ("regu" if d.get("regu") else "no-regu") + "|" + ctxt, "delta=%r" % float(delta.max())))
    # rho non-increasing within a run unless the growing reset is enabled
    if not up.get("growing.reset_rho"):
        for i in range(1, len(df)):
            if nr[i] == nr[i - 1] and rho[i] > rho[i - 1]:
                out.append(("C18:rho-increases-within-run|" + ctxt, "rows %d->%d: rho %r -> %r in run %d" % (i - 1, i, rho[i - 1], rho[i], nr[i])))
                break
    # best objective never increases (deterministic, no averaging)
    if not d.get("avg"):
        fk = df["fk"].to_numpy(dtype=float)
        for i in range(1, len(df)):
            if fk[i] > fk[i - 1]:
                out.append(("C18:fk-increases|" + ctxt, "rows %d->%d: fk %r -> %r" % (i - 1, i, fk[i - 1], fk[i])))
                break
    for c, fin in (("nf", int(r.nf)), ("nx", int(r.nx)), ("nruns", int(r.nruns))):
        v = df[c].to_numpy()
        if np.any(np.diff(v) < 0) or v.max() > fin:
            out.append(("C18:counter-%s-not-monotone-or-above-final|%s" % (c, ctxt), "%s column max %r, final %r" % (c, v.max(), fin)))
    npt = df["npt"].to_numpy()
    max_npt = int(up.get("restarts.max_npt", kw.get("npt", prob_npt(kw, d))))
    if npt.min() < 2 or npt.max() > max(max_npt, kw.get("npt", prob_npt(kw, d))):
        out.append(("C18:npt-out-of-range|" + ctxt, "npt column in [%d, %d], allowed [2, %d]" % (npt.min(), npt.max(), max_npt)))
    return out


def prob_npt(kw, d):
    return kw.get("npt", d["n"] + 1)


def search(ctx):
    if getattr(ctx, "boost", 1) > 1 and hasattr(ctx, "_runs"):
        del ctx._runs
    runs, metas, stats = _runs(ctx)
    nrows = 0
    for (seed, prob, kw, d, t, fault) in metas:
        if isinstance(t.exception, core.Alarm):
            ctx.fail("C18:does-not-terminate|" + so.context_tags(t, d), "run did not end within %d s of CPU time" % ss.SLOW_LIMIT, {"seed": seed, "config": ss.describe(d)})
            continue
        if t.result is not None and t.result.diagnostic_info is not None:
            nrows += len(t.result.diagnostic_info)
        for sig, what in table_oracle(t, d, kw):
            ctx.fail(sig, what, {"seed": seed, "config": ss.describe(d)})
    ctx.cov["diagnostic_rows_checked"] = nrows
    # fixed case (recorded finding): a starting point so large that the default rhobeg exceeds the 1e10 cap
    import trace as tr
    dfols = core.import_dfols()
    kw = dict(maxfun=30, rhobeg=1e11, rhoend=1e3, user_params={"logging.save_diagnostic_info": True})
    t = tr.traced_solve(dfols, lambda x: np.array([x[0] - 1e12, x[1] + 1e12, 1e6]), np.array([1e12, -1e12]), alarm=20, **kw)
    ctx.seen(("c18fixed", "rhobeg-above-cap"))
    if t.result is not None and t.result.diagnostic_info is not None:
        for sig, what in table_oracle(t, {"user_params": dict(kw["user_params"]), "rhobeg": 1e11, "n": 2, "fixed": "rhobeg-above-cap"}, kw):
            ctx.fail(sig, what, {"fixed": "x0 = (1e12, -1e12), rhobeg = 1e11 (= the default 0.1*max|x0|), maxfun = 30"})


def replay(payload):
    dfols = core.import_dfols()
    rp = payload.get("replay", {})
    if "seed" not in rp:
        print("replay names a broken obligation or the fixed case:", payload.get("broken") or rp)
        return 1
    prob, kw, d, t = ss.gen_run(dfols, rp["seed"], allow=ALLOW, mutate_cfg=mutate, alarm=60.0)
    res = table_oracle(t, d, kw)
    print("replay:", res if res else "property holds on this input now")
    return 1 if res else 0
