"""C10 — Exit flags and messages tell the truth.

Correspondence: real traces must be accepted by the Lean exit/run-count acceptor RunsAcc (and CountAcc for the budget).
Search: the six implications checked directly on the real results.
"""
import numpy as np
import core
import solve_suite as ss
import solve_oracles as so

MODULE = "DfolsVerif.Properties.C10"
BUILD_TARGETS = ss.ACCEPT_TARGETS
THEOREMS = ["Dfols.C10.C10_nruns", "Dfols.C10.C10_maxfun", "Dfols.C10.C10_restarts", "Dfols.C10.C10_small", "Dfols.C10.C10_rhoend",
            "Dfols.C10.C10_src_maxfun", "Dfols.C10.C10_src_small", "Dfols.C10.C10_src_threshold", "Dfols.C10.C10_src_rhoend",
            "Dfols.C10.C10_src_restarts", "Dfols.C10.C10_src_success_reasons", "Dfols.C10.C10_soft_refusal", "Dfols.C10.C10_src_nruns_once", "Dfols.C10.C10_src_after_loop", "Dfols.C10.C10_src_exit_object_on_break", "Dfols.C10.C10_src_nruns_returned", "Dfols.C10.C10_src_nruns_whole_run", "Dfols.C10.C10_src_exit_object_at_return"]


def pre_build(ctx):
    import gen_mainccalls
    gen_mainccalls.regenerate(ctx)
    import gen_skeleton
    gen_skeleton.regenerate(ctx)
    gen_skeleton.regenerate_solve_main(ctx)
    import gen_exitsites
    ctx.cov["exit_creation_sites_in_repo"] = gen_exitsites.regenerate(ctx)
    import gen_kernels
    ctx.cov["translated_restart_guards"] = gen_kernels.regenerate_guards(ctx)


TRUSTED_EXTRA = [
    "AST translator harness/gen_exitsites.py (path conditions = enclosing if/while tests of the same function with polarity; tests are compared as canonical ast.unparse text)",
    "model = event lists accepted by RunsAcc.step (hand-written mirror of the ExitInformation creation sites and the nruns bookkeeping)",
    "'success is never attached to a non-finite objective' is NOT a theorem (false when no evaluation is finite: known finding); checked by the search",
    "rho/rhoend at the exit are read from the live Controller by the wrapper of ExitInformation.__init__",
]


def mutate(rng, prob, kw, d):
    up = kw.setdefault("user_params", {})
    # exercise the tolerance exits and small restart limits
    if rng.random() < 0.35:
        up["model.abs_tol"] = float(rng.choice([1e-12, 1e-6, 1e-2, 1.0, 10.0]))
        up["model.rel_tol"] = float(rng.choice([1e-20, 1e-6, 1e-2, 0.5]))
    if up.get("restarts.use_restarts") and rng.random() < 0.6:
        up["restarts.max_unsuccessful_restarts"] = int(rng.integers(1, 4))
    if rng.random() < 0.25:
        kw["rhoend"] = float(rng.choice([1e-2, 1e-3]))
        d["rhoend"] = kw["rhoend"]
    if rng.random() < 0.12 and not up.get("restarts.use_restarts") and not kw.get("objfun_has_noise"):
        # a small (documented, >= 1/250) alpha1 with rhobeg/rhoend inside the geometric-mean window of reduce_rho and
        # a budget that lets rho arrive at rhoend: the 'rho has reached rhoend' exit must find rho == rhoend exactly
        a1 = float(rng.uniform(0.005, 0.035))
        r0 = float(rng.uniform(26.0, min(240.0, 0.95 / a1)))
        rb = float(kw.get("rhobeg", d.get("rhobeg", 0.1)))
        up["tr_radius.alpha1"] = a1
        kw["rhoend"] = rb / r0
        kw["maxfun"] = int(rng.integers(150, 300))
        d.update(rhoend=kw["rhoend"], maxfun=kw["maxfun"], small_alpha1=a1)
    if rng.random() < 0.1 and not kw.get("projections") and "h" not in kw:
        # extra regression steps (geometry or random 'momentum' points) with a relative tolerance that the run meets at SOME
        # evaluation: when 'sufficiently small' is detected at an extra point, that point must be what is returned (seeded C10_12)
        kw["npt"] = 2 * prob["n"] + 1
        up["regression.num_extra_steps"] = int(rng.integers(1, 3))
        up["regression.momentum_extra_steps"] = bool(rng.random() < 0.7)
        up["model.rel_tol"] = float(rng.choice([0.05, 0.2, 0.5]))
        for k in ("growing.ndirs_initial", "growing.num_new_dirns_each_iter", "init.random_initial_directions", "init.run_in_parallel"):
            up.pop(k, None)
        kw["maxfun"] = int(rng.integers(40, 120))
        d.update(npt=kw["npt"], regression=up["regression.num_extra_steps"], momentum=up["regression.momentum_extra_steps"],
                 maxfun=kw["maxfun"], tol=(up.get("model.abs_tol", 1e-12), up["model.rel_tol"]))
        d.pop("growing", None)
        d.pop("randinit", None)
    d["user_params"] = dict(up)


def params_of(kw):
    up = kw.get("user_params", {}) or {}
    return dict(abs_tol=float(up.get("model.abs_tol", 1e-12)), rel_tol=float(up.get("model.rel_tol", 1e-20)),
                max_unsucc=int(up.get("restarts.max_unsuccessful_restarts", 10)))


def oracle(t, d, kw):
    res = so.c10(t, d, kw["maxfun"], **params_of(kw))
    out = []
    for sig, what in res:
        if sig.startswith("C10:success-with-nonfinite-objective"):
            anyfinite = any(c["v"] == c["v"] and abs(c["v"]) != float("inf") for c in t.calls)
            sig = "C10:success-with-nonfinite-objective|" + ("some-finite-evaluation" if anyfinite else "no-finite-evaluation")
        out.append((sig, what))
    return out


def _runs(ctx):
    if not hasattr(ctx, "_runs"):
        runs, metas, stats = ss.run_trace_property(ctx, "exits", 300, 3000, 1010, None, mutate_cfg=mutate, fault_kinds=["nan", "inf", "huge"])
        r2, m2 = ss.budget_sweep(ctx, 1010, 4, 30)
        stats["budget_sweep_runs"] = len(r2)
        ctx._runs = (runs + r2, metas + m2, stats)
    return ctx._runs


def correspondence(ctx):
    runs, metas, stats = _runs(ctx)
    ss.check_acceptor(ctx, "exits", runs, metas)
    ss.check_acceptor(ctx, "count", runs, metas)
    ctx.cov["runs"] = stats


def search(ctx):
    if getattr(ctx, "boost", 1) > 1 and hasattr(ctx, "_runs"):
        del ctx._runs
    runs, metas, stats = _runs(ctx)
    for (seed, prob, kw, d, t, fault) in metas:
        for sig, what in oracle(t, d, kw):
            ctx.fail(sig, what, {"seed": seed, "config": ss.describe(d), "fault": fault})
    dfols = core.import_dfols()
    for sig, what, rpl in planted_runs(ctx, dfols) + last_eval_faults(ctx, dfols):
        ctx.fail(sig, what, rpl)
    # the all-non-finite case, always exercised (recorded finding)
    import trace as tr
    for kind in ("nan", "inf"):
        val = float(kind)
        t = tr.traced_solve(dfols, lambda x: np.array([val, 1.0 - x[0]]), np.array([0.5, 0.5]), alarm=10, maxfun=40,
                            user_params={"restarts.use_restarts": True, "restarts.max_unsuccessful_restarts": 2})
        d = {"user_params": {}, "fixed": "all-" + kind}
        for sig, what in oracle(t, d, {"maxfun": 40, "user_params": {"restarts.max_unsuccessful_restarts": 2}}):
            ctx.fail(sig, what, {"fixed": "objective always " + kind})
        ctx.seen(("fixed", kind))


def planted_runs(ctx, dfols, only=None):
    """hard restarts whose LATER run meets a zero residual while it is still evaluating its initial directions: a probe run finds
    the evaluation numbers at which later runs start, then the same (deterministic) run is repeated with the residual vanishing at
    one of the first evaluations of such a run.  'Objective is sufficiently small' must then come with that objective (seeded
    change C10_9 kept the previous run's result)."""
    import trace as tr
    import problems
    stats = {"probes": 0, "restarted": 0, "planted": 0, "small_exits": 0}
    out = []
    for i in range(ctx.scale(10, 60)):
        if only is not None and i != only[0]:
            continue
        seed = [ctx.seed, 1011, i]
        rng = np.random.default_rng(seed)
        prob = problems.rand_problem(rng)
        rb = 0.1 * max(float(np.max(np.abs(prob["x0"]))), 1.0)
        kw = dict(maxfun=int(rng.integers(80, 200)), rhobeg=rb, rhoend=rb * 10.0 ** (-rng.uniform(1.0, 2.0)),
                  user_params={"restarts.use_restarts": True, "restarts.use_soft_restarts": False,
                               "restarts.hard.use_old_rk": bool(rng.random() < 0.7)})
        d = {"user_params": dict(kw["user_params"]), "restarts": "hard", "maxfun": kw["maxfun"], "planted": True}
        t0 = tr.traced_solve(dfols, prob["f"], prob["x0"], alarm=20, **kw)
        stats["probes"] += 1
        if t0.exception is not None or t0.result is None:
            continue
        starts = [e[2] for e in t0.events if e[0] == "rst"][1:]       # nf at the start of runs 2, 3, ...
        if not starts:
            continue
        stats["restarted"] += 1
        for nf0 in starts[:2]:
            for off in (1, 2):
                k = int(nf0) + off
                if only is not None and k != only[1]:
                    continue
                if k > len(t0.calls):
                    continue
                f = problems.faulty(prob["f"], k, "zero")
                t = tr.traced_solve(dfols, f, prob["x0"], alarm=20, **kw)
                stats["planted"] += 1
                ctx.seen(("c10planted", i, k))
                if t.exception is not None or t.result is None:
                    continue
                if tr.msg_class(str(t.result.msg)) == "small":
                    stats["small_exits"] += 1
                d2 = dict(d)
                d2["planted_at"] = k
                for sig, what in oracle(t, d2, kw):
                    out.append((sig, what, {"planted": [ctx.seed, 1011, i, k], "config": ss.describe(d2)}))
    ctx.cov["planted_solution_in_a_restarted_run"] = stats
    return out


def last_eval_faults(ctx, dfols, only=None):
    """a bad value at exactly the LAST evaluation of a run that ends because rho reached rhoend (the final 'check xnew' evaluation of
    the safety step, saved and followed by the success exit): success must still come with the finite best point (seeded change
    C10_11 returned the saved NaN point)"""
    import trace as tr
    import problems
    stats = {"probes": 0, "ended_by_rhoend": 0, "faulted": 0}
    out = []
    for i in range(ctx.scale(12, 60)):
        if only is not None and i != only[0]:
            continue
        rng = np.random.default_rng([ctx.seed, 1012, i])
        prob = problems.rand_problem(rng)
        rb = 0.1 * max(float(np.max(np.abs(prob["x0"]))), 1.0)
        kw = dict(maxfun=300, rhobeg=rb, rhoend=rb * 10.0 ** (-rng.uniform(1.0, 3.0)))
        if rng.random() < 0.4:
            kw["npt"] = 2 * prob["n"] + 1
        d = {"user_params": {}, "maxfun": 300, "last_eval_fault": True}
        t0 = tr.traced_solve(dfols, prob["f"], prob["x0"], alarm=20, **kw)
        stats["probes"] += 1
        if t0.exception is not None or t0.result is None or tr.msg_class(str(t0.result.msg)) != "rhoend":
            continue
        stats["ended_by_rhoend"] += 1
        nf = len(t0.calls)
        for kind in ("nan", "inf", "huge"):
            for k in (nf, nf - 1):
                if only is not None and (k, kind) != (only[1], only[2]):
                    continue
                f = problems.faulty(prob["f"], k, kind)
                t = tr.traced_solve(dfols, f, prob["x0"], alarm=20, **kw)
                stats["faulted"] += 1
                ctx.seen(("c10last", i, k, kind))
                if t.exception is not None or t.result is None:
                    continue
                d2 = dict(d)
                d2["fault"] = [k, kind]
                for sig, what in oracle(t, d2, kw):
                    out.append((sig, what, {"last_eval": [ctx.seed, 1012, i, k, kind], "config": ss.describe(d2)}))
    ctx.cov["bad_value_at_the_last_evaluation"] = stats
    return out


def replay(payload):
    dfols = core.import_dfols()
    rp = payload.get("replay", {})
    if "last_eval" in rp:
        class _C:
            seed = rp["last_eval"][0]
            cov = {}
            def scale(self, a, b): return rp["last_eval"][2] + 1
            def seen(self, *a): pass
        res = last_eval_faults(_C(), dfols, only=(rp["last_eval"][2], rp["last_eval"][3], rp["last_eval"][4]))
        print("replay:", [(a, b) for a, b, _ in res] if res else "property holds on this input now")
        return 1 if res else 0
    if "planted" in rp:
        class _C:
            seed = rp["planted"][0]
            cov = {}
            def scale(self, a, b): return rp["planted"][2] + 1
            def seen(self, *a): pass
        res = planted_runs(_C(), dfols, only=(rp["planted"][2], rp["planted"][3]))
        print("replay:", [(a, b) for a, b, _ in res] if res else "property holds on this input now")
        return 1 if res else 0
    if "seed" not in rp:
        print("replay: fixed case or broken obligation:", rp or payload.get("broken"))
        return 1
    fault = tuple(rp["fault"]) if rp.get("fault") else None
    if len(rp["seed"]) == 5:
        _seed, prob, kw, d, t, _f = ss.replay_sweep(dfols, rp["seed"])
    else:
      prob, kw, d, t = ss.gen_run(dfols, rp["seed"], mutate_cfg=mutate, fault=fault)
    res = oracle(t, d, kw)
    print("replay:", res if res else "property holds on this input now")
    return 1 if res else 0
