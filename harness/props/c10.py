"""C10 — Exit flags and messages tell the truth.

Correspondence: real traces must be accepted by the Lean exit/run-count acceptor RunsAcc (and CountAcc for the budget).
Search: the six implications checked directly on the real results.
"""
import numpy as np
import core
import solve_suite as ss
import solve_oracles as so

MODULE = "DfolsVerif.Properties.C10"
BUILD_TARGETS = ss.ACCEPT_TARGETS
THEOREMS = ["Dfols.C10.C10_nruns", "Dfols.C10.C10_maxfun", "Dfols.C10.C10_restarts", "Dfols.C10.C10_small", "Dfols.C10.C10_rhoend",
            "Dfols.C10.C10_src_maxfun", "Dfols.C10.C10_src_small", "Dfols.C10.C10_src_threshold", "Dfols.C10.C10_src_rhoend",
            "Dfols.C10.C10_src_restarts", "Dfols.C10.C10_src_success_reasons", "Dfols.C10.C10_soft_refusal", "Dfols.C10.C10_src_nruns_once", "Dfols.C10.C10_src_after_loop"]


def pre_build(ctx):
    import gen_skeleton
    gen_skeleton.regenerate(ctx)
    import gen_exitsites
    ctx.cov["exit_creation_sites_in_repo"] = gen_exitsites.regenerate(ctx)
    import gen_kernels
    ctx.cov["translated_restart_guards"] = gen_kernels.regenerate_guards(ctx)


TRUSTED_EXTRA = [
    "AST translator harness/gen_exitsites.py (path conditions = enclosing if/while tests of the same function with polarity; tests are compared as canonical ast.unparse text)",
    "model = event lists accepted by RunsAcc.step (hand-written mirror of the ExitInformation creation sites and the nruns bookkeeping)",
    "'success is never attached to a non-finite objective' is NOT a theorem (false when no evaluation is finite: known finding); checked by the search",
    "rho/rhoend at the exit are read from the live Controller by the wrapper of ExitInformation.__init__",
]


def mutate(rng, prob, kw, d):
    up = kw.setdefault("user_params", {})
    # exercise the tolerance exits and small restart limits
    if rng.random() < 0.35:
        up["model.abs_tol"] = float(rng.choice([1e-12, 1e-6, 1e-2, 1.0, 10.0]))
        up["model.rel_tol"] = float(rng.choice([1e-20, 1e-6, 1e-2, 0.5]))
    if up.get("restarts.use_restarts") and rng.random() < 0.6:
        up["restarts.max_unsuccessful_restarts"] = int(rng.integers(1, 4))
    if rng.random() < 0.25:
        kw["rhoend"] = float(rng.choice([1e-2, 1e-3]))
        d["rhoend"] = kw["rhoend"]
    if rng.random() < 0.12 and not up.get("restarts.use_restarts") and not kw.get("objfun_has_noise"):
        # a small (documented, >= 1/250) alpha1 with rhobeg/rhoend inside the geometric-mean window of reduce_rho and
        # a budget that lets rho arrive at rhoend: the 'rho has reached rhoend' exit must find rho == rhoend exactly
        a1 = float(rng.uniform(0.005, 0.035))
        r0 = float(rng.uniform(26.0, min(240.0, 0.95 / a1)))
        rb = float(kw.get("rhobeg", d.get("rhobeg", 0.1)))
        up["tr_radius.alpha1"] = a1
        kw["rhoend"] = rb / r0
        kw["maxfun"] = int(rng.integers(150, 300))
        d.update(rhoend=kw["rhoend"], maxfun=kw["maxfun"], small_alpha1=a1)
    d["user_params"] = dict(up)


def params_of(kw):
    up = kw.get("user_params", {}) or {}
    return dict(abs_tol=float(up.get("model.abs_tol", 1e-12)), rel_tol=float(up.get("model.rel_tol", 1e-20)),
                max_unsucc=int(up.get("restarts.max_unsuccessful_restarts", 10)))


def oracle(t, d, kw):
    res = so.c10(t, d, kw["maxfun"], **params_of(kw))
    out = []
    for sig, what in res:
        if sig.startswith("C10:success-with-nonfinite-objective"):
            anyfinite = any(c["v"] == c["v"] and abs(c["v"]) != float("inf") for c in t.calls)
            sig = "C10:success-with-nonfinite-objective|" + ("some-finite-evaluation" if anyfinite else "no-finite-evaluation")
        out.append((sig, what))
    return out


def _runs(ctx):
    if not hasattr(ctx, "_runs"):
        runs, metas, stats = ss.run_trace_property(ctx, "exits", 300, 3000, 1010, None, mutate_cfg=mutate, fault_kinds=["nan", "inf", "huge"])
        r2, m2 = ss.budget_sweep(ctx, 1010, 4, 30)
        stats["budget_sweep_runs"] = len(r2)
        ctx._runs = (runs + r2, metas + m2, stats)
    return ctx._runs


def correspondence(ctx):
    runs, metas, stats = _runs(ctx)
    ss.check_acceptor(ctx, "exits", runs, metas)
    ss.check_acceptor(ctx, "count", runs, metas)
    ctx.cov["runs"] = stats


def search(ctx):
    if getattr(ctx, "boost", 1) > 1 and hasattr(ctx, "_runs"):
        del ctx._runs
    runs, metas, stats = _runs(ctx)
    for (seed, prob, kw, d, t, fault) in metas:
        for sig, what in oracle(t, d, kw):
            ctx.fail(sig, what, {"seed": seed, "config": ss.describe(d), "fault": fault})
    # the all-non-finite case, always exercised (recorded finding)
    dfols = core.import_dfols()
    import trace as tr
    for kind in ("nan", "inf"):
        val = float(kind)
        t = tr.traced_solve(dfols, lambda x: np.array([val, 1.0 - x[0]]), np.array([0.5, 0.5]), alarm=10, maxfun=40,
                            user_params={"restarts.use_restarts": True, "restarts.max_unsuccessful_restarts": 2})
        d = {"user_params": {}, "fixed": "all-" + kind}
        for sig, what in oracle(t, d, {"maxfun": 40, "user_params": {"restarts.max_unsuccessful_restarts": 2}}):
            ctx.fail(sig, what, {"fixed": "objective always " + kind})
        ctx.seen(("fixed", kind))


def replay(payload):
    dfols = core.import_dfols()
    rp = payload.get("replay", {})
    if "seed" not in rp:
        print("replay: fixed case or broken obligation:", rp or payload.get("broken"))
        return 1
    fault = tuple(rp["fault"]) if rp.get("fault") else None
    if len(rp["seed"]) == 5:
        _seed, prob, kw, d, t, _f = ss.replay_sweep(dfols, rp["seed"])
    else:
      prob, kw, d, t = ss.gen_run(dfols, rp["seed"], mutate_cfg=mutate, fault=fault)
    res = oracle(t, d, kw)
    print("replay:", res if res else "property holds on this input now")
    return 1 if res else 0
