"""C12 — the box trust-region sub-problem solver `trsbox` returns feasible, decreasing steps.

Correspondence: the Lean `Float` port `Dfols.Trs.trsbox` (Kernels/Trsbox.lean) vs the real
`dfols.trust_region.trsbox` with the conditioning-aware comparator of DESIGN 2.1 (three arithmetic
variants; inputs on which the variants disagree with each other sit on a branch tie and are skipped
and counted; n = 1 compared bit for bit), plus `d_within_bounds` bit for bit.
Search: the five clauses of the property stated directly on the real function over the property's
input grid (n 1..8, |g| over 6 decades, delta over 8 decades, PSD / rank-deficient / zero /
indefinite H, every bound active / nearly active / far).
"""
import math
import numpy as np
import core
from core import fbits_raw

MODULE = "DfolsVerif.Properties.C12"
BUILD_TARGETS = ["DfolsVerif.Driver.TrsDrv"]     # what lean/TrsMain.lean imports
def pre_build(ctx):
    import gen_trsclip
    gen_trsclip.regenerate(ctx)


THEOREMS = [
    "Dfols.C12.gen_dWithinBounds_eq",
    "Dfols.C12.C12_src_returns_clipped",
    "Dfols.C12.trsbox_box",
    "Dfols.C12.trsbox_box_exact",
    "Dfols.C12.trsbox_returns_clipped",
    "Dfols.C12.trsbox_result_in_box",
    "Dfols.C12.trsbox_gnew",
    "Dfols.C12.trsbox_gnew_alt",
    "Dfols.C12.trsbox_first_step_cauchy",
    "Dfols.C12.C12_cg_step_in_ball", "Dfols.C12.C12_cg_step_on_boundary", "Dfols.C12.C12_rotation_keeps_norm", "Dfols.C12.C12_src_step_formulas"]
TRUSTED_EXTRA = [
    "C12 is PARTIAL: proved = box clause for every input and every rounding (final clipping), gnew = g + H d as an exact-arithmetic "
    "invariant of both loops' updates, decrease of the first (steepest-descent) CG step in exact arithmetic; "
    "NOT proved (stated in Properties/C12.lean): ||d|| <= delta, monotone decrease over all iterations, Cauchy decrease of the *returned* step",
    "Lean Float port of trsbox/alt_trust_step is tied to the Python by differential runs (this check), not by proof",
    "IEEE-754: Lean Float and NumPy/CPython doubles agree on + - * / sqrt and libm pow (validated bit for bit on n = 1 and on d_within_bounds)",
    "search oracle: truncated projected-steepest-descent (Cauchy) step recomputed independently in Python (longdouble model values)",
]

EXPLANATION = ("Theorems: box clause for every input and rounding (final clipping; both return paths of the port end in it), gnew = g + H d invariant of "
               "both loops' updates and first-step (Cauchy) decrease in exact arithmetic. Correspondence: line-by-line Lean Float port of trsbox/alt_trust_step vs "
               "the Python under three summation variants (n=1 and d_within_bounds bit for bit). Search: all five clauses on the real function over the property's grid.")

EPS = np.finfo(float).eps


# ----------------------------------------------------------------------------------------------
# input grid
# ----------------------------------------------------------------------------------------------
H_KINDS = ["psd-full", "psd-rankdef", "zero", "indefinite", "diag-mixed"]
B_KINDS = ["active", "near", "far", "inf"]


def gen_case(rng, nmax=8, n=None):
    n = int(rng.integers(1, nmax + 1)) if n is None else n
    gscale = 10.0 ** rng.uniform(-3, 3)
    delta = float(10.0 ** rng.uniform(-4, 4))
    hscale = 10.0 ** rng.uniform(-3, 3)
    g = rng.normal(size=n) * gscale
    if rng.random() < 0.15:
        g[rng.integers(n)] = 0.0
    hk = H_KINDS[int(rng.integers(len(H_KINDS)))]
    if hk == "psd-full":
        J = rng.normal(size=(n + int(rng.integers(0, 3)), n))
        H = J.T @ J
    elif hk == "psd-rankdef":
        m = int(rng.integers(1, max(2, n)))
        J = rng.normal(size=(min(m, max(1, n - 1)), n))
        H = J.T @ J
    elif hk == "zero":
        H = np.zeros((n, n))
    elif hk == "indefinite":
        A = rng.normal(size=(n, n))
        H = A + A.T
    else:
        H = np.diag(rng.normal(size=n))
    H = 0.5 * (H + H.T) * hscale
    xopt = np.round(rng.normal(size=n), 3) * (10.0 ** rng.integers(-2, 3))
    sl = np.empty(n)
    su = np.empty(n)
    kinds = []
    for i in range(n):
        kl = B_KINDS[int(rng.choice(4, p=[0.25, 0.25, 0.35, 0.15]))]
        ku = B_KINDS[int(rng.choice(4, p=[0.25, 0.25, 0.35, 0.15]))]
        def gap(k):
            if k == "active":
                return 0.0
            if k == "near":
                return delta * 10.0 ** rng.uniform(-12, -1)
            if k == "far":
                return delta * 10.0 ** rng.uniform(-0.5, 2)
            return 1e20
        sl[i] = xopt[i] - gap(kl)
        su[i] = xopt[i] + gap(ku)
        # the subtraction may round across xopt: enforce the precondition sl <= xopt <= su
        sl[i] = min(sl[i], xopt[i])
        su[i] = max(su[i], xopt[i])
        kinds.append(kl[0] + ku[0])
    return {"n": n, "xopt": xopt, "g": g, "H": H, "sl": sl, "su": su, "delta": delta, "hkind": hk, "bkinds": kinds}


def case_json(c):
    return {k: (v.tolist() if isinstance(v, np.ndarray) else v) for k, v in c.items()}


def case_from_json(d):
    c = dict(d)
    for k in ("xopt", "g", "H", "sl", "su"):
        c[k] = np.array(d[k], dtype=float)
    return c


# ----------------------------------------------------------------------------------------------
# correspondence
# ----------------------------------------------------------------------------------------------
def fl(v):
    return " ".join(fbits_raw(x) for x in np.asarray(v, dtype=float).ravel())


def trsbox_line(variant, seed, c):
    return "trsbox %s %d %d %s %s %s %s %s %s" % (variant, seed, c["n"], fl(c["xopt"]), fl(c["g"]), fl(c["H"]), fl(c["sl"]),
                                                    fl(c["su"]), fbits_raw(c["delta"]))


def parse_vec(s):
    if s == "":
        return np.zeros(0)
    return np.array([float("nan") if t == "nan" else core.bits2f(int(t)) for t in s.split(",")])


def parse_reply(rep):
    if not rep.startswith("ok "):
        return None
    kv = dict(t.split("=", 1) for t in rep[3:].split(" "))
    out = {}
    for k, v in kv.items():
        if k in ("d", "g", "x"):
            out[k] = parse_vec(v)
        elif k == "crv":
            out[k] = float("nan") if v == "nan" else core.bits2f(int(v))
        else:
            out[k] = int(v)
    return out


def same_value(a, b):
    """bit-for-bit up to the sign of zero"""
    a = np.asarray(a, dtype=float)
    b = np.asarray(b, dtype=float)
    return a.shape == b.shape and bool(np.all((a == b) | (np.isnan(a) & np.isnan(b))))


def correspondence(ctx):
    dfols = core.import_dfols()
    from dfols.trust_region import trsbox, d_within_bounds
    ncase = ctx.scale(1500, 15000)
    cases, lines = [], []
    for i in range(ncase):
        rng = np.random.default_rng([ctx.seed, 12, i])
        c = gen_case(rng, n=1 if i % 7 == 0 else None)
        cases.append(c)
        for v in "LRN":
            lines.append(trsbox_line(v, (ctx.seed * 1000003 + i) % (2 ** 31), c))
    # d_within_bounds: elementwise, bit for bit (arbitrary d, also far outside the box; arbitrary flags)
    nd = ctx.scale(400, 4000)
    dcases = []
    for i in range(nd):
        rng = np.random.default_rng([ctx.seed, 1212, i])
        c = gen_case(rng)
        n = c["n"]
        d = rng.normal(size=n) * c["delta"] * 10.0 ** rng.uniform(-3, 1)
        xbdi = rng.choice([-1, 0, 0, 1], size=n)
        dcases.append((c, d, xbdi))
        lines.append("dwb %d %s %s %s %s %s" % (n, fl(d), fl(c["xopt"]), fl(c["sl"]), fl(c["su"]), " ".join(str(int(t)) for t in xbdi)))
    replies = core.run_driver(lines, main="TrsMain.lean", timeout=1500)

    st = {"cases": ncase, "compared": 0, "skipped_branch_tie": 0, "n1_cases": 0, "n1_bit_exact": 0, "alt_path": 0,
          "bit_exact_all_n": 0, "max_rel_step_diff": 0.0, "max_rel_grad_diff": 0.0, "by_hkind": {}, "real_raised": 0}
    mism = []
    for i, c in enumerate(cases):
        reps = [parse_reply(replies[3 * i + k]) for k in range(3)]
        ctx.seen(("c12corr", i, c["n"], c["hkind"], tuple(c["bkinds"])))
        if any(r is None for r in reps):
            mism.append({"case": i, "lean": replies[3 * i: 3 * i + 3], "why": "driver rejected the line"})
            continue
        try:
            d, gnew, crvmin = trsbox(c["xopt"].copy(), c["g"].copy(), c["H"].copy(), c["sl"].copy(), c["su"].copy(), c["delta"])
        except Exception as e:   # the real function raising on a legal input is for the search to report
            st["real_raised"] += 1
            continue
        n = c["n"]
        hn = float(np.linalg.norm(c["H"], 2)) if n > 0 else 0.0
        tol_d = 1e-7 * c["delta"]
        tol_g = 1e-7 * (float(np.linalg.norm(c["g"])) + hn * c["delta"])
        L = reps[0]
        st["alt_path"] += L["alt"]
        st["by_hkind"][c["hkind"]] = st["by_hkind"].get(c["hkind"], 0) + 1
        if n == 1:
            st["n1_cases"] += 1
            exact = same_value(L["d"], d) and same_value(L["g"], gnew) and same_value([L["crv"]], [crvmin])
            st["n1_bit_exact"] += exact
            if not exact:
                mism.append({"case": i, "why": "n = 1 must be bit-exact", "input": case_json(c),
                             "lean": [L["d"].tolist(), L["g"].tolist(), L["crv"]], "real": [d.tolist(), gnew.tolist(), float(crvmin)]})
            st["compared"] += 1
            continue
        spread_d = max(float(np.max(np.abs(reps[a]["d"] - reps[b]["d"]))) for a, b in ((0, 1), (0, 2), (1, 2)))
        spread_g = max(float(np.max(np.abs(reps[a]["g"] - reps[b]["g"]))) for a, b in ((0, 1), (0, 2), (1, 2)))
        if not (spread_d <= tol_d and spread_g <= tol_g):
            st["skipped_branch_tie"] += 1
            continue
        st["compared"] += 1
        if same_value(L["d"], d) and same_value(L["g"], gnew):
            st["bit_exact_all_n"] += 1
        for k, r in enumerate(reps):
            dd = float(np.max(np.abs(r["d"] - d)))
            dg = float(np.max(np.abs(r["g"] - gnew)))
            st["max_rel_step_diff"] = max(st["max_rel_step_diff"], dd / c["delta"])
            if tol_g > 0:
                st["max_rel_grad_diff"] = max(st["max_rel_grad_diff"], dg / (tol_g / 1e-7))
            if not (dd <= tol_d and dg <= tol_g):
                mism.append({"case": i, "variant": "LRN"[k], "why": "step/gradient differ beyond 1e-7 relative",
                             "step_diff_over_delta": dd / c["delta"], "grad_diff": dg, "input": case_json(c),
                             "lean_d": r["d"].tolist(), "real_d": d.tolist(), "lean_alt": r["alt"]})
                break
    st["skip_rate"] = round(st["skipped_branch_tie"] / max(1, ncase - st["n1_cases"]), 4)
    # d_within_bounds
    dw_bad = 0
    for k, (c, d, xbdi) in enumerate(dcases):
        rep = parse_reply(replies[3 * ncase + k])
        real = d_within_bounds(d.copy(), c["xopt"], c["sl"], c["su"], xbdi)
        ctx.seen(("c12dwb", k))
        if rep is None or not same_value(rep["d"], real):
            dw_bad += 1
            if dw_bad <= 3:
                mism.append({"why": "d_within_bounds not bit-identical", "input": case_json(c), "d": d.tolist(), "xbdi": xbdi.tolist(),
                             "lean": None if rep is None else rep["d"].tolist(), "real": real.tolist()})
    st["d_within_bounds_cases"] = nd
    st["d_within_bounds_mismatch"] = dw_bad
    ctx.cov["correspondence_trsbox"] = st
    if cases:
        c = cases[1]
        ctx.add_sample({"kind": "trsbox correspondence case", "input": case_json(c), "lean_reply_L": replies[3][:200]})
    if st["skip_rate"] > 0.20:
        ctx.notes.append("trsbox comparator skip rate %.1f%% > 20%%" % (100 * st["skip_rate"]))
    for mm in mism[:5]:
        ctx.broke("correspondence:trsbox-vs-Lean-port", mm)
    ctx._c12_mismatch = mism


# ----------------------------------------------------------------------------------------------
# search: the five clauses on the real function
# ----------------------------------------------------------------------------------------------
def qval(g, H, d):
    """model value g.d + 0.5 d.H d in extended precision"""
    gl = g.astype(np.longdouble)
    Hl = H.astype(np.longdouble)
    dl = d.astype(np.longdouble)
    return float(gl @ dl + np.longdouble(0.5) * (dl @ (Hl @ dl)))


def cauchy_step(c):
    """steepest-descent step from xopt, restricted to the variables not blocked by an active bound,
    truncated at the first bound, the trust-region boundary, or the 1-d minimiser."""
    g, H, xopt, sl, su, delta = c["g"], c["H"], c["xopt"], c["sl"], c["su"], c["delta"]
    s = -g.copy()
    s[(xopt <= sl) & (g >= 0.0)] = 0.0
    s[(xopt >= su) & (g <= 0.0)] = 0.0
    ss = float(s @ s)
    if ss == 0.0:
        return np.zeros_like(g)
    t = delta / math.sqrt(ss)
    shs = float(s @ (H @ s))
    if shs > 0.0:
        t = min(t, ss / shs)
    for i in range(len(g)):
        if s[i] > 0.0:
            t = min(t, (su[i] - xopt[i]) / s[i])
        elif s[i] < 0.0:
            t = min(t, (sl[i] - xopt[i]) / s[i])
    return max(t, 0.0) * s


def check_clauses(trsbox, c, stats=None):
    """returns None or (signature, description)"""
    n = c["n"]
    g, H, xopt, sl, su, delta = c["g"], c["H"], c["xopt"], c["sl"], c["su"], c["delta"]
    try:
        d, gnew, crvmin = trsbox(xopt.copy(), g.copy(), H.copy(), sl.copy(), su.copy(), delta)
    except Exception as e:
        return ("C12:trsbox-raises", "trsbox raised %r" % (e,))
    if not (np.all(np.isfinite(d)) and np.all(np.isfinite(gnew))):
        return ("C12:non-finite-output", "trsbox returned non-finite d or gnew on finite input")
    # 1. box: sl <= xopt + d <= su, exact up to 4 eps (|xopt| + |d|) per coordinate (rounding of xnew - xopt and back)
    x = xopt + d
    tolb = 4 * EPS * (np.abs(xopt) + np.abs(d))
    if np.any(x < sl - tolb) or np.any(x > su + tolb):
        i = int(np.argmax(np.maximum(sl - x, x - su)))
        return ("C12:box", "xopt+d leaves the box in coordinate %d by %.3g" % (i, max(sl[i] - x[i], x[i] - su[i])))
    # 2. ball
    dn = float(np.linalg.norm(d))
    if dn > delta * (1 + 1e-8):
        return ("C12:ball", "||d|| = %.17g > delta (1+1e-8) = %.17g" % (dn, delta * (1 + 1e-8)))
    # rounding of the final `d = xnew - xopt` (trust_region.py:549-552) quantises d to ulp(|xopt|): the same 4 eps (|xopt|+|d|)
    # as in the box clause.  It perturbs Q(d) by at most quant * |grad Q| and g + H d by at most quant * ||H||.
    hn = float(np.linalg.norm(H, 2))
    quant = 4 * EPS * (float(np.linalg.norm(xopt)) + dn)
    gradq = float(np.linalg.norm(g)) + hn * dn
    # 3. model not increased
    q = qval(g, H, d)
    mag = abs(float(g @ d)) + abs(float(d @ (H @ d)))
    if q > 1e-12 * mag + quant * gradq:
        return ("C12:model-increase", "Q(d) = %.6g > 0 (terms of size %.3g)" % (q, mag))
    # 4. Cauchy decrease
    dc = cauchy_step(c)
    qc = qval(g, H, dc)
    magc = abs(float(g @ dc)) + abs(float(dc @ (H @ dc)))
    if q > qc + 1e-9 * (mag + magc) + quant * gradq:
        return ("C12:cauchy-decrease", "Q(d) = %.12g but the truncated steepest-descent step reaches %.12g" % (q, qc))
    # 5. gnew = g + H d
    want = g + H @ d
    scale = float(np.linalg.norm(g)) + hn * dn
    err = float(np.max(np.abs(gnew - want)))
    if err > 1e-8 * scale + quant * hn + 1e-300:
        return ("C12:gnew", "gnew differs from g + H d by %.3g (scale %.3g)" % (err, scale))
    if stats is not None:
        stats["zero_step"] += dn == 0.0
        stats["on_boundary"] += dn >= delta * (1 - 1e-9)
        stats["interior"] += 0.0 < dn < delta * (1 - 1e-9)
        stats["box_exact"] += bool(np.all(x >= sl) and np.all(x <= su))
        stats["max_norm_over_delta"] = max(stats["max_norm_over_delta"], dn / delta)
        stats["strict_decrease"] += q < 0.0
        stats["cauchy_step_nonzero"] += bool(np.any(dc != 0.0))
        if err > 1e-8 * scale:
            stats["gnew_needed_quantisation_term"] += 1
    return None


def shrink(trsbox, c, sig):
    """greedy: drop coordinates, round values to short decimals, keeping the same failure signature"""
    def fails(cc):
        try:
            r = check_clauses(trsbox, cc)
        except Exception:
            return False
        return r is not None and r[0] == sig
    cur = c
    changed = True
    while changed and cur["n"] > 1:
        changed = False
        for i in range(cur["n"]):
            keep = [j for j in range(cur["n"]) if j != i]
            cc = dict(cur)
            cc["n"] = cur["n"] - 1
            for k in ("xopt", "g", "sl", "su"):
                cc[k] = cur[k][keep]
            cc["H"] = cur["H"][np.ix_(keep, keep)]
            cc["bkinds"] = [cur["bkinds"][j] for j in keep]
            if fails(cc):
                cur = cc
                changed = True
                break
    for digits in (3, 6, 9):
        cc = dict(cur)
        ok = True
        for k in ("g", "H"):
            with np.errstate(all="ignore"):
                mag = 10.0 ** np.floor(np.log10(np.maximum(np.abs(cur[k]), 1e-300)))
            cc[k] = np.where(cur[k] == 0, 0.0, np.round(cur[k] / mag, digits) * mag)
        if fails(cc):
            cur = cc
            break
    return cur


def search(ctx):
    dfols = core.import_dfols()
    from dfols.trust_region import trsbox
    ncase = ctx.scale(15000, 150000) * getattr(ctx, "boost", 1)
    tags = {"hkind": {}, "bkind": {}, "n": {}}
    stats = {"zero_step": 0, "on_boundary": 0, "interior": 0, "box_exact": 0, "max_norm_over_delta": 0.0, "strict_decrease": 0,
             "cauchy_step_nonzero": 0, "gnew_needed_quantisation_term": 0}
    seeds = []
    for mm in getattr(ctx, "_c12_mismatch", [])[:20]:
        if "input" in mm:
            seeds.append(case_from_json(mm["input"]))
    for i in range(ncase + len(seeds)):
        if i < len(seeds):
            c = seeds[i]
        else:
            rng = np.random.default_rng([ctx.seed, 1200, i])
            c = gen_case(rng)
        ctx.seen(("c12search", i, c["n"], c["hkind"]))
        tags["hkind"][c["hkind"]] = tags["hkind"].get(c["hkind"], 0) + 1
        tags["n"][c["n"]] = tags["n"].get(c["n"], 0) + 1
        for b in c["bkinds"]:
            tags["bkind"][b] = tags["bkind"].get(b, 0) + 1
        res = check_clauses(trsbox, c, stats)
        if res is not None:
            sig, what = res
            small = shrink(trsbox, c, sig)
            res2 = check_clauses(trsbox, small) or res
            ctx.fail(sig, res2[1], {"case": case_json(small), "original": case_json(c)})
            if len(ctx.failures) >= 5:
                break
    ctx.cov["search_trsbox"] = {"inputs": ncase, "grid": tags, "outcomes": stats,
                                "tolerances": {"box": "4 eps (|xopt|+|d|) per coordinate", "ball": "delta (1+1e-8)",
                                               "no-increase": "1e-12 (|g.d|+|d.Hd|) + q", "cauchy": "1e-9 (|g.d|+|d.Hd| of both steps) + q",
                                               "gnew": "1e-8 (||g|| + ||H|| ||d||) + 4 eps (|xopt|+|d|) ||H||",
                                               "q": "4 eps (|xopt|+|d|) (||g|| + ||H|| ||d||): the final d = xnew - xopt is quantised to ulp(|xopt|)"}}


def replay(payload):
    core.import_dfols()
    from dfols.trust_region import trsbox
    rp = payload.get("replay", {})
    if "case" not in rp:
        print("replay file names a broken obligation, nothing to execute:", payload.get("broken"))
        return 1
    res = check_clauses(trsbox, case_from_json(rp["case"]))
    if res is None:
        print("replay: property holds on this input now")
        return 0
    print("replay: still fails:", res[0], res[1])
    return 1
