"""C03 — The returned solution is a point that was really evaluated.

Correspondence: real traces must be accepted by the Lean book-keeping acceptor BookAcc (replay of the run on the
L1 Model state machine + call-site protocol), and the candidate it returns (point id, label, sample list) must
match soln.x / soln.resid / soln.xmin_eval_num of the real run.
Search: soln.x vs the recorded argument of evaluation point xmin_eval_num, soln.resid vs the mean of the residuals
returned there, soln.obj vs sum(resid^2)+h(x).
"""
import numpy as np
import core
import solve_suite as ss
import solve_oracles as so

MODULE = "DfolsVerif.Properties.C03"
BUILD_TARGETS = ss.ACCEPT_TARGETS
THEOREMS = ["Dfols.C03.C03_label", "Dfols.C03.C03_candidate_truthful", "Dfols.C03.booksites_eq",
            "Dfols.C03.C03_src_points_labelled", "Dfols.C03.C03_src_samples", "Dfols.C03.C03_src_saves",
            "Dfols.C03.C03_src_add_new_point_on_full_set"]
TRUSTED_EXTRA = [
    "model = event lists accepted by BookAcc.step (hand-written mirror of the call sites of change_point/add_new_point/add_new_sample/save_point/get_final_results, the x0 exit, restarted runs and the hard-restart merge)",
    "that soln.x is the argument and soln.resid the mean of the evaluations named by the acceptor's candidate is compared on real runs (floats), not proved",
]
import gen_booksites


def pre_build(ctx):
    gen_booksites.regenerate(ctx)
    import gen_bookcalls
    ctx.cov["book_keeping_calls_in_repo"] = gen_bookcalls.regenerate(ctx)


ALLOW = ("bounds", "scaling", "proj", "avg", "soft", "hard", "npt", "growing", "regression", "noise", "diag", "randinit", "parallel", "regu")


def mutate(rng, prob, kw, d):
    if kw.get("scaling_within_bounds") and "h" not in kw and rng.random() < 0.3:
        # a regulariser together with internal scaling (the base generator keeps them apart): h must always see the user's
        # coordinates, also where a stored or saved objective is recomputed
        lam = float(10 ** rng.uniform(-2, 0))
        kw["h"] = lambda x, lam=lam: lam * float(np.sum(np.abs(x)))
        kw["lh"] = lam * float(np.sqrt(prob["n"]))
        kw["prox_uh"] = lambda x, u, lam=lam: np.sign(x) * np.maximum(np.abs(x) - lam * u, 0.0)
        kw["maxfun"] = min(kw["maxfun"], 60)
        d["maxfun"] = kw["maxfun"]
        d["regu"] = lam
    if "h" in kw and kw.get("bounds") is not None and not kw.get("projections") and rng.random() < 0.5:
        # a regulariser with random 'momentum' regression steps next to a box: points are moved by steps that the box cuts
        up = dict(kw.get("user_params", {}) or {})
        up["regression.num_extra_steps"] = 2
        up["regression.momentum_extra_steps"] = True
        kw["user_params"] = up
        kw["npt"] = 2 * prob["n"] + 1
        d.update(npt=kw["npt"], regression=2, momentum=True, user_params=up)
    if d.get("proj") and prob["n"] >= 2 and "npt" not in kw and rng.random() < 0.35:
        # projections with a GROWING point set (needs random initial directions): growing-phase points are stored unprojected, the
        # returned x is their projection as it was evaluated (seeded C03_10 returned the stored point itself)
        up = dict(kw.get("user_params", {}) or {})
        up["init.random_initial_directions"] = True
        up.pop("init.run_in_parallel", None)
        up["growing.ndirs_initial"] = int(rng.integers(1, prob["n"]))
        up["growing.num_new_dirns_each_iter"] = int(rng.integers(1, 3))
        for k in ("regression.num_extra_steps", "regression.momentum_extra_steps"):
            up.pop(k, None)
        kw["user_params"] = up
        kw["maxfun"] = int(rng.integers(3, 25))
        d.update(randinit=True, growing=up["growing.ndirs_initial"], maxfun=kw["maxfun"], user_params=dict(up), proj_growing=True)
    # hard restarts whose later runs still improve: loose rhoend so that a run ends with budget left
    if d.get("restarts") != "soft" and rng.random() < 0.12:
        up = dict(kw.get("user_params", {}) or {})
        up["restarts.use_restarts"] = True
        up["restarts.use_soft_restarts"] = False
        kw["user_params"] = up
        rb = float(kw.get("rhobeg", d.get("rhobeg", 0.1)))
        kw["rhoend"] = rb * 10.0 ** (-rng.uniform(1.0, 2.5))
        kw["maxfun"] = int(rng.integers(80, 250))
        d.update(restarts="hard", rhoend=kw["rhoend"], maxfun=kw["maxfun"], user_params=up, hard_improving=True)


def compare_candidate(a, t, d, kw):
    """acceptor's candidate 'pt:en:ns:v:resid' vs the real result"""
    r = t.result
    if r is None or r.x is None or "best" not in a or a["best"] == "-":
        return None
    pt, en, ns, v, resid = a["best"].split(":")
    idx = [int(x) for x in resid.split(",") if x]
    if not idx or max(idx) > len(t.calls):
        return "acceptor names evaluations %s but only %d calls were made" % (idx, len(t.calls))
    xs = [t.calls[i - 1]["x"] for i in idx]
    x = np.asarray(r.x, dtype=float)
    tol = 1e-9 * (1 + np.abs(xs[0])) + 1e-12
    if d.get("proj"):
        tol = 1e-4 * (1 + np.abs(xs[0]))    # Dykstra re-projection drift (recorded finding, reported precisely by the search)
    if np.any(np.abs(x - xs[0]) > tol):
        return "soln.x=%s differs from the argument %s of the evaluations %s kept by the model" % (x, xs[0], idx)
    rs = [t.calls[i - 1]["r"] for i in idx]
    if all(rr is not None for rr in rs):
        mean = np.mean(np.array(rs), axis=0)
        res = np.asarray(r.resid, dtype=float)
        fin = np.isfinite(mean) & np.isfinite(res)
        if res.shape != mean.shape or np.any(np.abs(mean[fin] - res[fin]) > 1e-9 * (1 + np.abs(mean[fin]))):
            return "soln.resid=%s is not the mean %s of the evaluations %s kept by the model" % (res, mean, idx)
    return None


def _runs(ctx):
    if not hasattr(ctx, "_runs"):
        runs, metas, stats = ss.run_trace_property(ctx, "book", 300, 3000, 303, None, allow=ALLOW, mutate_cfg=mutate)
        r2, m2 = ss.budget_sweep(ctx, 303, 4, 30)
        stats["budget_sweep_runs"] = len(r2)
        ctx._runs = (runs + r2, metas + m2, stats)
    return ctx._runs


def correspondence(ctx):
    runs, metas, stats = _runs(ctx)
    # run_in_parallel is a recorded finding (acceptor rejects those traces by design): keep them out of the correspondence
    keep = [i for i, m in enumerate(metas) if not m[3].get("user_params", {}).get("init.run_in_parallel")]
    ss.check_acceptor(ctx, "book", [runs[i] for i in keep], [metas[i] for i in keep], extra_compare=compare_candidate)
    ctx.cov["runs"] = stats
    ctx.cov["parallel_init_runs_excluded_from_correspondence"] = len(metas) - len(keep)


def search(ctx):
    if getattr(ctx, "boost", 1) > 1 and hasattr(ctx, "_runs"):
        del ctx._runs
    runs, metas, stats = _runs(ctx)
    for (seed, prob, kw, d, t, fault) in metas:
        for sig, what in so.c03(t, d, h=kw.get("h")):
            ctx.fail(sig, what, {"seed": seed, "config": ss.describe(d)})
        if len([f for f in ctx.failures]) > 12:
            break
    ss.rejection_budgets(ctx, lambda t, d, kw: so.c03(t, d, h=kw.get("h")) if t.result is not None else [], allow=ALLOW, mutate_cfg=mutate)


def replay(payload):
    dfols = core.import_dfols()
    rp = payload.get("replay", {})
    if "seed" not in rp:
        print("replay names a broken obligation:", payload.get("broken"))
        return 1
    if len(rp["seed"]) == 5:
        _seed, prob, kw, d, t, _f = ss.replay_sweep(dfols, rp["seed"])
    else:
      prob, kw, d, t = ss.gen_run(dfols, rp["seed"], allow=ALLOW, mutate_cfg=mutate, maxfun_override=rp.get("maxfun_override"))
    res = so.c03(t, d, h=kw.get("h"))
    print("replay:", res if res else "property holds on this input now")
    return 1 if res else 0
