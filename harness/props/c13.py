"""C13 — geometry and convex-constrained step solvers stay inside their regions.

Correspondence
  * Lean `Float` instance of the polymorphic kernels `TrsLin.trsboxLinear` / `TrsLin.trsboxGeometry`
    (the very definitions the theorems are about) vs the real `trsbox_linear` / `trsbox_geometry`, with
    the conditioning-aware comparator of DESIGN 2.1 (three arithmetic variants; variants disagreeing
    with each other = branch tie = skipped and counted); n = 1 bit for bit.
  * decision logic of `Controller.trust_region_step` (which solver is reached; zero-step rule of
    controller.py:550-553) vs `TrStep.pickSolver` / `TrStep.returnedStep`, on a real Controller whose
    sub-problem solvers are replaced by recorders returning crafted steps (uphill, downhill, NaN).
Search (property stated directly on the real functions)
  * trsbox_geometry: inside box (1e-12 relative, floor 1) and ball; |c + g.s| within 1e-6 relative of the
    global maximum computed by the clipped-ray bisection oracle; never worse than not moving.
  * ctrsbox_pgd / ctrsbox_sfista (L1 regulariser, soft-thresholding prox, argsprox=()) / ctrsbox_geometry
    on random convex sets (balls, half-spaces, boxes containing the centre): ||d|| <= Delta (1+1e-8).
  * Controller.trust_region_step with a regulariser on a real Controller with a random model:
    predicted reduction of the returned step is not negative.
"""
import math
import numpy as np
import core
from core import fbits_raw, fkey

MODULE = "DfolsVerif.Properties.C13"
BUILD_TARGETS = ["DfolsVerif.Driver.TrsDrv"]     # what lean/TrsMain.lean imports
def pre_build(ctx):
    import gen_kernels
    ctx.cov["trproj_placement_functions"] = gen_kernels.regenerate_trproj(ctx)
    import gen_trsclip
    gen_trsclip.regenerate(ctx)


THEOREMS = [
    "Dfols.C13.gen_trproj_last",
    "Dfols.C13.gen_ballStep_eq",
    "Dfols.C13.trsbox_linear_box_ball",
    "Dfols.C13.trsbox_linear_descent",
    "Dfols.C13.trsbox_geometry_box_ball",
    "Dfols.C13.trsbox_geometry_abs_box",
    "Dfols.C13.trsbox_geometry_not_worse",
    "Dfols.C13.sqrtSpec_real",
    "Dfols.C13.trsbox_geometry_real",
    "Dfols.C13.convex_step_norm_le",
    "Dfols.C13.ctrsbox_geometry_norm_le",
    "Dfols.C13.convex_step_in_ball",
    "Dfols.C13.ctrsbox_geometry_in_ball",
    "Dfols.C13.zero_step_rule",
    "Dfols.C13.zero_step_rule_nan",
    "Dfols.C13.zero_step_rule_value",
    "Dfols.C13.zero_step_only_with_regulariser",
    "Dfols.C13.pred_reduction_of_zero_step",
]
TRUSTED_EXTRA = [
    "C13 is PARTIAL: proved (exact arithmetic, ordered field with a square root) = trsbox_linear/trsbox_geometry in the "
    "ZERO_THRESH-widened box and the ball, never worse than not moving; zero-step rule for every NaN pattern; "
    "NOT proved = global optimality of the geometry step (stated in Properties/C13.lean; tested against the bisection oracle)",
    "convex solvers: ||d|| <= Delta is proved in exact arithmetic from Proofs/Dykstra.lean ball_last (dykstra.max_iters >= 1, Delta > 0); "
    "the loops around the projection are modelled only as 'the result is the last projection or the zero vector' (Kernels/ConvexStep.lean), "
    "user projections are arbitrary functions",
    "exact-arithmetic theorems say nothing about rounding: the float gap is watched by the correspondence (1e-7 relative) and the search",
    "Controller used in the search/correspondence is a real dfols Controller whose model_const/model_jac are set directly to random data",
    "search oracle for global optimality: bisection on t for clip(-t g) (plain NumPy)",
]

EXPLANATION = ("Theorems: exact-arithmetic box/ball/never-worse for trsbox_linear and trsbox_geometry (polymorphic kernel, same definition runs on Float), "
               "ball clause of the convex solvers against LastBall, NaN-aware zero-step rule. Correspondence: kernel vs NumPy (comparator, n=1 bit-exact) "
               "and trust_region_step decision logic on a real Controller. Search: bisection oracle for global optimality, norms of ctrsbox_pgd / "
               "ctrsbox_sfista / ctrsbox_geometry on random convex sets, predicted reduction of Controller.trust_region_step with a regulariser.")

ZT = 1e-14


# ----------------------------------------------------------------------------------------------
# generators
# ----------------------------------------------------------------------------------------------
SIDE = ["active", "near", "far", "inf"]


def gen_geom(rng, nmax=8, n=None):
    n = int(rng.integers(1, nmax + 1)) if n is None else n
    Delta = float(10.0 ** rng.uniform(-3, 2))
    gscale = 10.0 ** rng.uniform(-3, 3)
    if rng.random() < 0.15:
        gscale = 10.0 ** rng.uniform(-13, -4)      # tiny but non-negligible gradients (above ZERO_THRESH = 1e-14)
    g = rng.normal(size=n) * gscale
    for i in range(n):
        u = rng.random()
        if u < 0.12:
            g[i] = 0.0
        elif u < 0.18:
            g[i] = rng.normal() * 1e-15          # below ZERO_THRESH: treated as constant direction
    ck = rng.random()
    c = 0.0 if ck < 0.3 else (1.0 if ck < 0.5 else float(rng.normal() * gscale * Delta * 10.0 ** rng.uniform(-2, 2)))
    xbase = np.round(rng.normal(size=n), 3) * (10.0 ** rng.integers(-2, 2))
    if rng.random() < 0.3:
        xbase = np.zeros(n)
    lower = np.empty(n)
    upper = np.empty(n)
    kinds = []
    for i in range(n):
        def gap(k):
            if k == "active":
                return 0.0
            if k == "near":
                return Delta * 10.0 ** rng.uniform(-12, -1)
            if k == "far":
                return Delta * 10.0 ** rng.uniform(-0.5, 2)
            return 1e20
        kl = SIDE[int(rng.choice(4, p=[0.25, 0.25, 0.35, 0.15]))]
        ku = SIDE[int(rng.choice(4, p=[0.25, 0.25, 0.35, 0.15]))]
        lower[i] = min(xbase[i] - gap(kl), xbase[i])
        upper[i] = max(xbase[i] + gap(ku), xbase[i])
        kinds.append(kl[0] + ku[0])          # "aa" = degenerate side: lower = upper = xbase
    return {"n": n, "xbase": xbase, "c": c, "g": g, "lower": lower, "upper": upper, "Delta": Delta, "kinds": kinds}


def cj(c):
    return {k: (v.tolist() if isinstance(v, np.ndarray) else v) for k, v in c.items()}


def cfj(d, keys):
    c = dict(d)
    for k in keys:
        c[k] = np.array(d[k], dtype=float)
    return c


GEOM_KEYS = ("xbase", "g", "lower", "upper")


def fl(v):
    return " ".join(fbits_raw(x) for x in np.asarray(v, dtype=float).ravel())


def parse_x(rep):
    if not rep.startswith("ok x="):
        return None
    s = rep[5:]
    if s == "":
        return np.zeros(0)
    return np.array([float("nan") if t == "nan" else core.bits2f(int(t)) for t in s.split(",")])


def same_value(a, b):
    a = np.asarray(a, dtype=float)
    b = np.asarray(b, dtype=float)
    return a.shape == b.shape and bool(np.all((a == b) | (np.isnan(a) & np.isnan(b))))


# ----------------------------------------------------------------------------------------------
# correspondence 1: kernels
# ----------------------------------------------------------------------------------------------
def corr_kernels(ctx):
    core.import_dfols()
    from dfols.trust_region import trsbox_linear, trsbox_geometry
    ncase = ctx.scale(600, 6000)
    cases, lines = [], []
    for i in range(ncase):
        rng = np.random.default_rng([ctx.seed, 13, i])
        c = gen_geom(rng, n=1 if i % 7 == 0 else None)
        cases.append(c)
        sd = (ctx.seed * 1000003 + i) % (2 ** 31)
        for v in "LRN":
            lines.append("trslin %s %d %d %s %s %s %s" % (v, sd, c["n"], fl(c["g"]), fl(c["lower"] - c["xbase"]),
                                                          fl(c["upper"] - c["xbase"]), fbits_raw(c["Delta"])))
        for v in "LRN":
            lines.append("trsgeom %s %d %d %s %s %s %s %s %s" % (v, sd, c["n"], fl(c["xbase"]), fbits_raw(c["c"]), fl(c["g"]),
                                                                   fl(c["lower"]), fl(c["upper"]), fbits_raw(c["Delta"])))
    replies = core.run_driver(lines, main="TrsMain.lean", timeout=1500)
    st = {"cases": ncase, "lin_compared": 0, "lin_skipped_branch_tie": 0, "geom_compared": 0, "geom_skipped_branch_tie": 0,
          "n1_cases": 0, "n1_bit_exact": 0, "lin_bit_exact": 0, "geom_bit_exact": 0, "max_rel_diff": 0.0}
    mism = []
    for i, c in enumerate(cases):
        ctx.seen(("c13corr", i, c["n"], tuple(c["kinds"])))
        a_in = c["lower"] - c["xbase"]
        b_in = c["upper"] - c["xbase"]
        real_lin = trsbox_linear(c["g"].copy(), a_in.copy(), b_in.copy(), c["Delta"])
        real_geo = trsbox_geometry(c["xbase"].copy(), c["c"], c["g"].copy(), c["lower"].copy(), c["upper"].copy(), c["Delta"])
        lin = [parse_x(replies[6 * i + k]) for k in range(3)]
        geo = [parse_x(replies[6 * i + 3 + k]) for k in range(3)]
        if any(r is None for r in lin + geo):
            mism.append({"case": i, "why": "driver rejected a line", "lean": replies[6 * i: 6 * i + 6]})
            continue
        tol = 1e-7 * c["Delta"]
        if c["n"] == 1:
            st["n1_cases"] += 1
            ok = same_value(lin[0], real_lin) and same_value(geo[0], real_geo)
            st["n1_bit_exact"] += ok
            if not ok:
                mism.append({"case": i, "why": "n = 1 must be bit-exact", "input": cj(c), "lean_lin": lin[0].tolist(),
                             "real_lin": real_lin.tolist(), "lean_geom": geo[0].tolist(), "real_geom": real_geo.tolist()})
            continue
        for name, reps, real in (("lin", lin, real_lin), ("geom", geo, real_geo)):
            spread = max(float(np.max(np.abs(reps[a] - reps[b]))) for a, b in ((0, 1), (0, 2), (1, 2)))
            if not spread <= tol:
                # for the geometry step the two candidates can tie in |c + g.s| (e.g. c = 0): a legal branch tie
                st[name + "_skipped_branch_tie"] += 1
                continue
            st[name + "_compared"] += 1
            st[name + "_bit_exact"] += same_value(reps[0], real)
            for k, r in enumerate(reps):
                dd = float(np.max(np.abs(r - real)))
                st["max_rel_diff"] = max(st["max_rel_diff"], dd / c["Delta"])
                if not dd <= tol:
                    mism.append({"case": i, "what": name, "variant": "LRN"[k], "why": "differs beyond 1e-7 Delta",
                                 "diff_over_Delta": dd / c["Delta"], "input": cj(c), "lean": r.tolist(), "real": real.tolist()})
                    break
    nn = max(1, ncase - st["n1_cases"])
    st["lin_skip_rate"] = round(st["lin_skipped_branch_tie"] / nn, 4)
    st["geom_skip_rate"] = round(st["geom_skipped_branch_tie"] / nn, 4)
    ctx.cov["correspondence_trsbox_linear_geometry"] = st
    ctx.add_sample({"kind": "trsbox_geometry correspondence case", "input": cj(cases[1]), "lean_reply_L": replies[9][:160]})
    for mm in mism[:5]:
        ctx.broke("correspondence:trsbox_linear/geometry-vs-Lean-kernel", mm)
    ctx._c13_mismatch = mism


# ----------------------------------------------------------------------------------------------
# a real Controller with a random model
# ----------------------------------------------------------------------------------------------
def soft_threshold(lam):
    def prox(x, u):
        return np.sign(x) * np.maximum(np.abs(x) - lam * u, 0.0)
    return prox


def make_controller(rng, with_h, with_proj, bad=None, hmode="l1"):
    """returns (control, params, info) — a real dfols Controller; the interpolation model (model_const, model_jac)
    and the incumbent are set directly to random data."""
    from dfols.controller import Controller
    from dfols.params import ParameterList
    from dfols.util import pball, pbox
    n = int(rng.integers(1, 5))
    m = int(rng.integers(1, 6))
    npt = n + 1
    x0 = np.round(rng.normal(size=n), 2)
    r0 = rng.normal(size=m)
    lam = float(10.0 ** rng.uniform(-2, 1))
    if with_h:
        if hmode == "l1":
            h = lambda x: lam * float(np.sum(np.abs(x)))
        elif hmode == "nan":
            h = lambda x: float("nan")
        else:
            h = lambda x: lam * float(np.sum(np.abs(x)))
        lh = lam * math.sqrt(n)
        prox = soft_threshold(lam)
    else:
        h = lh = prox = None
    if with_proj:
        xl = -1e20 * np.ones(n)
        xu = 1e20 * np.ones(n)
        cen = x0 + rng.normal(size=n)
        rad = float(np.linalg.norm(x0 - cen) * (1 + rng.random()) + 0.1)
        a = rng.normal(size=n)
        bb = float(a @ x0 + abs(rng.normal()))
        projs = [lambda x, cen=cen, rad=rad: pball(x, cen, rad)]
        if rng.random() < 0.5:
            projs.append(lambda x, a=a, bb=bb: x - max(0.0, (a @ x - bb)) / (a @ a) * a)
    else:
        xl = x0 - np.abs(rng.normal(size=n)) * rng.choice([0.0, 0.01, 1.0, 1e20], size=n)
        xu = x0 + np.abs(rng.normal(size=n)) * rng.choice([0.0, 0.01, 1.0, 1e20], size=n)
        xu = np.maximum(xu, xl + 1e-3)
        projs = []
    params = ParameterList(n, npt, 100)
    params("func_tol.max_iters", new_value=int(rng.integers(5, 80)))
    rhobeg = float(10.0 ** rng.uniform(-3, 1))
    scaling = None
    if with_h and not with_proj and rng.random() < 0.4:
        # scaling_within_bounds: internal coordinates in [0, 1], h sees the user's coordinates
        lo = np.round(rng.normal(size=n), 2)
        width = 10.0 ** rng.uniform(-1, 1.3, size=n)
        scaling = (lo.copy(), width.copy(), lo.copy(), lo + width)
        xl, xu = np.zeros(n), np.ones(n)
        x0 = rng.uniform(0.05, 0.95, size=n)
        rhobeg = float(10.0 ** rng.uniform(-3, -1))
    control = Controller(lambda x: x, (), x0, r0, 1, xl, xu, projs, npt, rhobeg, 1e-8, 1, 1, 100, params, scaling, False,
                         h=h, lh=lh, argsh=(), prox_uh=prox, argsprox=())
    md = control.model
    J = rng.normal(size=(m, n)) * 10.0 ** rng.uniform(-2, 2)
    rc = rng.normal(size=m) * 10.0 ** rng.uniform(-2, 2)
    if bad == "nan":
        J[rng.integers(m), rng.integers(n)] = float("nan")
    elif bad == "inf":
        rc[rng.integers(m)] = float("inf")
    md.model_jac = J
    md.model_const = rc
    control.delta = rhobeg * float(10.0 ** rng.uniform(-1, 1))
    return control, params, {"n": n, "m": m, "lam": lam, "delta": control.delta, "scaled": scaling is not None}


def pred_reduction_pkg(control, gopt, H, d):
    """the number the code itself compares with 0 (input of the decision correspondence)"""
    from dfols.util import model_value, remove_scaling
    x = control.model.xopt(abs_coordinates=True)
    return control.h(remove_scaling(x, control.scaling_changes), *control.argsh) - model_value(gopt, H, d, x, control.h, control.argsh,
                                                                                               control.scaling_changes)


def pred_reduction_of(control, gopt, H, d):
    """h(x) - [d.(g + H d / 2) + h(x + d)], h evaluated in the USER's coordinates — computed here, not with the
    package's model_value (the quantity whose sign the property is about must not be taken from the code under test)"""
    x = control.model.xopt(abs_coordinates=True)
    sc = control.scaling_changes

    def user(z):
        if sc is None:
            return z
        raw = sc[0] + z * sc[1]
        return np.minimum(np.maximum(raw, sc[2]), sc[3]) if len(sc) > 2 else raw
    quad = float(np.dot(d, gopt + 0.5 * H.dot(d)))
    h0 = control.h(user(x), *control.argsh)
    h1 = control.h(user(x + d), *control.argsh)
    pr = h0 - (quad + h1)
    if pr == pr and abs(pr) <= 1e-10 * (abs(h0) + abs(h1) + abs(quad)) :
        return 0.0      # within rounding of the comparison the code makes with its own summation order
    return pr


# ----------------------------------------------------------------------------------------------
# correspondence 2: decision logic of trust_region_step
# ----------------------------------------------------------------------------------------------
def corr_decision(ctx):
    core.import_dfols()
    import dfols.controller as dc
    ncase = ctx.scale(160, 1200)
    lines, real, descr = [], [], []
    orig = (dc.trsbox, dc.ctrsbox_pgd, dc.ctrsbox_sfista)
    try:
        for i in range(ncase):
            rng = np.random.default_rng([ctx.seed, 1313, i])
            with_h = bool(rng.random() < 0.6)
            with_proj = bool(rng.random() < 0.5)
            bad = [None, None, None, "nan", "inf"][int(rng.integers(5))]
            mode = ["uphill", "downhill", "nan", "zero-ish"][int(rng.integers(4))]
            control, params, info = make_controller(rng, with_h, with_proj, bad=bad)
            gopt, H = control.model.build_full_model()
            called = []
            n = info["n"]

            def craft():
                if mode == "nan":
                    d = np.full(n, float("nan"))
                elif mode == "uphill":
                    gg = np.where(np.isfinite(gopt), gopt, 1.0)
                    d = control.delta * (gg / (np.linalg.norm(gg) + 1e-300)) + 1e-3 * control.delta
                elif mode == "downhill":
                    gg = np.where(np.isfinite(gopt), gopt, 1.0)
                    d = -1e-3 * control.delta * gg / (np.linalg.norm(gg) + 1e-300) + 1e-9 * control.delta
                else:
                    d = np.full(n, 1e-300)
                return d

            crafted = craft()

            def rec(name):
                def f(*a, **k):
                    if name == "sfista":
                        called.append("sfista" if a[3] is control.model.projections else "sfista-box")
                    else:
                        called.append(name)
                    return crafted.copy(), np.zeros(n), 0.0
                return f
            dc.trsbox, dc.ctrsbox_pgd, dc.ctrsbox_sfista = rec("trsbox"), rec("pgd"), rec("sfista")
            is_bad = not (np.all(np.isfinite(gopt)) and np.all(np.isfinite(H)))
            norm_raised = False
            try:
                d, _g, _H, _gn, _crv = control.trust_region_step(params)
            except np.linalg.LinAlgError:
                # controller.py:513 np.linalg.norm(H, 2) on a non-finite H (LAPACK): the guards at 519/531 are not reached
                norm_raised = True
                d = None
                if np.all(np.isfinite(H)):
                    ctx.broke("correspondence:trust_region_step-decision", {"case": i, "why": "LinAlgError although H is finite"})
            solver = "linalg-error" if norm_raised else (called[0] if called else "zero")
            if len(called) > 1:
                ctx.broke("correspondence:trust_region_step-decision", {"case": i, "why": "more than one solver called", "called": called})
            if with_h and called and not norm_raised:
                pr = pred_reduction_pkg(control, gopt, H, crafted)
            else:
                pr = float("nan")
            zeroed = (d is not None) and bool(called) and bool(np.all(d == 0.0)) and not bool(np.all(crafted == 0.0))
            lines.append("trstep %d %d %d %d %s" % (with_h, with_proj, is_bad, norm_raised, fkey(pr)))
            real.append("ok solver=%s zero=%d" % (solver, 1 if zeroed else 0))
            descr.append((with_h, with_proj, is_bad, mode, solver, zeroed))
            ctx.seen(("c13dec", i, with_h, with_proj, is_bad, mode))
    finally:
        dc.trsbox, dc.ctrsbox_pgd, dc.ctrsbox_sfista = orig
    replies = core.run_driver(lines, main="TrsMain.lean", timeout=600)
    bad_n = 0
    mix = {}
    for i, (rep, want) in enumerate(zip(replies, real)):
        mix[descr[i][4] + ("/zeroed" if descr[i][5] else "")] = mix.get(descr[i][4] + ("/zeroed" if descr[i][5] else ""), 0) + 1
        if rep != want:
            bad_n += 1
            if bad_n <= 3:
                ctx.broke("correspondence:trust_region_step-decision", {"case": i, "line": lines[i], "lean": rep, "real": want, "descr": str(descr[i])})
    ctx.cov["correspondence_trust_region_step_decision"] = {"cases": ncase, "mismatches": bad_n, "mix": mix}


def correspondence(ctx):
    corr_kernels(ctx)
    corr_decision(ctx)


# ----------------------------------------------------------------------------------------------
# search
# ----------------------------------------------------------------------------------------------
def oracle_min(g, a, b, Delta):
    """min g.s over a <= s <= b, ||s|| <= Delta (a <= 0 <= b): the minimiser is s(t) = clip(-t g, a, b) for the largest t with
    ||s(t)|| <= Delta (t = inf if the whole clipped ray stays in the ball); bisection on t."""
    nz = g != 0.0
    if not np.any(nz):
        return 0.0
    s_inf = np.where(g < 0.0, b, np.where(g > 0.0, a, 0.0))        # limit of clip(-t g) as t -> inf
    if math.sqrt(float(s_inf @ s_inf)) <= Delta:
        return float(g @ s_inf)
    f = lambda t: np.clip(-t * g, a, b)
    lo, hi = 0.0, Delta / float(np.min(np.abs(g[nz])))              # at hi every moving coordinate is clipped or beyond Delta
    for _ in range(110):
        mid = 0.5 * (lo + hi)
        sm = f(mid)
        if math.sqrt(float(sm @ sm)) <= Delta:
            lo = mid
        else:
            hi = mid
    return float(g @ f(lo))


def check_geom(trsbox_geometry, c):
    xbase, cc, g, lower, upper, Delta = c["xbase"], c["c"], c["g"], c["lower"], c["upper"], c["Delta"]
    try:
        x = trsbox_geometry(xbase.copy(), cc, g.copy(), lower.copy(), upper.copy(), Delta)
    except Exception as e:
        return ("C13:trsbox_geometry-raises", "trsbox_geometry raised %r" % (e,))
    if not np.all(np.isfinite(x)):
        return ("C13:geometry-non-finite", "non-finite result on finite input")
    tol = 1e-12 * np.maximum.reduce([np.ones_like(x), np.abs(xbase), np.where(np.abs(lower) < 1e19, np.abs(lower), 0.0),
                                      np.where(np.abs(upper) < 1e19, np.abs(upper), 0.0), np.full_like(x, Delta)])
    if np.any(x < lower - tol) or np.any(x > upper + tol):
        i = int(np.argmax(np.maximum(lower - x, x - upper)))
        return ("C13:geometry-box", "coordinate %d outside the box by %.3g (tolerance %.3g)" % (i, max(lower[i] - x[i], x[i] - upper[i]), tol[i]))
    s = x - xbase
    sn = float(np.linalg.norm(s))
    if sn > Delta * (1 + 1e-8) + 4 * np.finfo(float).eps * float(np.linalg.norm(xbase)):
        return ("C13:geometry-ball", "||x - xbase|| = %.17g > Delta = %.17g" % (sn, Delta))
    val = abs(cc + float(g @ s))
    scale = abs(cc) + float(np.linalg.norm(g)) * Delta
    if val < abs(cc) - 1e-12 * scale:
        return ("C13:geometry-worse-than-not-moving", "|c + g.s| = %.12g < |c| = %.12g" % (val, abs(cc)))
    a = np.minimum(lower - xbase, 0.0)
    b = np.maximum(upper - xbase, 0.0)
    vmin = oracle_min(g, a, b, Delta)
    vmax = -oracle_min(-g, a, b, Delta)
    best = max(abs(cc + vmin), abs(cc + vmax))
    # The code drops gradient components with |g_i| < ZERO_THRESH = 1e-14 (trust_region.py:645-646, "If g[i] = 0, never step
    # along this direction"): it optimises g' = thresholded g, and |g.s - g'.s| <= ZT ||s||_1 <= ZT sqrt(n) Delta for every feasible s.
    # Hence the absolute slack 2 ZT sqrt(n) Delta (stated in the evidence; it matters only when ||g||_inf is itself ~1e-14).
    zt_slack = 2 * ZT * math.sqrt(len(g)) * Delta
    if val < best * (1 - 1e-6) - 1e-12 * scale - zt_slack:
        return ("C13:geometry-not-global-max", "|c + g.s| = %.12g but the clipped-ray oracle reaches %.12g" % (val, best))
    if val < best * (1 - 1e-6) - 1e-12 * scale:
        return ("subthreshold", None)
    return None


def rand_sets(rng, n, centre, delta_hint=1.0):
    """convex sets containing `centre`"""
    from dfols.util import pball, pbox
    P, names = [], []
    if n >= 2 and rng.random() < 0.3:
        # a thin wedge: two or three nearly parallel half-space cuts through (or just beyond) the centre — Dykstra converges
        # slowly on it and may stop at its sweep limit, which is when the ORDER of the sets in a sweep decides the result
        a0 = rng.normal(size=n)
        a0 /= np.linalg.norm(a0)
        same_side = bool(rng.random() < 0.8)
        for j in range(int(rng.integers(2, 4))):
            a = a0 + rng.normal(size=n) * 10.0 ** rng.uniform(-1.7, -0.9)
            sgn = 1.0 if (j % 2 == 0 or same_side) else -1.0     # same side (nested cuts) or alternate sides (thin slab)
            a = sgn * a
            bb = float(a @ centre + delta_hint * rng.choice([0.0, 0.0, 0.1, 0.3]))
            P.append(lambda x, a=a, bb=bb: x - max(0.0, (a @ x - bb)) / (a @ a) * a)
            names.append("wedge-halfspace")
        return P, names
    for _ in range(int(rng.integers(0, 4))):
        k = int(rng.integers(3))
        if k == 0:
            cen = centre + rng.normal(size=n) * 10.0 ** rng.uniform(-2, 1)
            rad = float(np.linalg.norm(centre - cen) * (1 + rng.random() * rng.choice([0.0, 1e-6, 1.0])) + 1e-12)
            P.append(lambda x, cen=cen, rad=rad: pball(x, cen, rad))
            names.append("ball")
        elif k == 1:
            a = rng.normal(size=n)
            bb = float(a @ centre + abs(rng.normal()) * rng.choice([0.0, 1e-8, 1.0]))
            P.append(lambda x, a=a, bb=bb: x - max(0.0, (a @ x - bb)) / (a @ a) * a)
            names.append("halfspace")
        else:
            lo = centre - np.abs(rng.normal(size=n)) * rng.choice([0.0, 1e-6, 1.0, 1e20], size=n)
            hi = centre + np.abs(rng.normal(size=n)) * rng.choice([0.0, 1e-6, 1.0, 1e20], size=n)
            P.append(lambda x, lo=lo, hi=hi: pbox(x, lo, hi))
            names.append("box")
    return P, names


def fail_once(ctx, sig, what, replay):
    """one replay per signature; returns the number of distinct signatures recorded so far"""
    seen = getattr(ctx, "_c13_sigs", None)
    if seen is None:
        seen = ctx._c13_sigs = {}
    seen[sig] = seen.get(sig, 0) + 1
    if seen[sig] == 1:
        ctx.fail(sig, what, replay)
    return len(seen)


def search_convex(ctx):
    from dfols.trust_region import ctrsbox_pgd, ctrsbox_sfista, ctrsbox_geometry
    ncase = ctx.scale(600, 4000) * getattr(ctx, "boost", 1)
    st = {"pgd": 0, "sfista": 0, "cgeom": 0, "sets": {}, "max_norm_over_Delta": 0.0, "alarms": 0, "raised": {}}
    for i in range(ncase):
        rng = np.random.default_rng([ctx.seed, 1302, i])
        n = int(rng.integers(1, 4))
        xopt = np.round(rng.normal(size=n), 2) * 10.0 ** rng.integers(-1, 2)
        Delta = float(10.0 ** rng.uniform(-3, 2))
        P, names = rand_sets(rng, n, xopt, delta_hint=Delta)
        for nm in names:
            st["sets"][nm] = st["sets"].get(nm, 0) + 1
        g = rng.normal(size=n) * 10.0 ** rng.uniform(-3, 3)
        if "wedge-halfspace" in names:
            g = g / max(float(np.linalg.norm(g)), 1e-300) * Delta * 10.0 ** rng.uniform(0.8, 2.2)
        A = rng.normal(size=(int(rng.integers(1, n + 2)), n))
        H = (A.T @ A) * 10.0 ** rng.uniform(-3, 2) if rng.random() < 0.8 else np.zeros((n, n))
        if rng.random() < 0.3:
            # late-iteration geometry: a SMALL radius, only the trust-region ball (plus a far-away box) as constraint, and a model
            # whose unconstrained minimiser lies 0.5 .. 5 radii away — the trial points are then within ~1e-5 (absolute) of the
            # ball, where an "already feasible within tolerance" shortcut in the projection would let them through unprojected
            Delta = float(10.0 ** rng.uniform(-7, -3.5))
            sH = float(10.0 ** rng.uniform(-1, 1))
            H = sH * np.eye(n)
            g = rng.normal(size=n)
            g = g / max(float(np.linalg.norm(g)), 1e-300) * sH * Delta * float(10.0 ** rng.uniform(-0.3, 0.7))
            P, names = [lambda x, lo=xopt - 1.0, hi=xopt + 1.0: np.minimum(np.maximum(x, lo), hi)], ["small-radius-far-box"]
            st["sets"]["small-radius-far-box"] = st["sets"].get("small-radius-far-box", 0) + 1
        which = i % 3
        ctx.seen(("c13convex", i, which, n, tuple(names)))
        try:
            if which == 0:
                st["pgd"] += 1
                d = core.with_alarm(20, lambda: ctrsbox_pgd(xopt.copy(), g.copy(), H.copy(), P, Delta, d_max_iters=100, d_tol=1e-10)[0])
                name = "ctrsbox_pgd"
            elif which == 1:
                st["sfista"] += 1
                lam = float(10.0 ** rng.uniform(-2, 1))
                h = lambda x: lam * float(np.sum(np.abs(x)))
                d = core.with_alarm(20, lambda: ctrsbox_sfista(xopt.copy(), g.copy(), H.copy(), P, Delta, h, lam * math.sqrt(n), soft_threshold(lam),
                                                               argsh=(), argsprox=(), func_tol=float(10.0 ** rng.uniform(-4, -1)) * Delta,
                                                               max_iters=int(rng.integers(3, 120)),
                                                               sfista_iters_scale=float(rng.choice([1.0, 2.0, 5.0])))[0])
                name = "ctrsbox_sfista"
            else:
                st["cgeom"] += 1
                cc = float(rng.choice([0.0, 1.0, rng.normal()]))
                d = core.with_alarm(20, lambda: ctrsbox_geometry(xopt.copy(), cc, g.copy(), P, Delta))
                name = "ctrsbox_geometry"
        except core.Alarm:
            st["alarms"] += 1
            continue
        except Exception as e:   # outside this property (C06 owns the regularised solver's exceptions); counted
            st["raised"][type(e).__name__] = st["raised"].get(type(e).__name__, 0) + 1
            continue
        dn = float(np.linalg.norm(d))
        if np.isfinite(dn):
            st["max_norm_over_Delta"] = max(st["max_norm_over_Delta"], dn / Delta)
        # (the step is computed as projected point minus xopt: its rounding error is half an ulp of |xopt| per component, which
        #  at radii of 1e-7 is more than 1e-8 relative — first version of the small-radius family: false alarm at seed 2)
        if not dn <= Delta * (1 + 1e-8) + 4 * np.finfo(float).eps * math.sqrt(n) * float(np.max(np.abs(xopt)) + Delta):
            if dn != dn and name == "ctrsbox_pgd" and not np.any(H):
                sig = "C13:ctrsbox_pgd:nan-step-zero-hessian"
                what = ("ctrsbox_pgd returns d = NaN when H = 0 (trust_region.py:186 L = ||H||_2 = 0, :204 (1/L)*gy); minimal: "
                        "ctrsbox_pgd(np.zeros(1), np.array([1.0]), np.zeros((1,1)), [], 1.0)")
            else:
                sig = "C13:%s-outside-ball" % name
                what = "%s returned ||d|| = %.17g > Delta (1+1e-8), Delta = %.17g" % (name, dn, Delta)
            st["failing_calls"] = st.get("failing_calls", 0) + 1
            if fail_once(ctx, sig, what, {"kind": "convex", "seed": [ctx.seed, 1302, i], "index": i,
                                          "input": {"xopt": xopt.tolist(), "g": g.tolist(), "H": H.tolist(), "Delta": Delta, "sets": names}}) >= 6:
                break
    ctx.cov["search_convex_solvers"] = st


def search_tr_step(ctx):
    ncase = ctx.scale(300, 1200) * getattr(ctx, "boost", 1)
    st = {"cases": 0, "zero_step_returned": 0, "positive": 0, "nan_pred_reduction": 0, "alarms": 0, "raised": {}, "min_pred_reduction": 0.0}
    for i in range(ncase):
        rng = np.random.default_rng([ctx.seed, 1303, i])
        with_proj = bool(rng.random() < 0.5)
        bad = [None] * 8 + ["nan", "inf"]
        hmode = "nan" if rng.random() < 0.06 else "l1"      # a regulariser returning NaN: can a NaN prediction keep a non-zero step?
        control, params, info = make_controller(rng, True, with_proj, bad=bad[int(rng.integers(10))], hmode=hmode)
        ctx.seen(("c13trstep", i, with_proj, info["n"], info["m"], hmode))
        st["scaled"] = st.get("scaled", 0) + int(info.get("scaled", False))
        try:
            d, gopt, H, gnew, crvmin = core.with_alarm(30, lambda: control.trust_region_step(params))
        except core.Alarm:
            st["alarms"] += 1
            continue
        except Exception as e:   # C06's business (regularised solver raising); counted, not a C13 failure
            st["raised"][type(e).__name__] = st["raised"].get(type(e).__name__, 0) + 1
            continue
        st["cases"] += 1
        pr = float(pred_reduction_of(control, gopt, H, d))
        if pr != pr:
            st["nan_pred_reduction"] += 1
            if np.any(d != 0.0):
                st["nan_pred_reduction_nonzero_step_kept"] = st.get("nan_pred_reduction_nonzero_step_kept", 0) + 1
                st.setdefault("nan_kept_when", set()).add("h returns NaN" if hmode == "nan" else "finite h")
        elif pr < 0.0:
            fail_once(ctx, "C13:trust_region_step-negative-predicted-reduction",
                      "regularised step returned with predicted reduction %.6g < 0" % pr,
                      {"kind": "trstep", "seed": [ctx.seed, 1303, i], "index": i})
        else:
            st["min_pred_reduction"] = min(st["min_pred_reduction"], pr)
            if np.all(d == 0.0):
                st["zero_step_returned"] += 1
            else:
                st["positive"] += 1
    if "nan_kept_when" in st:
        st["nan_kept_when"] = sorted(st["nan_kept_when"])
    if st["raised"].get("LinAlgError"):
        ctx.notes.append("side finding (C08/C07, not a C13 clause): controller.py:513 np.linalg.norm(H, 2) raised LinAlgError on a non-finite H in %d "
                         "trust_region_step calls, before the NaN guards at :519/:531 are reached" % st["raised"]["LinAlgError"])
    ctx.cov["search_trust_region_step"] = st


def search(ctx):
    core.import_dfols()
    from dfols.trust_region import trsbox_geometry
    ncase = ctx.scale(6000, 60000) * getattr(ctx, "boost", 1)
    tags = {"n": {}, "kinds": {}, "c_zero": 0}
    seeds = [cfj(mm["input"], GEOM_KEYS) for mm in getattr(ctx, "_c13_mismatch", [])[:20] if "input" in mm]
    for i in range(ncase + len(seeds)):
        if i < len(seeds):
            c = seeds[i]
        else:
            rng = np.random.default_rng([ctx.seed, 1300, i])
            c = gen_geom(rng)
        ctx.seen(("c13geom", i, c["n"]))
        tags["n"][c["n"]] = tags["n"].get(c["n"], 0) + 1
        tags["c_zero"] += c["c"] == 0.0
        for k in c["kinds"]:
            tags["kinds"][k] = tags["kinds"].get(k, 0) + 1
        res = check_geom(trsbox_geometry, c)
        if res is not None and res[0] == "subthreshold":
            tags["limited_by_ZERO_THRESH_on_g"] = tags.get("limited_by_ZERO_THRESH_on_g", 0) + 1
            continue
        if res is not None:
            tags["failing_inputs"] = tags.get("failing_inputs", 0) + 1
            if fail_once(ctx, res[0], res[1], {"kind": "geom", "case": cj(c)}) >= 6:
                break
    ctx.cov["search_trsbox_geometry"] = {"inputs": ncase, "grid": tags,
                                         "tolerances": {"box": "1e-12 max(1,|xbase|,|bound|,Delta)", "ball": "Delta(1+1e-8) + 4 eps |xbase|",
                                                        "global max": "1e-6 relative + 1e-12 (|c|+|g|Delta) + 2 ZERO_THRESH sqrt(n) Delta (code ignores |g_i| < 1e-14; cases needing this term are counted as limited_by_ZERO_THRESH_on_g)", "not worse": "1e-12 (|c|+|g|Delta)"}}
    search_convex(ctx)
    search_tr_step(ctx)


def replay(payload):
    core.import_dfols()
    rp = payload.get("replay", {})
    kind = rp.get("kind")
    if kind == "geom":
        from dfols.trust_region import trsbox_geometry
        res = check_geom(trsbox_geometry, cfj(rp["case"], GEOM_KEYS))
        if res is None or res[0] == "subthreshold":
            print("replay: property holds on this input now")
            return 0
        print("replay: still fails:", res[0], res[1])
        return 1
    if kind in ("convex", "trstep"):
        ctx = core.Ctx("C13", "quick", rp["seed"][0])
        ctx.boost = 1
        idx = rp["index"]
        # re-run exactly that index by shrinking the loop to it
        fn = search_convex if kind == "convex" else search_tr_step
        old_scale = ctx.scale
        ctx.scale = lambda q, t: idx + 1
        fn(ctx)
        bad = [f for f in ctx.failures if f.replay.get("index") == idx]
        if not bad:
            print("replay: property holds on this input now")
            return 0
        print("replay: still fails:", bad[0].signature, bad[0].what)
        return 1
    print("replay file names a broken obligation, nothing to execute:", payload.get("broken"))
    return 1
