"""C06 — Convex regularised least squares converges to the regularised optimum.  PARTIAL

Correspondence: (a) the box projector the Controller hands to ctrsbox_sfista (captured by wrapping ctrsbox_sfista in the
controller namespace) is compared bit for bit with the Lean Float clip onto [xbase+sl, xbase+su] on random absolute
points; (b) every h / prox_uh call of real runs carries the caller's argsh / argsprox objects (sentinels, identity).
Search: end-to-end against long-run proximal-gradient oracles for L1 and L2-norm regularisers, with and without
bounds, lambda over several decades, argsh/argsprox calling convention.
"""
import numpy as np
import core
from core import fbits_raw, fbits

MODULE = "DfolsVerif.Properties.C06"
BUILD_TARGETS = ["DfolsVerif.Driver.ClipDrv", "DfolsVerif.Driver.SfistaDrv"]
def pre_build(ctx):
    import gen_hcalls
    import gen_sfista
    ctx.cov["regulariser_calls_in_repo"] = gen_hcalls.regenerate(ctx)
    gen_sfista.regenerate(ctx)
    import gen_mainccalls
    gen_mainccalls.regenerate(ctx)


THEOREMS = ["Dfols.C06.C06_src_h_calls", "Dfols.C06.C06_box_frame", "Dfols.C06.C06_old_wrong_box", "Dfols.C06.C06_args_passthrough",
            "Dfols.C06.C06_sfista_parameters", "Dfols.C06.C06_sfista_returns_bound_names", "Dfols.C06.C06_src_restart_keeps_regulariser"]
TRUSTED_EXTRA = [
    "PARTIAL: convergence to F* within 1e-3(1+F*) and the success flag are NOT proved (outer iteration + S-FISTA with rounding): end-to-end search only",
    "oracles: FISTA with the exact prox of lambda*|x|_1 + box (20000 iterations); L-BFGS-B on the 1e-14-smoothed L2-norm regulariser",
    "scaling_within_bounds + regulariser is excluded (limitation named in the property)",
]


def fista_l1_box(A, b, lam, lo, hi, iters=20000):
    n = A.shape[1]
    L = 2 * np.linalg.norm(A, 2) ** 2 + 1e-12
    x = np.clip(np.zeros(n), lo, hi)
    y, t = x.copy(), 1.0
    for _ in range(iters):
        v = y - 2 * A.T @ (A @ y - b) / L
        xn = np.clip(np.sign(v) * np.maximum(np.abs(v) - lam / L, 0), lo, hi)
        tn = (1 + np.sqrt(1 + 4 * t * t)) / 2
        y = xn + (t - 1) / tn * (xn - x)
        x, t = xn, tn
    return x, float(np.sum((A @ x - b) ** 2) + lam * np.sum(np.abs(x)))


def lbfgs_l2_box(A, b, lam, lo, hi):
    import scipy.optimize as so
    eps = 1e-14

    def F(x):
        r = A @ x - b
        nx = np.sqrt(x @ x + eps)
        return float(r @ r + lam * nx), 2 * A.T @ r + lam * x / nx
    best = None
    for x0 in (np.clip(np.zeros(A.shape[1]), lo, hi), np.clip(np.linalg.lstsq(A, b, rcond=None)[0], lo, hi)):
        res = so.minimize(F, x0, jac=True, method="L-BFGS-B", bounds=list(zip(lo, hi)), options={"maxiter": 5000, "ftol": 1e-15, "gtol": 1e-12})
        val = float(np.sum((A @ res.x - b) ** 2) + lam * np.linalg.norm(res.x))
        if best is None or val < best[1]:
            best = (res.x, val)
    return best


def instance(rng):
    n = int(rng.integers(1, 5))
    m = n + int(rng.integers(0, 3))
    # well-conditioned A
    U, _ = np.linalg.qr(rng.normal(size=(m, m)))
    V, _ = np.linalg.qr(rng.normal(size=(n, n)))
    s = 10 ** rng.uniform(-0.5, 0.5, size=n)
    A = U[:, :n] @ np.diag(s) @ V.T
    b = rng.normal(size=m)
    lam = float(10 ** rng.uniform(-2.5, 0.7))
    x0 = rng.normal(size=n)
    if rng.random() < 0.2:
        # warm start from the UNREGULARISED fit of a consistent system: zero residual at x0, but F(x0) = h(x0) > F*
        x0 = np.round(rng.normal(size=n), 1) + 0.5
        b = A @ x0
    kind = "l1" if rng.random() < 0.5 else "l2"
    bounded = rng.random() < 0.5
    if bounded:
        lo = x0 - 0.5 - rng.random(n) * 1.5
        hi = x0 + 0.5 + rng.random(n) * 1.5
    else:
        lo, hi = -1e20 * np.ones(n), 1e20 * np.ones(n)
    u = rng.random()
    # option variants under which the stored objective of a point is recomputed: sample averaging (a deterministic objective
    # sampled twice) and soft restarts that append points to a full interpolation set
    variant = "nsamples2" if u < 0.15 else ("soft-restarts-increase-npt" if u < 0.3 else ("momentum-extra-steps" if (u < 0.42 and bounded) else "default"))
    if 0.42 <= u < 0.5:
        # hard restarts that re-evaluate the starting point (documented options): the restarted run must see the regulariser too
        variant = "hard-restarts-fresh-rk"
    elif 0.5 <= u < 0.58:
        # the documented noise-level exit, started from the UNregularised least-squares fit (residual smaller than at the
        # solution, F larger): 'all points within noise level' must be judged on the regularised objective
        variant = "noise-level-warm-start"
        x0 = np.linalg.lstsq(A, b, rcond=None)[0]
        if bounded:
            lo = x0 - 0.5 - rng.random(n) * 1.5
            hi = x0 + 0.5 + rng.random(n) * 1.5
    elif 0.58 <= u < 0.66:
        # consistent data whose exact solution is one of the coordinate points of the initial set (x0 + rhobeg e_j): the residual
        # vanishes there while the regularised objective is far from F* - 'objective is sufficiently small' must be judged on
        # sum(r^2) + h, also for points evaluated after x0 (seeded change C06_10)
        variant = "zero-residual-at-init-point"
        x0 = np.round(rng.normal(size=n), 1) + 0.5
        rb = 0.1 * max(float(np.max(np.abs(x0))), 1.0)
        xg = x0.copy()
        xg[int(rng.integers(0, n))] += rb
        b = A @ xg
        lam = float(10 ** rng.uniform(-0.5, 0.5))
        if bounded:
            lo = x0 - 0.5 - rng.random(n) * 1.5
            hi = x0 + 0.5 + rng.random(n) * 1.5
    with_args = bool(rng.random() < 0.5)
    if u >= 0.82:
        return near_face_instance(rng, with_args)
    return dict(n=n, m=m, A=A, b=b, lam=lam, x0=x0, kind=kind, bounded=bounded, lo=lo, hi=hi, with_args=with_args,
                variant=variant)


def near_face_instance(rng, with_args):
    """L1-regularised fit in a box whose faces pass CLOSE to the regularised minimiser on the side where h decreases (towards 0)
    without being active there, started from inside the box, with the documented 'momentum' extra regression steps: the flipped
    momentum directions then cross those faces, so a stored objective whose h part is taken at an unclipped point shows up.
    On the unchanged tree these runs end with flag 0 at F* (0 of 300 instances otherwise when the family was introduced), so
    they are judged in full."""
    n = int(rng.integers(2, 5))
    m = n + int(rng.integers(1, 4))
    U, _ = np.linalg.qr(rng.normal(size=(m, m)))
    V, _ = np.linalg.qr(rng.normal(size=(n, n)))
    A = U[:, :n] @ np.diag(10 ** rng.uniform(-0.3, 0.3, size=n)) @ V.T
    xt = rng.choice([-1.0, 1.0], size=n) * rng.uniform(1.0, 2.5, size=n)
    b = A @ xt + 0.1 * rng.normal(size=m)
    lam = float(10 ** rng.uniform(-0.5, 0.3))
    big = 1e20 * np.ones(n)
    xs, _ = fista_l1_box(A, b, lam, -big, big)
    lo, hi, x0 = xs - 3.0, xs + 3.0, xs.copy()
    for i in range(n):
        sg = 1.0 if xs[i] > 0 else -1.0
        gap = rng.uniform(0.02, 0.08)
        if abs(xs[i]) > 0.3:
            if sg > 0:
                lo[i] = xs[i] - gap
            else:
                hi[i] = xs[i] + gap
        x0[i] = xs[i] + sg * rng.uniform(0.3, 0.9)
    return dict(n=n, m=m, A=A, b=b, lam=lam, x0=x0, kind="l1", bounded=True, lo=lo, hi=hi, with_args=with_args,
                variant="momentum-near-face", npt=(n + 1 if rng.random() < 0.5 else 2 * n + 1))


class Sentinel:
    pass


def run_instance(dfols, I):
    A, b, lam = I["A"], I["b"], I["lam"]
    sa, sp = Sentinel(), Sentinel()
    calls = {"h": 0, "prox": 0, "bad": []}
    if I["kind"] == "l1":
        hfun = lambda x: lam * float(np.sum(np.abs(x)))
        pfun = lambda x, u: np.sign(x) * np.maximum(np.abs(x) - lam * u, 0.0)
        lh = lam * np.sqrt(I["n"])
    else:
        hfun = lambda x: lam * float(np.linalg.norm(x))
        def pfun(x, u):
            nx = np.linalg.norm(x)
            return np.zeros_like(x) if nx <= lam * u else (1 - lam * u / nx) * x
        lh = lam
    if I["with_args"]:
        def h(x, a1, a2):
            calls["h"] += 1
            if a1 is not sa or a2 != 7:
                calls["bad"].append("h got %r" % ((a1, a2),))
            return hfun(x)

        def prox(x, u, a1):
            calls["prox"] += 1
            if a1 is not sp:
                calls["bad"].append("prox got %r" % (a1,))
            return pfun(x, u)
        kw = dict(argsh=(sa, 7), argsprox=(sp,))
    else:
        def h(x):
            calls["h"] += 1
            return hfun(x)

        def prox(x, u):
            calls["prox"] += 1
            return pfun(x, u)
        kw = {}
    if I["bounded"]:
        kw["bounds"] = (I["lo"], I["hi"])
    if I.get("variant") == "nsamples2":
        kw["nsamples"] = lambda delta, rho, it, nruns: 2
    elif I.get("variant") == "soft-restarts-increase-npt":
        kw["user_params"] = {"restarts.use_restarts": True, "restarts.increase_npt": True, "restarts.max_npt": I["n"] + 3}
        kw["maxfun"] = 60 * (I["n"] + 1)
    elif I.get("variant") == "momentum-extra-steps":
        # regression set with random 'momentum' extra steps next to the box (documented options): only the consistency of the
        # returned objective is judged for this variant — on the unchanged tree such runs can end with the linear-algebra
        # warning when a bound is active at the solution, which is not this property's business
        kw["npt"] = 2 * I["n"] + 1
        kw["user_params"] = {"regression.num_extra_steps": 2, "regression.momentum_extra_steps": True}
        kw["maxfun"] = 60 * (I["n"] + 1)
    elif I.get("variant") == "hard-restarts-fresh-rk":
        kw["user_params"] = {"restarts.use_restarts": True, "restarts.use_soft_restarts": False, "restarts.hard.use_old_rk": False}
        kw["maxfun"] = 60 * (I["n"] + 1)
    elif I.get("variant") == "noise-level-warm-start":
        kw["user_params"] = {"noise.quit_on_noise_level": True, "noise.additive_noise_level": 1e-6}
    elif I.get("variant") == "momentum-near-face":
        kw["npt"] = I["npt"]
        kw["user_params"] = {"regression.num_extra_steps": 2, "regression.momentum_extra_steps": True}
        kw["maxfun"] = 60 * (I["n"] + 1)
    np.random.seed(0)
    try:
        s = core.with_alarm(90, dfols.solve, lambda x: A @ x - b, I["x0"], h=h, lh=lh, prox_uh=prox, do_logging=False, **kw)
        return s, calls, None
    except BaseException as e:
        return None, calls, e


def sfista_parameters(ctx, dfols):
    """(c) the TRANSLATED parameter block of ctrsbox_sfista, run in IEEE doubles by the Lean driver, against the real function:
    the number of loop iterations (= prox calls / 2: gradient_Fu is evaluated twice per iteration) and the smoothing parameter u
    (second argument of every prox call), bit for bit."""
    import dfols.trust_region as TR
    lines, want = [], []
    for i in range(ctx.scale(60, 600)):
        rng = np.random.default_rng([ctx.seed, 608, i])
        n = int(rng.integers(1, 5))
        B = rng.normal(size=(n, n))
        H = (B + B.T) * float(10 ** rng.uniform(-2, 1)) if rng.random() < 0.8 else np.zeros((n, n))
        g = rng.normal(size=n)
        xopt = rng.normal(size=n)
        delta = float(10 ** rng.uniform(-6, 1))
        lam = float(10 ** rng.uniform(-2, 1))
        lh = lam * float(np.sqrt(n))
        func_tol = float(10 ** rng.uniform(-4, 0)) * delta
        max_iters = int(rng.choice([1, 2, 7, 40, 500]))
        scale = float(rng.choice([1.0, 2.0, 3.5]))
        us = []

        def prox(x, u):
            us.append(float(u))
            return np.sign(x) * np.maximum(np.abs(x) - lam * u, 0.0)
        lo, hi = xopt - 1.0, xopt + 1.0
        TR.ctrsbox_sfista(xopt, g, H, [lambda w: np.minimum(np.maximum(w, lo), hi)], delta, lambda x: lam * float(np.sum(np.abs(x))), lh, prox,
                          func_tol=func_tol, max_iters=max_iters, sfista_iters_scale=scale)
        kH = float(np.linalg.norm(H, 2))
        lines.append("sfista %d %s" % (max_iters, " ".join(fbits_raw(v) for v in (scale, delta, lh, kH, func_tol))))
        want.append((len(us) // 2 if len(us) % 2 == 0 else -1, fbits(us[0]) if us else None, len(set(us))))
        ctx.seen(("c06p", i))
    out = core.run_driver(lines, main="SfistaMain.lean") if lines else []
    mism = 0
    iters = {}
    for l, o, w in zip(lines, out, want):
        parts = o.split()
        iters[w[0]] = iters.get(w[0], 0) + 1
        if len(parts) != 3 or int(parts[0]) != w[0] or parts[1] != w[1] or w[2] != 1:
            mism += 1
            if mism <= 3:
                ctx.broke("correspondence:sfista-parameter-block", {"line": l, "lean(K,u,l)": o, "real(K,u,distinct u)": list(w)})
    ctx.cov["sfista_parameter_correspondence"] = {"calls_compared": len(lines), "mismatches": mism,
                                                  "iteration_counts_seen": {str(k): v for k, v in sorted(iters.items())}}
    if lines:
        ctx.add_sample({"kind": "sfista parameter block", "line": lines[0], "lean": out[0], "real": list(want[0])})


def correspondence(ctx):
    dfols = core.import_dfols()
    import dfols.controller as C
    sfista_parameters(ctx, dfols)
    captured = []
    real = C.ctrsbox_sfista

    def spy(xopt, g, H, projections, delta, *a, **k):
        captured.append((np.array(xopt, copy=True), list(projections)))
        return real(xopt, g, H, projections, delta, *a, **k)
    C.ctrsbox_sfista = spy
    lines, want = [], []
    ncalls = {"h": 0, "prox": 0}
    try:
        for i in range(ctx.scale(6, 40)):
            rng = np.random.default_rng([ctx.seed, 606, i])
            I = instance(rng)
            I["bounded"] = True
            I["lo"] = I["x0"] - 0.5 - rng.random(I["n"])
            I["hi"] = I["x0"] + 0.5 + rng.random(I["n"])
            I["with_args"] = True
            captured.clear()
            # capture the live model through the Controller to know xbase, sl, su at each call
            models = []
            real_init = C.Controller.__init__

            def cinit(self, *a, **k):
                real_init(self, *a, **k)
                models.append(self)
            C.Controller.__init__ = cinit
            try:
                s, calls, exc = run_instance(dfols, I)
            finally:
                C.Controller.__init__ = real_init
            ncalls["h"] += calls["h"]
            ncalls["prox"] += calls["prox"]
            for bad in calls["bad"][:2]:
                ctx.broke("correspondence:args-passthrough", {"instance": i, "detail": bad})
            if exc is not None:
                ctx.broke("correspondence:regularised-run-raised", {"instance": i, "exception": repr(exc)[:300]})
                continue
            ctx.seen(("c06c", i))
            if not models or not captured:
                continue
            md = models[-1].model
            xopt, P = captured[-1]
            lo, hi = md.xbase + md.sl, md.xbase + md.su
            for j in range(30):
                x = xopt + rng.normal(size=len(xopt)) * 2
                y = P[0](x)
                for c in range(len(x)):
                    # Lean: clampless clip = asabs with xbase=0 on [lo, hi]:  min(max(xl, 0 + min(max(lo, x), hi)), xu) with xl=lo, xu=hi
                    lines.append("asabs " + " ".join(fbits_raw(v) for v in (lo[c], hi[c], 0.0, lo[c], hi[c], x[c])))
                    want.append(fbits(y[c]))
    finally:
        C.ctrsbox_sfista = real
    out = core.run_driver(lines, main="ClipMain.lean") if lines else []
    canon = lambda s: "0" if s == str(1 << 63) else s
    mism = [(l, o, w) for l, o, w in zip(lines, out, want) if canon(o) != canon(w)]
    ctx.cov["box_projector_correspondence"] = {"components_compared": len(lines), "mismatches": len(mism)}
    ctx.cov["callback_calls_checked"] = ncalls
    for m in mism[:3]:
        ctx.broke("correspondence:sfista-box-projector", {"line": m[0], "lean": m[1], "real": m[2]})
    if lines:
        ctx.add_sample({"kind": "box projector component", "line": lines[0], "lean": out[0], "real": want[0]})


def search(ctx):
    dfols = core.import_dfols()
    n = ctx.scale(28, 600) * getattr(ctx, "boost", 1)
    stats = {"instances": 0, "l1": 0, "l2": 0, "bounded": 0, "with_args": 0, "ok": 0, "worst_gap": 0.0}
    for i in range(n):
        seed = [ctx.seed, 607, i]
        rng = np.random.default_rng(seed)
        I = instance(rng)
        stats["instances"] += 1
        stats[I["kind"]] += 1
        stats["bounded"] += int(I["bounded"])
        stats["with_args"] += int(I["with_args"])
        ctx.seen(("c06s", i))
        xs, Fs = fista_l1_box(I["A"], I["b"], I["lam"], I["lo"], I["hi"]) if I["kind"] == "l1" else lbfgs_l2_box(I["A"], I["b"], I["lam"], I["lo"], I["hi"])
        s, calls, exc = run_instance(dfols, I)
        tag = "%s|%s|%s" % (I["kind"], "bounded" if I["bounded"] else "unbounded", "args" if I["with_args"] else "noargs")
        if I.get("variant", "default") != "default":
            tag += "|" + I["variant"]
        rp = {"seed": seed}
        if exc is not None:
            ctx.fail("C06:raises:%s|%s" % (type(exc).__name__, tag), "solve raised %r" % (exc,), rp)
            continue
        for bad in calls["bad"][:1]:
            ctx.fail("C06:args-not-passed-through|" + tag, bad, rp)
        # the objective AT the returned point, computed here (soln.obj may be a stale or misplaced stored value)
        rx = I["A"] @ np.asarray(s.x, dtype=float) - I["b"]
        hx = I["lam"] * (float(np.sum(np.abs(s.x))) if I["kind"] == "l1" else float(np.linalg.norm(s.x)))
        Fx = float(rx @ rx) + hx
        if not abs(float(s.obj) - Fx) <= 1e-9 * (1 + abs(Fx)):
            ctx.fail("C06:obj-is-not-F(x)|" + tag, "soln.obj=%r but sum(r^2)+h at soln.x is %r" % (s.obj, Fx), rp)
        gap = max(float(s.obj), Fx) - Fs
        stats["worst_gap"] = max(stats["worst_gap"], gap / (1 + Fs))
        stats[I.get("variant", "default")] = stats.get(I.get("variant", "default"), 0) + 1
        if I.get("variant") == "momentum-extra-steps" and s.flag != 0:
            stats["momentum_runs_not_judged_for_optimality"] = stats.get("momentum_runs_not_judged_for_optimality", 0) + 1
        elif not (gap <= 1e-3 * (1 + Fs)):
            ctx.fail("C06:not-optimal|" + tag, "F(soln.x)=%r but F*=%r (gap %.2e > 1e-3(1+F*)), flag %d after %d evals" % (max(float(s.obj), Fx), Fs, gap, s.flag, s.nf), rp)
        elif s.flag != 0 and not (I.get("variant") in ("soft-restarts-increase-npt", "hard-restarts-fresh-rk") and s.flag == 1):
            # (with restarts switched on a run legitimately continues until the budget is spent: flag 1 is not held against it)
            ctx.fail("C06:optimal-but-flag=%d|%s" % (s.flag, tag), "objective within tolerance but flag %d (%s)" % (s.flag, s.msg), rp)
        else:
            stats["ok"] += 1
        if I["bounded"] and (np.any(s.x < I["lo"]) or np.any(s.x > I["hi"])):
            ctx.fail("C06:infeasible|" + tag, "soln.x outside the bounds", rp)
    ctx.cov["end_to_end"] = stats


def replay(payload):
    dfols = core.import_dfols()
    rp = payload.get("replay", {})
    if "seed" not in rp:
        print("replay names a broken obligation:", payload.get("broken"))
        return 1
    I = instance(np.random.default_rng(rp["seed"]))
    xs, Fs = fista_l1_box(I["A"], I["b"], I["lam"], I["lo"], I["hi"]) if I["kind"] == "l1" else lbfgs_l2_box(I["A"], I["b"], I["lam"], I["lo"], I["hi"])
    s, calls, exc = run_instance(dfols, I)
    bad = exc is not None or calls["bad"] or not (float(s.obj) - Fs <= 1e-3 * (1 + Fs)) or s.flag != 0
    print("replay:", "still fails" if bad else "property holds on this input now")
    return 1 if bad else 0
