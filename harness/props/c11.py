"""C11 — The returned Jacobian is the fit through the evaluations it names (PARTIAL).

Lean (Properties/C11.lean): `C11_labels` (for every operation sequence of the L1 Model state machine,
`get_final_results` hands out the label snapshot taken by an `interpolate`), and the exact algebra
`internal_fit_in_abs_coords`, `unscale_jacobian`, `unscale_regression`, `jacobian_linear_eq_A(_regression)`.
LAPACK exactness and the conditioning-proportional error are NOT proved.

Both suites run the real `dfols.solve` (bounds, scaling on/off, npt in [n+1, 2n+1], budget and normal
termination, soft and hard restarts, averaging; n <= 4; each under core.with_alarm(30, ...)) with a
recording wrapper around objfun.

Correspondence (ties the Lean specification to the run):
  * wrapper on `Model.interpolate_mini_models_svd` captures every successful fit (points, residuals,
    model_const, model_jac, eval_num);  `soln.jacobian` must be bit-identical to `unscaleJac` of one captured
    fit (Lean `iunscale`, exact division, correctly rounded) and `soln.jacmin_eval_nums` must be that fit's
    label snapshot;
  * the recorded calls named by those labels must be the captured points (`userPoint`, forward rounding
    only) and residuals (bit-identical means);
  * the spec predicates `Interpolates` / `IsLSQFit` are evaluated by Lean (`ieval`, exact) on the captured
    state and must vanish up to 64*(n+1)*eps*cond(W)*scale (as in C16).
Search (the property itself): independent *exact rational* least-squares fit through the recorded
(mean) residual vectors at the evaluations named by `soln.jacmin_eval_nums` (1-based point numbers,
assigned by the harness from the call sequence alone), compared entrywise with `soln.jacobian`:
      |J - J*|_ij <= TOL_C11*(n+1)*eps*cond(W)*posfac*(max|r|/delta + max|J*_scaled|)/scale_j
  (W, delta in the solver's internal — scaled — coordinates, posfac = 1 + max(|shift|/scale + |z|)/delta
  accounts for the rounding of the evaluation points themselves); linear residuals: the same bound
  against A.  TOL_C11 = 32.  Measured distribution of the normalised error in the evidence.
Signatures: `C11:hard-restart-relabel(C03)` when a mismatch in a hard-restart run disappears after replacing the
label 1 by another recorded evaluation (the pinned tree labelled the first point of each restarted run 1;
repaired by fix: ea879d3); otherwise `C11:jacobian-mismatch:<restart>:<scaled|unscaled>`.
`jacobian is None` (exit during initialisation) or labels containing 0 (point set not fully initialised):
nothing to check, counted.
"""
from fractions import Fraction

import numpy as np

import core
from props import interp_common as ic
from props.interp_common import EPS

MODULE = "DfolsVerif.Properties.C11"
BUILD_TARGETS = ["DfolsVerif.Driver.InterpDrv"]
def pre_build(ctx):
    import gen_snapshots
    ctx.cov["snapshot_assignments_in_repo"] = gen_snapshots.regenerate(ctx)
    import gen_unscale
    gen_unscale.regenerate(ctx)


THEOREMS = [
    "Dfols.C11.C11_src_snapshots",
    "Dfols.C11.C11_src_unscale_jacobian",
    "Dfols.C11.C11_labels",
    "Dfols.C11.interpolate_snapshot",
    "Dfols.C11.savePoint_carries",
    "Dfols.C11.internal_fit_in_abs_coords",
    "Dfols.C11.unscale_jacobian",
    "Dfols.C11.unscale_regression",
    "Dfols.C11.jacobian_fits_user_points",
    "Dfols.C11.jacobian_regression_user_points",
    "Dfols.C11.jacobian_linear_eq_A",
    "Dfols.C11.jacobian_linear_eq_A_regression",
]
TRUSTED_EXTRA = [
    "PARTIAL: proved = label snapshot (L1 state machine, every operation sequence) and the exact-arithmetic algebra "
    "(base shifts and column un-scaling preserve 'is the interpolant / least-squares fit'; affine residuals => J = A)",
    "NOT proved: LAPACK exactness; the conditioning-proportional error bound; that each label is the evaluation's true number "
    "(C03); that solve/solve_main pass get_final_results()'s pair on unchanged (L2 acceptor) — watched by the correspondence "
    "(bit-identity with a captured fit) and the search (independent exact fit), sampled",
    "point numbers are assigned by the harness from the sequence of objfun calls alone (a new point when x changes or the "
    "configured number of samples per point is reached)",
]

LEVEL = "proof"
EXPLANATION = ("PARTIAL. Proved (Lean): jacmin_eval_nums is the label snapshot of the fit (every Model operation sequence, both branches of "
               "get_final_results); base shifts and the column un-scaling keep 'interpolant / least-squares fit' (so the returned matrix is the "
               "fit in user coordinates), affine residuals => J = A. Not proved: LAPACK exactness, the cond-proportional error, label = true "
               "evaluation number (C03), pass-through in solve (L2). Observed: bit-identity of soln.jacobian with a captured fit + exact "
               "independent fit through the named recorded evaluations, tolerance 32(n+1) eps cond posfac scale (measured max < 1).")

TOL_C = 64.0          # internal fit equations (as C16)
TOL_C11 = 32.0        # returned Jacobian vs independent fit
SUITE = 1101


# ----------------------------------------------------------------------------------------------
# problems
# ----------------------------------------------------------------------------------------------
class Problem:
    def __init__(self, rng, nmax=4, force=None):
        force = force or {}
        self.n = n = int(rng.integers(1, nmax + 1))
        self.m = m = int(rng.integers(1, n + 4))
        self.A = rng.normal(size=(m, n))
        self.b = rng.normal(size=m)
        self.kind = force.get("kind", ["linear", "sin", "quad"][int(rng.integers(0, 3))])
        self.B = rng.normal(size=(m, n)) * 0.5
        self.x0 = rng.normal(size=n)
        u = rng.random()
        if u < 0.35:
            self.bounds, self.scaling = None, False
        else:
            lo = self.x0 - rng.uniform(0.05, 2.0, size=n)
            hi = self.x0 + rng.uniform(0.05, 2.0, size=n)
            if rng.random() < 0.3:            # x0 on a bound
                j = int(rng.integers(0, n))
                lo[j] = self.x0[j]
            if rng.random() < 0.4:            # very different widths per coordinate (scaling matters)
                w = 10 ** rng.uniform(-2, 2, size=n)
                lo = self.x0 - (self.x0 - lo) * w
                hi = self.x0 + (hi - self.x0) * w
            self.bounds = (lo, hi)
            self.scaling = bool(rng.random() < 0.55)
        self.npt = int(rng.integers(n + 1, 2 * n + 2))
        u = rng.random()
        self.maxfun = int(rng.integers(n + 2, 3 * n + 8)) if u < 0.3 else (int(rng.integers(25, 70)) if u < 0.65 else int(rng.integers(150, 400)))
        self.rhoend = float(10 ** rng.uniform(-8, -4))
        self.restart = force.get("restart", ["none", "none", "soft", "hard", "hard"][int(rng.integers(0, 5))])
        self.nsamp = 1
        self.noise = 0.0
        if rng.random() < 0.2:
            self.nsamp = int(rng.integers(2, 4))
            self.noise = float(10 ** rng.uniform(-5, -2))
        self.use_old_rk = bool(rng.random() < 0.6)
        self.increase_npt = bool(rng.random() < 0.3)
        self.noise_seed = int(rng.integers(0, 2 ** 31))
        # restarts that really happen, several times (loose rhoend), and runs that stop shortly after one
        self.move_xk = True
        if self.restart != "none" and rng.random() < 0.5:
            self.rhoend = float(10 ** rng.uniform(-2.5, -1.3))
            self.maxfun = int(rng.integers(15, 75)) if rng.random() < 0.6 else int(rng.integers(150, 400))
            if self.restart == "soft":
                self.increase_npt = bool(rng.random() < 0.7)
                self.move_xk = bool(rng.random() < 0.5)
        # residuals in small / large units (a Jacobian whose singular values are far from 1)
        self.runit = float(10 ** rng.uniform(-9, 4)) if (rng.random() < 0.25 and self.noise == 0.0) else 1.0
        # extra regression steps after successful iterations (documented options), geometry or random 'momentum' type, half of
        # them with a noisy objective sampled several times: the stored residual of an inserted point must be the mean of ITS samples
        self.extra_steps, self.momentum = 0, False
        if rng.random() < 0.18:
            self.extra_steps = int(rng.integers(1, 4))
            self.momentum = bool(rng.random() < 0.6)
            if rng.random() < 0.5 and self.nsamp == 1:
                self.nsamp = int(rng.integers(2, 4))
                self.noise = float(10 ** rng.uniform(-4, -2))
                self.runit = 1.0

        # documented option: the interpolation system solved WITHOUT its diagonal preconditioner (seeded C11_12 kept the row
        # scaling of the preconditioned system although the directions had not been scaled)
        self.no_precondition = bool(rng.random() < 0.15)

    def describe(self):
        return {"n": self.n, "m": self.m, "kind": self.kind, "bounds": self.bounds is not None, "scaling": self.scaling,
                "precondition": not self.no_precondition,
                "npt": self.npt, "maxfun": self.maxfun, "rhoend": self.rhoend, "restart": self.restart, "nsamples": self.nsamp,
                "noise": self.noise, "use_old_rk": self.use_old_rk, "increase_npt": self.increase_npt, "residual_unit": self.runit,
                "move_xk": self.move_xk, "extra_steps": self.extra_steps, "momentum": self.momentum}

    def resid_exact(self, x):
        r = self.A.dot(x) - self.b
        if self.kind == "sin":
            r = r + 0.3 * np.sin(self.B.dot(x))
        elif self.kind == "quad":
            r = r + 0.1 * self.B.dot(x * x)
        return r * self.runit if self.runit != 1.0 else r


def run_problem(dfols, prob, capture=None):
    """real dfols.solve with a recording objfun; returns (soln or None, calls)"""
    calls = []
    nrng = np.random.default_rng(prob.noise_seed)

    def objfun(x):
        r = prob.resid_exact(x)
        if prob.noise > 0.0:
            r = r + prob.noise * nrng.normal(size=prob.m)
        calls.append((np.array(x, dtype=float, copy=True), np.array(r, dtype=float, copy=True)))
        return r

    up = {}
    if prob.restart != "none":
        up["restarts.use_restarts"] = True
        up["restarts.use_soft_restarts"] = prob.restart == "soft"
        up["restarts.max_unsuccessful_restarts"] = 3
        if prob.restart == "hard":
            up["restarts.hard.use_old_rk"] = prob.use_old_rk
        up["restarts.increase_npt"] = prob.increase_npt
        if prob.increase_npt:
            # (never beyond (n+1)(n+2)/2, the documented default cap: larger sets crash the coordinate initialisation of a
            #  hard-restarted run - recorded under C07)
            up["restarts.max_npt"] = max(prob.npt, min(prob.npt + 2, (prob.n + 1) * (prob.n + 2) // 2))
        if prob.restart == "soft" and not prob.move_xk:
            up["restarts.soft.move_xk"] = False
    elif prob.nsamp > 1:
        up["restarts.use_restarts"] = False
    if prob.extra_steps:
        up["regression.num_extra_steps"] = prob.extra_steps
        up["regression.momentum_extra_steps"] = prob.momentum
        np.random.seed(prob.noise_seed % (2 ** 32))     # momentum directions come from NumPy's global generator
    if getattr(prob, "no_precondition", False):
        up["interpolation.precondition"] = False
    if prob.runit != 1.0:
        up["model.abs_tol"] = 1e-20 * prob.runit ** 2      # keep the 'sufficiently small' exit in proportion to the units
    kw = dict(npt=prob.npt, maxfun=prob.maxfun, rhoend=prob.rhoend, user_params=up, do_logging=False,
              scaling_within_bounds=prob.scaling, objfun_has_noise=prob.nsamp > 1)
    if prob.bounds is not None:
        kw["bounds"] = (prob.bounds[0].copy(), prob.bounds[1].copy())
        if not prob.scaling:
            # solve() rejects bounds closer than 2*rhobeg (and an input error currently raises TypeError: C07)
            kw["rhobeg"] = float(min(0.1 * max(np.max(np.abs(prob.x0)), 1.0), 0.45 * np.min(prob.bounds[1] - prob.bounds[0])))
    if prob.nsamp > 1:
        k = prob.nsamp
        kw["nsamples"] = lambda delta, rho, it, nruns: k
    try:
        soln = core.with_alarm(30, dfols.solve, objfun, prob.x0.copy(), **kw)
    except core.Alarm:
        return "alarm", calls
    except TypeError as e:
        if "OptimResults" in str(e):      # input rejected; the constructor call on that path is C07's defect
            return "input-error", calls
        raise
    return soln, calls


def group_points(calls, k):
    """point numbering from the call sequence alone: a new point when x changes or the current one has k samples"""
    groups = []
    for x, r in calls:
        if groups and len(groups[-1][1]) < k and groups[-1][0].tobytes() == x.tobytes():
            groups[-1][1].append(r)
        else:
            groups.append((x, [r]))
    return groups


def exact_lsq_jacobian(X, R):
    """exact least-squares fit  r ≈ c + J (x - x_ref)  through rows of X, R (Fractions); returns J as floats (m×n) or None"""
    p, n = X.shape
    m = R.shape[1]
    Xf = [[Fraction(float(v)) for v in row] for row in X]
    ref = Xf[0]
    Wm = [[Fraction(1)] + [Xf[t][j] - ref[j] for j in range(n)] for t in range(p)]
    Rf = [[Fraction(float(v)) for v in row] for row in R]
    q = n + 1
    M = [[sum(Wm[t][a] * Wm[t][b_] for t in range(p)) for b_ in range(q)] + [sum(Wm[t][a] * Rf[t][i] for t in range(p)) for i in range(m)]
         for a in range(q)]
    for col in range(q):
        piv = next((r_ for r_ in range(col, q) if M[r_][col] != 0), None)
        if piv is None:
            return None
        M[col], M[piv] = M[piv], M[col]
        pv = M[col][col]
        M[col] = [v / pv for v in M[col]]
        for r_ in range(q):
            if r_ != col and M[r_][col] != 0:
                f = M[r_][col]
                M[r_] = [a - f * b_ for a, b_ in zip(M[r_], M[col])]
    J = np.array([[float(M[j + 1][q + i]) for j in range(n)] for i in range(m)])
    return J


def scaling_of(prob):
    if prob.scaling:
        return prob.bounds[0].copy(), prob.bounds[1] - prob.bounds[0]
    return np.zeros(prob.n), np.ones(prob.n)


def check_solution(prob, soln, calls):
    """the property on one run; returns (status, info) with status in ok / skip:<why> / fail:<signature>"""
    if soln is None or isinstance(soln, str):
        return "skip:%s" % soln, {}
    if soln.jacobian is None:
        return "skip:jacobian-none", {}
    labels = soln.jacmin_eval_nums
    if labels is None:
        return "fail:C11:labels-missing", {"what": "soln.jacobian is returned without jacmin_eval_nums"}
    labels = [int(v) for v in labels]
    if any(v == 0 for v in labels):
        return "skip:not-fully-initialised", {}
    n, m = prob.n, prob.m
    groups = group_points(calls, prob.nsamp)
    if len(groups) != int(soln.nx):
        return "skip:numbering-ambiguous", {"groups": len(groups), "nx": int(soln.nx)}
    if any(v < 1 or v > len(groups) for v in labels):
        return "fail:C11:label-out-of-range", {"what": "jacmin_eval_nums %s names evaluations outside 1..nx=%d" % (labels, len(groups))}
    if len(set(labels)) != len(labels):
        return "fail:C11:duplicate-labels", {"what": "jacmin_eval_nums %s contains a label twice" % labels}
    if len(labels) < n + 1:
        return "skip:fewer-than-n+1-labels", {}
    J = np.asarray(soln.jacobian, dtype=float)

    def fit_and_compare(lbls):
        X = np.array([groups[v - 1][0] for v in lbls])
        R = np.array([np.mean(np.array(groups[v - 1][1]), axis=0) for v in lbls])
        Jstar = exact_lsq_jacobian(X, R)
        if Jstar is None:
            return None
        shift, scale = scaling_of(prob)
        Z = (X - shift) / scale
        obj = np.sum(R * R, axis=1)
        zc = Z[int(np.argmin(obj))]
        delta = float(np.sqrt(np.max(np.sum((Z - zc) ** 2, axis=1))))
        if delta == 0.0:
            return None
        W = np.hstack([np.ones((len(lbls), 1)), (Z - zc) / delta])
        kappa = ic.cond2(W)
        posfac = 1.0 + float(np.max(np.abs(shift) / scale + np.max(np.abs(Z), axis=0))) / delta
        Js = Jstar * scale[None, :]
        base = (float(np.max(np.abs(R))) / delta + float(np.max(np.abs(Js)))) / scale     # per column
        unit = EPS * kappa * posfac * base[None, :]
        err = np.abs(J - Jstar)
        return {"Jstar": Jstar, "kappa": kappa, "posfac": posfac, "norm_err": float(np.max(err / unit)) if np.isfinite(kappa) else float("inf"),
                "err": float(np.max(err)), "unit": unit, "delta": delta}

    res = fit_and_compare(labels)
    if res is None or not np.isfinite(res["kappa"]) or res["kappa"] * res["posfac"] > 1e11:
        return "skip:ill-conditioned", {}
    info = {"norm_err": res["norm_err"], "kappa": res["kappa"], "posfac": res["posfac"], "regression": len(labels) > n + 1}
    tol = TOL_C11 * (n + 1)
    if res["norm_err"] > tol:
        what = ("soln.jacobian differs from the exact fit through evaluations %s by %.3e (%.3g x eps*cond*posfac*scale; cond=%.2e, tol factor %.0f)"
                % (labels, res["err"], res["norm_err"], res["kappa"], tol))
        sig = "C11:jacobian-mismatch:%s:%s" % (prob.restart, "scaled" if prob.scaling else "unscaled")
        if prob.restart == "hard" and int(soln.nruns) > 1 and 1 in labels:
            # pinned defect (C03): the first point of a restarted run was labelled 1
            pos = labels.index(1)
            for cand in range(2, len(groups) + 1):
                if cand in labels:
                    continue
                alt = list(labels)
                alt[pos] = cand
                r2 = fit_and_compare(alt)
                if r2 is not None and r2["norm_err"] <= tol:
                    sig = "C11:hard-restart-relabel(C03)"
                    what += "; the matrix IS the fit when label 1 is read as evaluation %d (first point of a restarted run)" % cand
                    break
        info["what"] = what
        return "fail:" + sig, info
    if prob.kind == "linear" and prob.noise == 0.0:
        errA = np.abs(J - prob.A * prob.runit)
        nA = float(np.max(errA / res["unit"]))
        info["norm_err_vs_A"] = nA
        if nA > tol:
            info["what"] = "linear residuals: soln.jacobian differs from A by %.3e (%.3g x eps*cond*posfac*scale)" % (float(np.max(errA)), nA)
            return "fail:C11:linear-jacobian-not-A:%s" % ("scaled" if prob.scaling else "unscaled"), info
    return "ok", info


# ----------------------------------------------------------------------------------------------
# correspondence
# ----------------------------------------------------------------------------------------------
def correspondence(ctx):
    dfols = core.import_dfols()
    from dfols.model import Model
    nrun = ctx.scale(90, 500)
    captures = []
    orig = Model.interpolate_mini_models_svd

    def wrapped(self, *a, **k):
        out = orig(self, *a, **k)
        if out[0]:
            p = self.npt()
            captures.append({"J": self.model_jac.copy(), "c": self.model_const.copy(), "labels": self.eval_num.copy(),
                             "xbase": self.xbase.copy(), "Y": np.array([self.xpt(t) for t in range(p)]),
                             "F": self.fval_v[:p, :].copy(), "W": self.interpolation_matrix()[0], "npt_full": self.npt_so_far >= self.num_pts,
                             "mfr": bool(k.get("make_full_rank", False))})
        return out

    lines, expect = [], []
    counts = {}
    stats = {}

    def count(k):
        counts[k] = counts.get(k, 0) + 1

    Model.interpolate_mini_models_svd = wrapped
    try:
        for i in range(nrun):
            rng = np.random.default_rng([ctx.seed, SUITE, 7, i])
            prob = Problem(rng)
            del captures[:]
            soln, calls = run_problem(dfols, prob)
            ctx.seen(("c11corr", i, prob.describe()))
            if isinstance(soln, str):
                count(soln)
                continue
            count("flag_%d" % int(soln.flag))
            if soln.jacobian is None:
                count("jacobian_none")
                continue
            shift, scale = scaling_of(prob)
            J = np.asarray(soln.jacobian)
            # (1) which captured fit produced the returned matrix?  (bit-identical after the column division)
            hit = None
            for cap in reversed(captures):
                Ju = cap["J"] / scale[None, :] if prob.scaling else cap["J"]
                if Ju.shape == J.shape and Ju.tobytes() == J.tobytes():
                    hit = cap
                    break
            if hit is None:
                ctx.broke("correspondence:returned-jacobian-is-no-captured-fit", {"run": i, "cfg": prob.describe(), "fits_captured": len(captures)})
                continue
            count("matched_fit")
            labels = None if soln.jacmin_eval_nums is None else [int(v) for v in soln.jacmin_eval_nums]
            if labels != [int(v) for v in hit["labels"]]:
                # another capture with the same matrix and the right labels? (identical refits)
                same = [c for c in captures if (c["J"] / scale[None, :] if prob.scaling else c["J"]).tobytes() == J.tobytes()
                        and [int(v) for v in c["labels"]] == labels]
                if not same:
                    ctx.broke("correspondence:C11_labels-snapshot", {"run": i, "cfg": prob.describe(), "soln": labels, "fit": [int(v) for v in hit["labels"]]})
                    continue
                # the fit that was returned is THAT capture (its rows are in the order of `labels`); comparing the named
                # evaluations with the rows of a later, bit-identical refit in another row order was a thorough-tier false alarm
                hit = same[-1]
                count("identical_refit_with_other_labels")
            # (2) un-scaling, exactly
            if prob.scaling:
                lines.append("iunscale %d %d | %s | %s" % (prob.n, prob.m, ic.rat_tokens(scale), ic.rat_tokens(hit["J"])))
                expect.append({"kind": "iunscale", "J": J.copy(), "run": i})
            # (3) the named recorded calls are the captured points / residuals
            groups = group_points(calls, prob.nsamp)
            if labels is not None and all(1 <= v <= len(groups) for v in labels) and len(groups) == int(soln.nx) and hit["npt_full"]:
                p = len(labels)
                Xrec = np.array([groups[v - 1][0] for v in labels])
                Rrec = np.array([np.mean(np.array(groups[v - 1][1]), axis=0) for v in labels])
                Zint = hit["xbase"][None, :] + hit["Y"]
                Xint = shift[None, :] + Zint * scale[None, :]
                bound = 4 * EPS * (np.abs(shift)[None, :] + (np.abs(hit["xbase"])[None, :] + np.abs(hit["Y"])) * scale[None, :]) + 1e-300
                if p == Xint.shape[0]:
                    dpos = float(np.max(np.abs(Xrec - Xint) / bound))
                    stats.setdefault("recorded_x_vs_userPoint_over_bound", []).append(dpos)
                    # averaged residuals: the code's running mean vs np.mean differ by rounding
                    rtol = (8 * EPS * np.max(np.abs(Rrec))) if prob.nsamp > 1 else 0.0
                    if dpos > 1.0 or np.any(np.abs(Rrec - hit["F"]) > rtol):
                        ctx.broke("correspondence:named-evaluations-are-not-the-fitted-points", {"run": i, "cfg": prob.describe(), "labels": labels,
                                                                                                  "pos_err_over_bound": dpos,
                                                                                                  "resid_maxdiff": float(np.max(np.abs(Rrec - hit["F"])))})
                    else:
                        count("named_evaluations_checked")
            # (4) the spec predicates on the captured state, evaluated by Lean
            kappa = ic.cond2(hit["W"])
            if np.isfinite(kappa) and kappa <= 1e10 and not hit["mfr"]:
                p = hit["Y"].shape[0]
                E, N0, N1 = ic.exact_misfit(hit["Y"], hit["F"], hit["c"], hit["J"])
                lines.append("ieval %d %d %d | %s | %s | %s | %s" % (prob.n, prob.m, p, ic.rat_tokens(hit["Y"]), ic.rat_tokens(hit["F"]),
                                                                    ic.rat_tokens(hit["c"]), ic.rat_tokens(hit["J"])))
                scale_v = float(np.max(np.abs(hit["c"])[None, :] + np.abs(hit["Y"]).dot(np.abs(hit["J"]).T) + np.abs(hit["F"])))
                expect.append({"kind": "ieval", "want": E.fractions() + N0.fractions() + N1.fractions(), "p": p, "n": prob.n, "m": prob.m,
                               "kappa": kappa, "scale": scale_v, "run": i, "Y": hit["Y"], "cfg": prob.describe()})
    finally:
        Model.interpolate_mini_models_svd = orig
    nbad = 0
    if lines:
        replies = ic.run_interp_driver(lines)
        for ln, exp, rep in zip(lines, expect, replies):
            try:
                got = ic.parse_rats(rep)
            except ValueError as e:
                ctx.broke("correspondence:driver-reply", {"reply": str(e)})
                nbad += 1
                continue
            if exp["kind"] == "iunscale":
                Jl = np.array([float(v) for v in got]).reshape(exp["J"].shape)
                if Jl.tobytes() != exp["J"].tobytes():
                    nbad += 1
                    ctx.broke("correspondence:unscaleJac-vs-solver.py:1164", {"run": exp["run"], "maxdiff": float(np.max(np.abs(Jl - exp["J"])))})
                else:
                    count("unscale_bit_identical")
            else:
                if got != exp["want"]:
                    nbad += 1
                    ctx.broke("correspondence:Lean-spec-vs-harness-exact:ieval", {"run": exp["run"]})
                    continue
                p, n, m = exp["p"], exp["n"], exp["m"]
                Ef = np.array([float(v) for v in got[:p * m]])
                unit = EPS * exp["kappa"] * exp["scale"]
                if p <= n + 1:
                    e = float(np.max(np.abs(Ef))) / unit
                    stats.setdefault("internal_interp_err_over_eps_cond_scale", []).append(e)
                    bad = e > TOL_C * (n + 1)
                else:
                    N0 = np.array([float(v) for v in got[p * m:p * m + m]])
                    e = float(np.max(np.abs(N0))) / (unit * p)
                    stats.setdefault("internal_normal_eq0_over_eps_cond_scale_npt", []).append(e)
                    bad = e > TOL_C * (n + 1)
                if bad:
                    nbad += 1
                    ctx.broke("correspondence:captured-fit-violates-spec-predicate", {"run": exp["run"], "cfg": exp["cfg"], "normalised": e})
                else:
                    count("spec_predicate_checked")
    ctx.cov["correspondence"] = {"runs": nrun, "driver_lines": len(lines), "mismatches": nbad, "counts": counts,
                                 "measured": {k: ic.summary(v) for k, v in sorted(stats.items())}}


# ----------------------------------------------------------------------------------------------
# search
# ----------------------------------------------------------------------------------------------
def search(ctx):
    dfols = core.import_dfols()
    nrun = ctx.scale(500, 4000) * getattr(ctx, "boost", 1)
    counts, stats = {}, {}
    for i in range(nrun):
        rng = np.random.default_rng([ctx.seed, SUITE, i])
        prob = Problem(rng)
        soln, calls = run_problem(dfols, prob)
        status, info = check_solution(prob, soln, calls)
        ctx.seen(("c11", i, prob.describe()))
        cls = "%s/%s/%s" % (prob.restart, "scaled" if prob.scaling else ("bounds" if prob.bounds is not None else "free"),
                            "avg" if prob.nsamp > 1 else "1")
        counts[status.split(":", 1)[0] + ":" + cls] = counts.get(status.split(":", 1)[0] + ":" + cls, 0) + 1
        if status != "ok":
            counts[status] = counts.get(status, 0) + 1
        if not isinstance(soln, str) and soln is not None:
            counts["flag_%d" % int(soln.flag)] = counts.get("flag_%d" % int(soln.flag), 0) + 1
            if int(soln.nruns) > 1:
                counts["runs_with_restarts_%s" % prob.restart] = counts.get("runs_with_restarts_%s" % prob.restart, 0) + 1
        if "norm_err" in info and status == "ok":
            stats.setdefault("jac_err_over_eps_cond_posfac_scale:" + ("regression" if info["regression"] else "interp"), []).append(info["norm_err"])
            stats.setdefault("log10_cond", []).append(np.log10(info["kappa"]))
            stats.setdefault("log10_posfac", []).append(np.log10(info["posfac"]))
            if "norm_err_vs_A" in info:
                stats.setdefault("linear_jac_minus_A_over_eps_cond_posfac_scale", []).append(info["norm_err_vs_A"])
        if status.startswith("fail:"):
            ctx.fail(status[5:], info.get("what", status), {"seed": [ctx.seed, SUITE, i], "cfg": prob.describe(),
                                                             "jacmin_eval_nums": None if isinstance(soln, str) or soln.jacmin_eval_nums is None else [int(v) for v in soln.jacmin_eval_nums]})
            if len(ctx.failures) >= 8:
                break
        elif len(ctx.samples) < 3 and status == "ok":
            ctx.add_sample({"kind": "C11 run", "cfg": prob.describe(), "jacmin_eval_nums": [int(v) for v in soln.jacmin_eval_nums],
                            "nf": int(soln.nf), "nx": int(soln.nx), "nruns": int(soln.nruns), "normalised_error": info["norm_err"]})
    ctx.cov["search"] = {"runs": nrun, "counts": dict(sorted(counts.items())), "tolerance": "TOL_C11=%g x (n+1) x eps x cond x posfac x scale" % TOL_C11,
                         "measured": {k: ic.summary(v) for k, v in sorted(stats.items())}}


def replay(payload):
    dfols = core.import_dfols()
    rp = payload.get("replay", {})
    if "seed" not in rp:
        print("replay file names a broken obligation, nothing to execute:", payload.get("broken"))
        return 1
    rng = np.random.default_rng(rp["seed"])
    prob = Problem(rng)
    soln, calls = run_problem(dfols, prob)
    status, info = check_solution(prob, soln, calls)
    if status.startswith("fail:"):
        print("replay: still fails:", status[5:], info.get("what"))
        return 1
    print("replay: property holds on this input now (%s)" % status)
    return 0
