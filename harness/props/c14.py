"""C14 — initial interpolation set feasible and well poised next to bounds; random direction generators.

Correspondence (bit for bit, IEEE doubles as raw bits; only signed zeros are identified):
  (a) Lean `InitDirs.evalPoints` on `Float`  vs  the first npt arguments `objfun` receives in a real
      `dfols.solve(..., maxfun=npt)` run (default coordinate initialisation, bounds, no projections);
      the objective-dependent swap (controller.py:349) is fed with the comparisons the real run made.
  (b) Lean `RandDirs.{getScale, randDirs, orthogDirs}` on `Float`  vs  the real generators in util.py with
      `np.random.normal`, `np.linalg.qr`, `np.linalg.norm` wrapped to record their results; the norm (a
      BLAS reduction) is passed to the model as an oracle value, everything else is recomputed.
Search (the property's clauses stated directly on the real code):
  first evaluation = clamped x0; exactly npt evaluations; every point inside [xl, xu] (exact);
  0.01*rhobeg <= ||x_k - x0|| <= 2*rhobeg with a slack of 4 ulp of the coordinates' magnitude
  (the points are formed as x0 + t in floating point); the first n+1 points affinely independent and
  np.linalg.cond(Model.interpolation_matrix()) < 1e4; for both generators: count, exact bounds and
  length <= delta*(1+1e-12) over all active-set patterns.
"""
import os
for _v in ("OMP_NUM_THREADS", "OPENBLAS_NUM_THREADS", "MKL_NUM_THREADS"):   # tiny matrices: BLAS threads only cost time
    os.environ.setdefault(_v, "1")
import numpy as np  # noqa: E402
import core  # noqa: E402
from core import fbits_raw  # noqa: E402

MODULE = "DfolsVerif.Properties.C14"
BUILD_TARGETS = ["DfolsVerif.Driver.InitDirsDrv"]   # what lean/InitDirsMain.lean imports
DRIVER = "InitDirsMain.lean"
THEOREMS = [
    "Dfols.C14.first_is_clamped_x0",
    "Dfols.C14.coord_init_in_bounds",
    "Dfols.C14.coord_init_count",
    "Dfols.C14.coord_init_old_overshoots",
    "Dfols.C14.coord_init_points",
    "Dfols.C14.coord_init_pair_points",
    "Dfols.C14.npt_range",
    "Dfols.C14.coord_init_distance",
    "Dfols.C14.first_two_steps_distinct",
    "Dfols.C14.coord_init_affinely_independent",
    "Dfols.C14.coord_init_affineIndependent",
    "Dfols.C14.coord_init_full_column_rank",
    "Dfols.C14.coord_init_needs_gap",
    "Dfols.C14.rand_dirs_count",
    "Dfols.C14.rand_dirs_in_bounds",
    "Dfols.C14.rand_dirs_length",
    "Dfols.C14.rand_dirs_norm",
    "Dfols.C14.orthog_dirs_count",
    "Dfols.C14.orthog_dirs_in_bounds",
    "Dfols.C14.orthog_dirs_length_partial",
    "Dfols.C14.orthog_dirs_norm_partial",
    "Dfols.C14.orthog_block4_value",
    "Dfols.C14.orthog_block4_two_delta",
]
TRUSTED_EXTRA = [
    "C14 geometry theorems (coord_init_*, rand_dirs_length/norm, orthog_dirs_length/norm) are exact-arithmetic statements over a "
    "linearly ordered field; the float gap is watched by the bit-exact correspondence and the search (slack stated there)",
    "modelled, not verified: np.random.normal draws, np.linalg.qr (its Q factor is an input; orthonormality of its columns is a "
    "hypothesis of the norm corollaries), np.linalg.norm (oracle input; unit length of dirn/norm is a hypothesis)",
    "NOT proved: condition number of the scaled interpolation matrix < 1e4 (singular values) — checked numerically by the search only",
    "not modelled: the projection branch of initialise_coordinate_directions (`if self.model.projections:`), init.run_in_parallel, "
    "scaling_within_bounds, NaN inputs; signed zeros are identified in the bit-exact comparison",
]
EXPLANATION = ("coordinate initialisation: step table proved feasible / well separated / affinely independent in exact arithmetic "
               "for every x0 placement and every outcome of the objective-dependent swap; generators: count and bounds for any "
               "rounding, length <= delta in exact arithmetic except block 4 of random_orthog_directions_within_bounds "
               "(2*delta by construction, recorded finding)")

SIGN = 1 << 63


def canon(x):
    """raw bits, -0.0 identified with +0.0, NaN as 'nan'"""
    x = float(x)
    if x != x:
        return "nan"
    b = core.f2bits(x)
    return "0" if b == SIGN else str(b)


def canon_reply(tok):
    return "0" if tok == str(SIGN) else tok


def show_pts(P):
    return ";".join(",".join(canon(v) for v in row) for row in P)


def canon_pts(s):
    return ";".join(",".join(canon_reply(t) for t in row.split(",")) for row in s.split(";"))


# ------------------------------------------------------------------------------------------------
# generators of placements
# ------------------------------------------------------------------------------------------------
def nudge(x, k):
    for _ in range(abs(k)):
        x = np.nextafter(x, np.inf if k > 0 else -np.inf)
    return float(x)


def gen_placement(rng, nmax=8, big_npt_share=0.3, stress=False):
    """box with gap >= 2*rhobeg (as the solver tests it, in floating point), x0 drawn per coordinate from
    {interior, exactly on a bound, within 1e-12..1e-1*rhobeg of it, at the 1% threshold, outside}; one-sided bounds."""
    n = int(rng.integers(1, nmax + 1))
    if n >= 2 and rng.random() < big_npt_share:
        npt = int(rng.integers(2 * n + 2, (n + 1) * (n + 2) // 2 + 1))
    else:
        npt = int(rng.integers(n + 1, 2 * n + 2))
    rhobeg = float(rng.choice([0.1, 1.0, 0.37, 1e-3, 10.0, 0.25, float(10 ** rng.uniform(-4, 2))]))
    xl = np.zeros(n)
    xu = np.zeros(n)
    x0 = np.zeros(n)
    tags = []
    for j in range(n):
        base = float(rng.choice([0.0, 1.0, -1.0, float(rng.normal() * 10 ** rng.uniform(-2, 3)), float(np.round(rng.normal() * 5, 1))]))
        kind = rng.choice(["two", "two", "two", "two", "lower", "upper", "free"])
        gapf = float(rng.choice([2.0, 2.0, 2.0000001, 2.02, 2.5, 3.0, 4.0, 10.0, 1e3, 1e6]))
        lo, hi = base, base + gapf * rhobeg
        if kind == "two":
            k = 0
            while not (hi - lo >= 2.0 * rhobeg):     # the solver's own test (solver.py:1053), in floating point
                hi = nudge(hi, 1)
                k += 1
        if kind == "lower":
            hi = 1e20
        elif kind == "upper":
            lo, hi = -1e20, base
        elif kind == "free":
            lo, hi = -1e20, 1e20
        # x0 placement (stress: every coordinate bounded and next to a bound / at the 1% switch)
        if stress and kind == "free":
            kind, lo, hi = "two", base, base + gapf * rhobeg
            if not (hi - lo >= 2.0 * rhobeg):
                hi = nudge(hi, 2)
        sides = [s for s, ok in (("l", lo > -1e20), ("u", hi < 1e20)) if ok]
        choices = ["thresh", "thresh", "thresh", "on", "near"] if stress else ["interior", "on", "near", "thresh", "outside"]
        place = rng.choice(choices) if sides else "interior"
        side = rng.choice(sides) if sides else "-"
        inward = 1.0 if side == "l" else -1.0
        b = lo if side == "l" else hi
        if place == "interior":
            if kind == "two":
                x = lo + (hi - lo) * float(rng.uniform(0.05, 0.95))
            elif kind == "free":
                x = base + float(rng.normal())
            else:
                x = b + inward * rhobeg * float(rng.uniform(0.5, 5.0))
        elif place == "on":
            x = b
        elif place == "near":
            x = b + inward * rhobeg * float(10 ** rng.uniform(-12, -1))
        elif place == "thresh":
            # around the 1% switch of controller.py:254-255, a few ulps either side
            x = nudge(b + inward * (0.01 * rhobeg), int(rng.integers(-3, 4)))
        else:
            x = b - inward * rhobeg * float(rng.choice([1e-12, 1e-3, 1.0, 50.0]))
        xl[j], xu[j], x0[j] = lo, hi, x
        tags.append("%s/%s%s" % (kind, place, "" if side == "-" else ":" + side))
    # avoid -0.0 inputs (signed zeros are identified anyway)
    xl, xu, x0 = xl + 0.0, xu + 0.0, x0 + 0.0
    return {"n": n, "npt": npt, "rhobeg": rhobeg, "x0": x0, "xl": xl, "xu": xu, "tags": tags}


def fixed_placements():
    """stored corpus: past disagreements and hand-picked boundary placements, always run first"""
    inf = 1e20
    A = np.array
    raw = [
        # found by this check against the tree before `fix: evaluation points never leave the bounds by rounding`:
        # x0 + (xu - x0) lies 46 ulp above xu (|xu| << |x0|)
        (1, 2, 1.0, [-0.9369995049241533], [-inf], [-0.003785818666755223], "corpus:46ulp-overshoot"),
        (2, 6, 1.0, [-3.0, -3.0], [0.0, 0.0], [5.0, 5.0], "corner-lower"),
        (2, 6, 1.0, [9.0, 9.0], [0.0, 0.0], [5.0, 5.0], "corner-upper"),
        (2, 5, 0.1, [0.0 + 0.01 * 0.1, 1.0 - 0.01 * 0.1], [0.0, 0.0], [1.0, 1.0], "exactly-at-1%-switch"),
        (2, 5, 0.1, [np.nextafter(0.001, 0), np.nextafter(1.0 - 0.001, 2)], [0.0, 0.0], [1.0, 1.0], "1ulp-inside-1%-switch"),
        (3, 7, 0.5, [0.0, 1.0, 0.5], [0.0, 0.0, 0.0], [1.0, 1.0, 1.0], "gap-exactly-2rhobeg"),
        (3, 10, 0.5, [0.3, 0.2, 0.9], [0.0, 0.0, 0.0], [1.0, 1.0, 1.0], "gap-exactly-2rhobeg-interior-npt-max"),
        (2, 4, 1e-3, [1e6, -1e6], [1e6 - 1.0, -inf], [1e6, -1e6 + 0.002], "large-magnitude-small-rhobeg"),
        (1, 3, 1.0, [0.0], [-inf], [inf], "unbounded"),
    ]
    return [{"n": n, "npt": npt, "rhobeg": d, "x0": A(x0, dtype=float) + 0.0, "xl": A(xl, dtype=float), "xu": A(xu, dtype=float), "tags": [tag]}
            for (n, npt, d, x0, xl, xu, tag) in raw]


def make_objfun(rng, n, calls):
    m = int(rng.integers(max(1, n - 1), n + 3))
    A = rng.normal(size=(m, n))
    b = rng.normal(size=m) * 3 + 5.0
    c = rng.normal(size=n)
    curv = float(rng.choice([0.0, 0.5, 2.0]))

    def f(x):
        calls.append(np.array(x, dtype=float, copy=True))
        return A.dot(x - c) + b + curv * np.sin(x).sum()
    return f


def run_real_init(dfols, case, rng, bounds_style):
    """real solve with maxfun = npt; returns (list of objfun arguments, objval after initialisation, W, nf)"""
    import dfols.controller as C
    n, npt = case["n"], case["npt"]
    calls = []
    f = make_objfun(rng, n, calls)
    captured = {}
    orig = C.Controller.initialise_coordinate_directions

    def wrapped(self, number_of_samples, num_directions, params):
        r = orig(self, number_of_samples, num_directions, params)
        captured["objval"] = self.model.objval.copy()
        captured["npt_so_far"] = self.model.npt()
        captured["ncalls"] = len(calls)
        captured["exit"] = r
        try:
            captured["W"] = self.model.interpolation_matrix()[0].copy()
            captured["kopt"] = int(self.model.kopt)
        except Exception as e:  # pragma: no cover
            captured["W_err"] = repr(e)
        return r

    xl, xu = case["xl"].copy(), case["xu"].copy()
    if bounds_style == 1 and np.all(xl <= -1e20):
        bounds = (None, xu)
    elif bounds_style == 1 and np.all(xu >= 1e20):
        bounds = (xl, None)
    else:
        bounds = (xl, xu)
    C.Controller.initialise_coordinate_directions = wrapped
    extra = {}
    if (bounds[0] is None or bounds[1] is None) and rng.random() < 0.5:
        # documented: scaling_within_bounds needs a two-sided box and is ignored (with a warning) otherwise,
        # so the initial set must be exactly what it is without the flag
        extra["scaling_within_bounds"] = True
    try:
        soln = core.with_alarm(20, dfols.solve, f, case["x0"].copy(), bounds=bounds, npt=npt, rhobeg=case["rhobeg"],
                               rhoend=min(1e-8, case["rhobeg"] * 1e-3), maxfun=npt, do_logging=False, **extra)
    finally:
        C.Controller.initialise_coordinate_directions = orig
    return calls, captured, soln


def cinit_line(case, lt):
    n = case["n"]
    fl = [case["rhobeg"]] + list(case["x0"]) + list(case["xl"]) + list(case["xu"])
    return "cinit %d %d %s %s" % (n, case["npt"], " ".join(fbits_raw(v) for v in fl), " ".join("1" if b else "0" for b in lt))


def swap_oracle(case, objval):
    n, npt = case["n"], case["npt"]
    lt = []
    for i in range(n):
        k = n + 1 + i
        lt.append(bool(k < npt and k < len(objval) and objval[k] < objval[k - n]))
    return lt


# ------------------------------------------------------------------------------------------------
# recording wrappers for the direction generators
# ------------------------------------------------------------------------------------------------
class Recorder:
    """records np.random.normal / np.linalg.qr / np.linalg.norm results while a generator runs"""

    def __enter__(self):
        self.normals, self.qs, self.norms = [], [], []
        self.o_normal, self.o_qr, self.o_norm = np.random.normal, np.linalg.qr, np.linalg.norm

        def normal(*a, **k):
            r = self.o_normal(*a, **k)
            self.normals.append(np.array(r, copy=True))
            return r

        def qr(*a, **k):
            r = self.o_qr(*a, **k)
            self.qs.append(np.array(r[0], copy=True))
            return r

        def norm(*a, **k):
            r = self.o_norm(*a, **k)
            self.norms.append(float(r))
            return r

        np.random.normal, np.linalg.qr, np.linalg.norm = normal, qr, norm
        return self

    def __exit__(self, *exc):
        np.random.normal, np.linalg.qr, np.linalg.norm = self.o_normal, self.o_qr, self.o_norm
        return False


def gen_dir_case(rng, nmax=8, band=False):
    """lower <= 0 <= upper with every active-set pattern: per coordinate active-lower / active-upper / inactive with a
    bound nearer than delta, much nearer, farther, or absent.  band=True additionally puts one bound inside the
    tolerance band the asserts of util.py accept (upper in [-1e-15, 0) or lower in (0, 1e-15])."""
    n = int(rng.integers(1, nmax + 1))
    delta = float(rng.choice([1.0, 0.1, 0.37, 1e-3, 25.0, float(10 ** rng.uniform(-4, 2))]))
    lower, upper, pat = np.zeros(n), np.zeros(n), []

    def dist():
        c = rng.choice(["tiny", "near", "half", "far", "inf"])
        return {"tiny": delta * 10 ** rng.uniform(-14, -3), "near": delta * rng.uniform(0.01, 0.99), "half": delta * rng.choice([0.5, 1.0, 2.0]),
                "far": delta * rng.uniform(1.01, 50.0), "inf": 1e20}[c]
    for j in range(n):
        k = rng.choice(["L", "U", "I", "I"])
        if k == "L":
            lower[j], upper[j] = 0.0, dist()
        elif k == "U":
            lower[j], upper[j] = -dist(), 0.0
        else:
            lower[j], upper[j] = -dist(), dist()
        pat.append(str(k))
    if band:
        j = int(rng.integers(n))
        if rng.random() < 0.5:
            upper[j] = -1e-15 * rng.random()
            lower[j] = min(lower[j], -delta * rng.uniform(0.1, 3)) if lower[j] == 0.0 else lower[j]
        else:
            lower[j] = 1e-15 * rng.random()
            upper[j] = max(upper[j], delta * rng.uniform(0.1, 3)) if upper[j] == 0.0 else upper[j]
        pat[j] = "band"
    num = int(rng.integers(1, 3 * n + 3))
    return {"n": n, "delta": delta, "lower": lower + 0.0, "upper": upper + 0.0, "num": num, "pattern": "".join(p[0] for p in pat)}


def rdirs_line(c, rec):
    n, num = c["n"], c["num"]
    raws = [v for d in rec.normals for v in d]
    fl = [c["delta"]] + list(c["lower"]) + list(c["upper"]) + raws + rec.norms
    return "rdirs %d %d %s" % (num, n, " ".join(fbits_raw(v) for v in fl))


def odirs_line(c, rec, neg):
    n, num = c["n"], c["num"]
    if rec.qs:
        q = rec.qs[0]
        nin = q.shape[0]
        qflat = list(q.reshape(-1))
        draws = rec.normals[1:]
    else:
        nin, qflat, draws = 0, [], rec.normals
    raws = [v for d in draws for v in d]
    toks = ["odirs", str(num), str(n), "1" if neg else "0", fbits_raw(c["delta"])]
    toks += [fbits_raw(v) for v in list(c["lower"]) + list(c["upper"])]
    toks += [str(nin)] + [fbits_raw(v) for v in qflat]
    toks += [str(len(draws))] + [fbits_raw(v) for v in raws + rec.norms]
    return " ".join(toks)


# ------------------------------------------------------------------------------------------------
# correspondence
# ------------------------------------------------------------------------------------------------
def correspondence(ctx):
    dfols = core.import_dfols()
    from dfols import util as U
    lines, want, meta = [], [], []

    # (a) coordinate initialisation
    ncase = ctx.scale(1500, 8000)
    tagcount, skipped, gen_rejected, bigk = {}, 0, 0, 0
    fixed = fixed_placements()
    for i in range(-len(fixed), ncase):
        rng = np.random.default_rng([ctx.seed, 1401, i + len(fixed)])
        case = fixed[i + len(fixed)] if i < 0 else gen_placement(rng, nmax=8)
        try:
            calls, cap, soln = run_real_init(dfols, case, rng, i % 2)
        except core.Alarm:
            skipped += 1
            continue
        except Exception as e:
            ctx.broke("correspondence:InitDirs-vs-solve", {"case": i, "error": "real solve raised %r" % (e,)})
            continue
        if "objval" not in cap or cap.get("exit") is not None or cap["ncalls"] != case["npt"]:
            skipped += 1           # input rejected / early exit: nothing to compare (counted)
            continue
        lt = swap_oracle(case, cap["objval"])
        lines.append(cinit_line(case, lt))
        want.append("ok " + show_pts(calls[:case["npt"]]))
        meta.append(("cinit", i, case))
        ctx.seen(("c14init", case["n"], case["npt"], tuple(case["tags"]), case["rhobeg"], tuple(case["x0"])))
        for t in case["tags"]:
            tagcount[t] = tagcount.get(t, 0) + 1
        bigk += case["npt"] > 2 * case["n"] + 1
        if 0 <= i < 2:
            ctx.add_sample({"kind": "coordinate initialisation", "n": case["n"], "npt": case["npt"], "rhobeg": case["rhobeg"],
                            "placement": case["tags"], "x0": case["x0"].tolist(), "xl": case["xl"].tolist(), "xu": case["xu"].tolist(),
                            "first_points": [c.tolist() for c in calls[:3]]})
    ninit = len(lines)

    # (b) generators
    ngen = ctx.scale(2100, 12000)
    kinds = {"gscale": 0, "rdirs": 0, "odirs": 0}
    for i in range(ngen):
        rng = np.random.default_rng([ctx.seed, 1402, i])
        c = gen_dir_case(rng, nmax=8, band=(i % 10 == 9))
        np.random.seed(int(rng.integers(2 ** 31)))
        which = i % 7
        try:
            if which == 0:
                dirn = rng.normal(size=c["n"]) * (rng.random(c["n"]) < 0.8)
                s = U.get_scale(dirn, c["delta"], c["lower"], c["upper"])
                fl = [c["delta"]] + list(dirn) + list(c["lower"]) + list(c["upper"])
                lines.append("gscale %d %s" % (c["n"], " ".join(fbits_raw(v) for v in fl)))
                want.append("ok " + canon(s))
                kinds["gscale"] += 1
            elif which in (1, 2, 3):
                with Recorder() as rec:
                    D = U.random_directions_within_bounds(c["num"], c["delta"], c["lower"], c["upper"])
                lines.append(rdirs_line(c, rec))
                want.append("ok " + show_pts(D))
                kinds["rdirs"] += 1
            else:
                neg = which != 6
                with Recorder() as rec:
                    D = U.random_orthog_directions_within_bounds(c["num"], c["delta"], c["lower"], c["upper"], with_neg_dirns=neg)
                lines.append(odirs_line(c, rec, neg))
                want.append("ok " + show_pts(D))
                kinds["odirs"] += 1
        except AssertionError:
            gen_rejected += 1      # input refused by the asserts of util.py (only band cases can be)
            continue
        meta.append(("gen", i, c))
        ctx.seen(("c14gen", which, c["n"], c["num"], c["pattern"], c["delta"], tuple(c["lower"]), tuple(c["upper"])))
        if i in (4, 1):
            ctx.add_sample({"kind": "generator call", "which": ["get_scale", "random_directions_within_bounds", "", "", "random_orthog_directions_within_bounds"][which if which in (0, 1) else 4],
                            "n": c["n"], "num_pts": c["num"], "delta": c["delta"], "pattern": c["pattern"], "lower": c["lower"].tolist(), "upper": c["upper"].tolist()})

    replies = core.run_driver(lines, main=DRIVER)
    mism = {"cinit": 0, "gen": 0}
    blocks = {}
    nswap = 0
    for ln, rep, w, (kind, i, c) in zip(lines, replies, want, meta):
        body = rep
        extra = ""
        if "|" in rep:
            body, extra = rep.split("|", 1)
        if kind == "cinit":
            nswap += extra.count("1")
        elif extra:
            for t in extra.split(","):
                blocks[t] = blocks.get(t, 0) + 1
        got = "ok " + canon_pts(body[3:]) if body.startswith("ok ") else body
        if got != w:
            mism[kind] += 1
            if mism[kind] <= 3:
                ctx.broke("correspondence:%s" % ("InitDirs-vs-solve" if kind == "cinit" else "RandDirs-vs-util"),
                          {"case": i, "line": ln[:60] + "…", "n": c["n"], "detail": first_diff(got, w),
                           "input": {k: (v.tolist() if hasattr(v, "tolist") else v) for k, v in c.items()}})
    ctx.cov["correspondence_initdirs"] = {"cases": ninit, "npt_gt_2n+1": int(bigk), "swapped_coordinates": nswap,
                                          "placement_tags": tagcount, "mismatches": mism["cinit"]}
    ctx.cov["correspondence_randdirs"] = {"calls": kinds, "orthog_columns_by_block": blocks, "mismatches": mism["gen"]}
    ctx.cov["correspondence_skipped"] = {"solve_rejected_or_early_exit_or_alarm": skipped, "generator_input_refused_by_asserts": gen_rejected}


def first_diff(got, want):
    g, w = got.split(";"), want.split(";")
    if len(g) != len(w):
        return "lean returned %d vectors, real %d" % (len(g), len(w))
    for k, (a, b) in enumerate(zip(g, w)):
        if a != b:
            return {"vector": k, "lean": a[:200], "real": b[:200]}
    return "?"


# ------------------------------------------------------------------------------------------------
# failing-input search
# ------------------------------------------------------------------------------------------------
def check_init_case(dfols, case, rng, style):
    """returns list of (signature, what) for one real run"""
    n, npt, d = case["n"], case["npt"], case["rhobeg"]
    calls, cap, soln = run_real_init(dfols, case, rng, style)
    if "objval" not in cap:
        return None, "rejected"
    if cap.get("exit") is not None:
        return None, "early-exit"
    bad = []
    xl, xu = case["xl"], case["xu"]
    x0c = np.minimum(np.maximum(case["x0"], xl), xu)
    P = np.array(calls[:npt])
    if cap["ncalls"] != npt or len(calls) < npt:
        bad.append(("C14:coord-init:count", "initialisation made %d evaluations, npt = %d" % (cap["ncalls"], npt)))
        return bad, "ran"
    if not np.array_equal(P[0], x0c):
        bad.append(("C14:coord-init:first-not-clamped-x0", "first evaluation %s is not the projected x0 %s" % (P[0], x0c)))
    # bounds, exact
    for k in range(npt):
        lo, hi = P[k] < xl, P[k] > xu
        if np.any(lo) or np.any(hi):
            j = int(np.where(lo | hi)[0][0])
            b = xl[j] if lo[j] else xu[j]
            ulps = abs(P[k][j] - b) / np.spacing(abs(b))
            # the pinned formula xbase + (xu - xbase) may round past the bound (property C01's defect)
            su = (xu - x0c)[j]
            sl = (xl - x0c)[j]
            c01 = (hi[j] and P[k][j] == x0c[j] + su) or (lo[j] and P[k][j] == x0c[j] + sl)
            if c01:
                bad.append(("C14:bounds-1ulp-overshoot(C01)", "point %d coordinate %d = %r is %.0f ulp outside the bound %r (xbase + (bound - xbase) rounding)" % (k, j, P[k][j], ulps, b)))
            else:
                bad.append(("C14:coord-init:out-of-bounds", "point %d coordinate %d = %r outside [%r, %r]" % (k, j, P[k][j], xl[j], xu[j])))
            break
    # distances; slack = 4 ulp of the largest coordinate magnitude involved (x_k = x0 (+) t is rounded)
    slack = 4 * np.spacing(np.max(np.abs(x0c)) + 2 * d)
    for k in range(1, npt):
        dist = float(np.sqrt(np.sum((P[k] - x0c) ** 2)))
        if dist < 0.01 * d - slack:
            bad.append(("C14:coord-init:too-close", "point %d at distance %r < 0.01*rhobeg = %r from x0" % (k, dist, 0.01 * d)))
            break
        if dist > 2 * d + slack:
            bad.append(("C14:coord-init:too-far", "point %d at distance %r > 2*rhobeg = %r from x0" % (k, dist, 2 * d)))
            break
    # structure: point k <= 2n moves one coordinate only; first n directions diagonal with non-zero entries
    D = P[1:min(n, npt - 1) + 1] - x0c
    if D.shape[0] == n:
        off = D - np.diag(np.diag(D))
        if np.any(off != 0) or np.any(np.diag(D) == 0):
            bad.append(("C14:coord-init:not-affinely-independent", "directions of the first n+1 points are not a non-singular diagonal matrix"))
    for i in range(n):
        if n + 1 + i < npt and P[n + 1 + i][i] == P[1 + i][i]:
            bad.append(("C14:coord-init:steps-coincide", "first and second step along coordinate %d coincide" % i))
    if np.linalg.matrix_rank(np.hstack([np.ones((npt, 1)), (P - x0c) / d])) < n + 1:
        bad.append(("C14:coord-init:rank", "design matrix [1 | (x_k - x0)/rhobeg] is rank deficient"))
    if "W" in cap:
        cond = float(np.linalg.cond(cap["W"]))
        if not cond < 1e4:
            bad.append(("C14:coord-init:cond", "cond(interpolation_matrix) = %.3g >= 1e4" % cond))
        case["_cond"] = cond
    return bad, "ran"


def check_dirs(D, c, which, neg=True):
    n, num, delta = c["n"], c["num"], c["delta"]
    bad = []
    if D.shape != (num, n):
        bad.append(("C14:%s:count" % which, "returned shape %s for num_pts=%d, n=%d" % (D.shape, num, n)))
        return bad
    if np.any(D < c["lower"]) or np.any(D > c["upper"]):
        bad.append(("C14:%s:out-of-bounds" % which, "a returned direction violates lower <= d <= upper"))
    if not np.all(np.isfinite(D)):
        bad.append(("C14:%s:non-finite" % which, "a returned direction has a non-finite entry"))
    nact = int(np.sum((c["lower"] == 0) | (c["upper"] == 0)))
    nin = n - nact
    for i in range(num):
        L = float(np.linalg.norm(D[i]))
        if L > delta * (1 + 1e-12):
            if which == "orthog-dirs":
                blk = 1 if i < nin else 2 if i < n else 3 if (neg and i < n + nin) else 4 if (neg and i < 2 * n) else 5
                if blk == 4 and L <= 2 * delta * (1 + 1e-12):
                    bad.append(("C14:orthog-dirs:block4-length-2delta",
                                "direction %d (extra direction for an active constraint, util.py:148-157) has length %r = %.3g*delta" % (i, L, L / delta)))
                else:
                    bad.append(("C14:orthog-dirs:block%d-overlength" % blk, "direction %d has length %r > delta = %r" % (i, L, delta)))
            else:
                bad.append(("C14:rand-dirs:overlength", "direction %d has length %r > delta = %r" % (i, L, delta)))
            break
    return bad


def jsonable(c):
    return {k: (v.tolist() if hasattr(v, "tolist") else v) for k, v in c.items() if not k.startswith("_")}


def scaled_init_case(dfols, seed):
    """one run of the scaled-initial-set suite; returns ([(signature, what)], (evaluations, points on the upper bound) or None)"""
    rng = np.random.default_rng(seed)
    n = int(rng.integers(1, 5))
    xl = np.round(rng.uniform(-3, 1, size=n), int(rng.integers(1, 3)))
    # both bounds short decimal literals (xu is NOT built as xl + width: then xl + (xu - xl) would reproduce it)
    xu = np.round(xl + rng.uniform(0.5, 4, size=n), int(rng.integers(1, 3)))
    x0 = xl + (xu - xl) * rng.uniform(0, 1, size=n)
    for j in range(n):
        u = rng.random()
        if u < 0.4:
            x0[j] = xu[j]
        elif u < 0.55:
            x0[j] = xl[j]
        elif u < 0.7:
            x0[j] = xu[j] - (xu[j] - xl[j]) * 0.1 * rng.random()
    npt = int(rng.integers(n + 1, 2 * n + 2))
    calls = []

    def f(x):
        calls.append(np.array(x, dtype=float, copy=True))
        return np.array([float(np.sum(x)) - 1.0, float(x[0])])
    try:
        core.with_alarm(20, dfols.solve, f, x0.copy(), bounds=(xl.copy(), xu.copy()), npt=npt, maxfun=npt, scaling_within_bounds=True, do_logging=False)
    except core.Alarm:
        return [], None
    except Exception as e:
        return [("C14:scaled-init:solve-raised:" + type(e).__name__, "dfols.solve raised %r" % (e,))], None
    on_ub = 0
    for k, x in enumerate(calls[:npt]):
        on_ub += int(np.any(x == xu))
        if np.any(x < xl) or np.any(x > xu):
            return [("C14:scaled-init:outside-bounds", "evaluation %d of the initial set is outside the bounds by %.3e (scaling_within_bounds, xl=%s, xu=%s, x=%s)"
                     % (k + 1, float(max(np.max(xl - x), np.max(x - xu))), xl.tolist(), xu.tolist(), x.tolist()))], (len(calls), on_ub)
    return [], (len(calls), on_ub)


def search(ctx):
    dfols = core.import_dfols()
    from dfols import util as U
    boost = getattr(ctx, "boost", 1)
    if boost == 1 and any(b["name"].startswith("correspondence:") for b in ctx.broken):
        boost = 5       # model and code disagree: enlarge the search even if a recorded finding is already in ctx.failures
        ctx.notes.append("C14: enlarged failing-input search (x5) because a correspondence broke")
    elif boost > 1 and getattr(ctx, "_c14_boosted", False):
        return          # already ran enlarged
    ctx._c14_boosted = boost > 1
    seen_sig = set(f.signature for f in ctx.failures)

    def report(sig, what, replay):
        if sig in seen_sig:
            ctx.count("search_repeat_failures:" + sig)
            return
        seen_sig.add(sig)
        ctx.fail(sig, what, replay)

    # coordinate initialisation on the real solver
    ncase = ctx.scale(1500, 10000) * boost
    status = {}
    worst_cond = 0.0
    fixed = fixed_placements()
    for i in range(-len(fixed), ncase):
        rng = np.random.default_rng([ctx.seed, 1411, boost, i + len(fixed)])
        case = fixed[i + len(fixed)] if i < 0 else gen_placement(rng, nmax=8, big_npt_share=0.25, stress=(i % 5 == 4))
        try:
            bad, st = check_init_case(dfols, case, rng, i % 2)
        except core.Alarm:
            bad, st = None, "alarm"
        except Exception as e:   # the real code raised during initialisation: the npt evaluations did not happen
            bad, st = [("C14:coord-init:solve-raised:" + type(e).__name__, "dfols.solve raised %r" % (e,))], "raised"
        status[st] = status.get(st, 0) + 1
        ctx.seen(("c14search-init", i, case["n"], case["npt"], tuple(case["tags"])))
        worst_cond = max(worst_cond, case.get("_cond", 0.0))
        for sig, what in (bad or []):
            report(sig, what, {"kind": "init", "seed": [ctx.seed, 1411, boost, i + len(fixed)], "fixed_index": (i + len(fixed) if i < 0 else None),
                               "style": i % 2, "stress": bool(i % 5 == 4), "case": jsonable(case)})
    ctx.cov["search_init"] = {"runs": ncase + len(fixed), "status": status, "worst_cond_interpolation_matrix": worst_cond}

    # the initial set under INTERNAL SCALING: boxes whose width is not exactly representable (xl + (xu - xl) rounds above xu), x0 on or
    # within rhobeg of a bound: the first npt evaluations, as the objective receives them, lie inside the user's box exactly
    # (seeded change C14_13 un-scaled without the final clip)
    st_sc = {"runs": 0, "evaluations": 0, "on_upper_bound": 0}
    for i in range(ctx.scale(120, 1200) * boost):
        seed = [ctx.seed, 1412, boost, i]
        bad, info = scaled_init_case(dfols, seed)
        ctx.seen(("c14scaled", i))
        if info is not None:
            st_sc["runs"] += 1
            st_sc["evaluations"] += info[0]
            st_sc["on_upper_bound"] += info[1]
        for sig, what in bad:
            report(sig, what, {"kind": "scaled-init", "seed": seed})
    ctx.cov["search_scaled_init"] = st_sc

    # the minimal documented call of the recorded finding, always exercised
    D = U.random_orthog_directions_within_bounds(2, 1.0, np.array([0.0]), np.array([3.0]))
    for sig, what in check_dirs(D, {"n": 1, "num": 2, "delta": 1.0, "lower": np.array([0.0]), "upper": np.array([3.0])}, "orthog-dirs"):
        report(sig, what, {"kind": "gen-fixed", "call": "random_orthog_directions_within_bounds(2, 1.0, np.array([0.0]), np.array([3.0]))",
                           "returned": D.tolist()})

    # generators, all active-set patterns
    ngen = ctx.scale(9000, 60000) * boost
    pats = set()
    for i in range(ngen):
        rng = np.random.default_rng([ctx.seed, 1412, boost, i])
        c = gen_dir_case(rng, nmax=8, band=(i % 12 == 11))
        np.random.seed(int(rng.integers(2 ** 31)))
        which = i % 3
        try:
            if which == 0:
                D = U.random_directions_within_bounds(c["num"], c["delta"], c["lower"], c["upper"])
                bad = check_dirs(D, c, "rand-dirs")
            else:
                neg = which == 1 or i % 2 == 0
                D = U.random_orthog_directions_within_bounds(c["num"], c["delta"], c["lower"], c["upper"], with_neg_dirns=neg)
                bad = check_dirs(D, c, "orthog-dirs", neg)
        except AssertionError:
            ctx.count("search_gen_rejected_by_asserts")
            continue
        except Exception as e:
            bad = [("C14:%s:raised:%s" % ("rand-dirs" if which == 0 else "orthog-dirs", type(e).__name__), "generator raised %r" % (e,))]
        pats.add((c["n"], c["pattern"]))
        ctx.seen(("c14search-gen", i, which, c["n"], c["num"], c["pattern"]))
        for sig, what in bad:
            report(sig, what, {"kind": "gen", "which": which, "neg": bool(which == 1 or i % 2 == 0), "np_seed_from": [ctx.seed, 1412, boost, i],
                               "case": jsonable(c), "band": bool(i % 12 == 11)})
    ctx.cov["search_generators"] = {"calls": ngen, "distinct_(n,active-set pattern)": len(pats)}


def replay(payload):
    dfols = core.import_dfols()
    from dfols import util as U
    rp = payload.get("replay", {})
    want = payload.get("signature")
    kind = rp.get("kind")
    if kind == "init":
        rng = np.random.default_rng(rp["seed"])
        if rp.get("fixed_index") is not None:
            case = fixed_placements()[rp["fixed_index"]]
        else:
            case = gen_placement(rng, nmax=8, big_npt_share=0.25, stress=rp.get("stress", False))
        try:
            bad, st = check_init_case(dfols, case, rng, rp["style"])
        except Exception as e:
            bad = [("C14:coord-init:solve-raised:" + type(e).__name__, "dfols.solve raised %r" % (e,))]
    elif kind == "gen":
        rng = np.random.default_rng(rp["np_seed_from"])
        c = gen_dir_case(rng, nmax=8, band=rp.get("band", False))
        np.random.seed(int(rng.integers(2 ** 31)))
        if rp["which"] == 0:
            bad = check_dirs(U.random_directions_within_bounds(c["num"], c["delta"], c["lower"], c["upper"]), c, "rand-dirs")
        else:
            D = U.random_orthog_directions_within_bounds(c["num"], c["delta"], c["lower"], c["upper"], with_neg_dirns=rp["neg"])
            bad = check_dirs(D, c, "orthog-dirs", rp["neg"])
    elif kind == "scaled-init":
        bad, _info = scaled_init_case(dfols, rp["seed"])
    elif kind == "gen-fixed":
        lo, up = np.array([0.0]), np.array([3.0])
        D = U.random_orthog_directions_within_bounds(2, 1.0, lo, up)
        bad = check_dirs(D, {"n": 1, "num": 2, "delta": 1.0, "lower": lo, "upper": up}, "orthog-dirs")
    else:
        print("replay file names a broken obligation, nothing to execute:", payload.get("broken"))
        return 1
    bad = [b for b in (bad or []) if want is None or b[0] == want]
    if not bad:
        print("replay: property holds on this input now")
        return 0
    print("replay: still fails:", bad[0][0], bad[0][1])
    return 1
