"""C15 — Dykstra's projection is feasible, near-optimal and respects its stopping rule.

Theorems: lean/DfolsVerif/Properties/C15.lean (about `Dykstra.dykstra`, Kernels/Dykstra.lean).
Correspondence (model vs dfols.util.dykstra on random intersections), two modes, both through the
SAME Lean definition the theorems are about, instantiated with IEEE doubles:
  * oracle mode  — the recorded projector outputs of the real run are fed to Lean as finite functions
    (lookup by bit pattern).  Lean recomputes `prev_x - y_i`, `y_i := x - (prev_x - prev_y)`, the sweep
    structure and the stopping test.  Because the elementwise part is bit-reproducible, every argument
    Lean hands to a projector must be *bitwise* one the real code produced (else the lookup misses) and
    the final point must be bitwise equal; the stopping sum (a BLAS reduction and a `pow`) is compared
    to 1e-12 relative; cases where some sweep's sum is within 1e-9·tol of tol are skipped and counted.
    Why this mode: it pins the data flow of util.py:233-247 exactly (any change to the `y` update, the
    order of projectors, the reset of `cI`, the loop condition shows as a bit mismatch) without ever
    comparing ulp-sensitive reductions bit for bit — so it cannot raise a false alarm.
  * closed-language mode — Lean also computes the projectors (pbox / pball / half-space); final points
    are compared to 1e-9·scale, sweep counts must agree except at near-ties (1e-6 relative).  This
    ties the `pbox`/`pball` kernels to util.py:252-257.
Search: the property's clauses stated directly on the real routine.
"""
import math
import os
for _v in ("OMP_NUM_THREADS", "OPENBLAS_NUM_THREADS", "MKL_NUM_THREADS"):   # tiny vectors: BLAS threads only burn CPU
    os.environ.setdefault(_v, "1")
import numpy as np
import core
from props import dykstra_common as dc

MODULE = "DfolsVerif.Properties.C15"
BUILD_TARGETS = ["DfolsVerif.Driver.DykstraDrv"]
def pre_build(ctx):
    import gen_kernels
    ctx.cov["translated_dykstra"] = gen_kernels.regenerate_dykstra(ctx)
    gen_kernels.regenerate_trproj(ctx)      # also the table of every dykstra call of the package


THEOREMS = [
    "Dfols.C15.C15_src_sweep_budget", "Dfols.C15.gen_dykstra_body", "Dfols.C15.gen_pball", "Dfols.C15.gen_dykstra_skeleton",
    "Dfols.C15.C15_feasible",
    "Dfols.C15.C15_feasible_infDist",
    "Dfols.C15.C15_stopped_of_sweeps_lt",
    "Dfols.C15.C15_sweeps",
    "Dfols.C15.C15_last_box",
    "Dfols.C15.C15_last_in",
    "Dfols.C15.C15_fixed_point",
    "Dfols.C15.C15_fixed_point_real",
    "Dfols.C15.C15_pball_fixes_ball",
    "Dfols.C15.C15_pbox_fixes_box",
    "Dfols.Dykstra.pball_in_ball",
    "Dfols.Dykstra.ball_last",
    "Dfols.C15.C15_near_optimal_counterexample_ieee",
]
LEVEL = "proof"
TRUSTED_EXTRA = [
    "AST-to-Lean translator harness/gen_kernels.py (translate_dykstra): the inner-loop body and pball as Ops terms, the loop skeleton and pbox as canonical text",
    "C15_feasible is an exact-arithmetic statement (real normed space); the float gap (O(eps*|x|) per sub-step, far below sqrt(tol)) is watched by the search with the bound sqrt(p*tol)(1+1e-9)+1e-15",
    "projectors are opaque maps in the theorems (only P_i v in C_i is used); pbox/pball themselves are tied to util.py by the closed-language correspondence",
    "NOT proved: 'within 1e-3 of the true projection' (C15_near_optimal, stated in a comment): not a consequence of the stopping rule; observed by the search against a reference run",
    "np.linalg.norm / np.dot (BLAS) and scalar pow are modelled by sequential double arithmetic and compared with tolerances; near-ties of the stopping test are skipped and counted",
    "max_iter is a natural number in the model (negative values behave as 0 in the code)",
]
EXPLANATION = ("Dykstra kernel: feasibility bound, sweep cap, last-set membership and fixed points are Lean theorems about the "
               "definition that the driver runs bit-for-bit against util.dykstra; near-optimality is observed, not proved.")

TOLS = [None, 1e-10, 1e-4, 1e-6, 4e-7, 1e-8, 1e-12, 1e-14, 0.0]
TOL_W = [0.30, 0.08, 0.08, 0.10, 0.08, 0.10, 0.10, 0.08, 0.08]
MAXIT = [None, 0, 1, 2, 3, 5, 10, 30, 100, 1000]
MAXIT_W = [0.35, 0.06, 0.07, 0.06, 0.06, 0.06, 0.08, 0.08, 0.08, 0.10]


def unit(rng, n):
    d = rng.normal(size=n)
    nd = float(np.linalg.norm(d))
    return d / nd if nd > 0 else np.ones(n) / math.sqrt(n)


def gen_case(rng):
    """random intersection of <= 4 balls / half-spaces / boxes with a common interior point z"""
    n = int(rng.integers(1, 7))
    p = int(rng.integers(1, 5))
    scale = float(10 ** rng.uniform(-1, 1.5))
    z = rng.normal(size=n) * scale
    thin = bool(rng.random() < 0.25)          # thin intersection: slow convergence, cap may be hit
    specs, margins = [], []
    for _ in range(p):
        kind = "BSH"[int(rng.integers(0, 3))]
        margin = scale * float(10 ** (rng.uniform(-4, -2) if thin else rng.uniform(-1.5, 0)))
        if kind == "S":
            r = max(scale * float(10 ** rng.uniform(-0.5, 1)), 2 * margin)
            c = z + unit(rng, n) * (r - margin)        # z at depth `margin` inside the ball
            specs.append(("S", c, float(r)))
        elif kind == "H":
            a = unit(rng, n) * float(10 ** rng.uniform(-1, 1))
            if n >= 2 and rng.random() < 0.35:
                # structured normals as users write them: an ordering constraint x_i <= x_j + c (normal e_i - e_j, whose
                # components sum to zero) or a single-coordinate half-space
                a = np.zeros(n)
                i, j = rng.choice(n, size=2, replace=False)
                a[i] = 1.0
                if rng.random() < 0.7:
                    a[j] = -1.0
                a *= float(rng.choice([1.0, -1.0, 0.5, 2.0]))
            b = float(np.dot(a, z)) + margin * float(np.linalg.norm(a))
            specs.append(("H", a, b))
        else:
            lo = z - margin * rng.uniform(1, 3, size=n)
            hi = z + margin * rng.uniform(1, 3, size=n)
            for j in range(n):                          # some sides absent, as solve() builds them
                u = rng.random()
                if u < 0.15:
                    lo[j] = -1e20
                elif u < 0.30:
                    hi[j] = 1e20
            specs.append(("B", lo, hi))
        margins.append(margin)
    if rng.random() < 0.35 and specs[-1][0] != "B":     # box last, as in solve()
        m = scale * float(10 ** rng.uniform(-1.5, 0))
        specs.append(("B", z - m * rng.uniform(1, 3, size=n), z + m * rng.uniform(1, 3, size=n)))
        margins.append(m)
        if len(specs) > 4:
            specs.pop(0)
            margins.pop(0)
    u = rng.random()
    if u < 0.2:
        start = "inside"
        x0 = z + unit(rng, n) * (0.3 * min(margins) * rng.random())
    elif u < 0.6:
        start = "near"
        x0 = z + unit(rng, n) * scale * float(10 ** rng.uniform(-1, 0.5))
    else:
        start = "far"
        x0 = z + unit(rng, n) * scale * float(10 ** rng.uniform(1, 3))
    tol = TOLS[int(rng.choice(len(TOLS), p=TOL_W))]
    max_iter = MAXIT[int(rng.choice(len(MAXIT), p=MAXIT_W))]
    return {"n": n, "specs": specs, "x0": x0, "tol": tol, "max_iter": max_iter, "start": start, "thin": thin,
            "scale": scale, "z": z}


def case_json(c):
    return {"n": c["n"], "specs": [dc.spec_json(s) for s in c["specs"]], "x0": [float(v) for v in c["x0"]],
            "tol": c["tol"], "max_iter": c["max_iter"], "start": c["start"]}


def case_from_json(j):
    return {"n": j["n"], "specs": [dc.spec_from_json(s) for s in j["specs"]], "x0": np.array(j["x0"], dtype=float),
            "tol": j["tol"], "max_iter": j["max_iter"], "start": j.get("start", "?"), "xstar": j.get("xstar")}


def run_real(dfols, c):
    from dfols.util import dykstra
    P = [dc.make_proj(dfols, s) for s in c["specs"]]
    return dc.record_call(dykstra, P, c["x0"].copy(), max_iter=c["max_iter"], tol=c["tol"])


def data_scale(c):
    m = float(np.max(np.abs(c["x0"])))
    for s in c["specs"]:
        for v in s[1:]:
            a = np.abs(np.atleast_1d(np.asarray(v, dtype=float)))
            a = a[a < 1e19]
            if a.size:
                m = max(m, float(np.max(a)))
    return 1.0 + m


# ------------------------------------------------------------------------------------------------
# correspondence
# ------------------------------------------------------------------------------------------------
def correspondence(ctx):
    dfols = core.import_dfols()
    ncase = ctx.scale(1500, 10000)
    cases, recs = [], []
    for i in range(ncase):
        rng = np.random.default_rng([ctx.seed, 15, i])
        c = gen_case(rng)
        try:
            r = run_real(dfols, c)
        except Exception as e:
            ctx.broke("correspondence:dykstra-real-raised", {"case": case_json(c), "error": repr(e)})
            continue
        cases.append(c)
        recs.append(r)
        ctx.seen(("c15corr", i, c["n"], len(c["specs"]), r.sweeps))
    lines, owner = [], []
    stats = {"cases": len(cases), "oracle_lines": 0, "closed_lines": 0, "oracle_too_long": 0,
             "near_tie_skips_oracle": 0, "near_tie_skips_closed": 0, "inconsistent_record": 0,
             "sweeps_0": 0, "sweeps_cap": 0, "stopped_by_rule": 0,
             "max_rel_cI_dev_oracle": 0.0, "max_x_dev_closed_rel": 0.0}
    for k, (c, r) in enumerate(zip(cases, recs)):
        if not r.consistent and r.max_iter > 0:
            stats["inconsistent_record"] += 1
            ctx.broke("correspondence:dykstra-call-structure",
                      {"case": case_json(c), "calls": len(r.calls), "norms": len(r.norms), "p": r.p})
            continue
        stats["sweeps_0"] += r.sweeps == 0
        stats["sweeps_cap"] += (r.sweeps == r.max_iter and not r.stopped)
        stats["stopped_by_rule"] += r.stopped
        if len(r.calls) <= 600:
            lines.append(dc.line_oracle(r, c["n"]))
            owner.append((k, "oracle"))
            stats["oracle_lines"] += 1
        else:
            stats["oracle_too_long"] += 1
        lines.append(dc.line_closed(c["specs"], c["x0"], r.max_iter, r.tol))
        owner.append((k, "closed"))
        stats["closed_lines"] += 1
    replies = []
    for a in range(0, len(lines), 1500):          # chunked: oracle lines can be ~100 kB each
        replies += core.run_driver(lines[a:a + 1500], main=dc.MAIN)
    nbad = 0
    for (k, mode), rep in zip(owner, replies):
        c, r = cases[k], recs[k]
        got = dc.parse_reply(rep)
        if got is None:
            ctx.broke("correspondence:dykstra-driver-reply", {"mode": mode, "reply": rep[:200], "case": case_json(c)})
            continue
        sweeps, stopped, cI, xs = got
        real_cI = r.cI_hist[-1] if r.cI_hist else None
        if mode == "oracle":
            if dc.near_tie(r, 1e-9):
                stats["near_tie_skips_oracle"] += 1
                continue
            ok = (sweeps == r.sweeps and stopped == r.stopped and dc.vec_bits_equal(r.x, xs)
                  and ((cI is None) == (real_cI is None)))
            if ok and cI is not None:
                dev = abs(cI - real_cI) / max(real_cI, 1e-300) if real_cI != cI else 0.0
                stats["max_rel_cI_dev_oracle"] = max(stats["max_rel_cI_dev_oracle"], dev)
                ok = dev <= 1e-12 or abs(cI - real_cI) <= 1e-300
            if not ok:
                nbad += 1
                if nbad <= 5:
                    ctx.broke("correspondence:dykstra-oracle-mode",
                              {"case": case_json(c), "lean": rep[:300], "real": {"sweeps": r.sweeps, "stopped": r.stopped,
                                                                               "cI": real_cI, "x": [float(v) for v in r.x]}})
        else:
            if dc.near_tie(r, 1e-6):
                stats["near_tie_skips_closed"] += 1
                continue
            xl = dc.bits_vec(xs)
            sc = data_scale(c)
            dev = float(np.max(np.abs(xl - r.x))) / sc if len(xl) == len(r.x) and not np.any(np.isnan(xl)) else float("inf")
            stats["max_x_dev_closed_rel"] = max(stats["max_x_dev_closed_rel"], dev if dev < float("inf") else 1e300)
            ok = sweeps == r.sweeps and stopped == r.stopped and dev <= 1e-9
            if ok and real_cI is not None and cI is not None and real_cI > 1e-22 * sc * sc:
                ok = abs(cI - real_cI) <= 1e-4 * real_cI + 1e-24 * sc * sc
            if not ok:
                nbad += 1
                if nbad <= 5:
                    ctx.broke("correspondence:dykstra-closed-mode",
                              {"case": case_json(c), "lean": rep[:300], "x_dev_rel": dev,
                               "real": {"sweeps": r.sweeps, "stopped": r.stopped, "cI": real_cI, "x": [float(v) for v in r.x]}})
    stats["mismatches"] = nbad
    ctx.cov["correspondence_dykstra"] = stats
    if cases:
        c, r = cases[0], recs[0]
        ctx.add_sample({"kind": "dykstra case", "case": case_json(c), "real_sweeps": r.sweeps, "real_stopped": r.stopped,
                        "protocol_closed": dc.line_closed(c["specs"], c["x0"], r.max_iter, r.tol)[:300]})


# ------------------------------------------------------------------------------------------------
# search: the property on the real routine
# ------------------------------------------------------------------------------------------------
def check_case(dfols, c, want_ref=True):
    """returns (list of (signature, what), info dict)"""
    r = run_real(dfols, c)
    specs = c["specs"]
    p = len(specs)
    fails = []
    info = {"sweeps": r.sweeps, "stopped": r.stopped, "cap": r.sweeps == r.max_iter and not r.stopped, "ref": None}
    # sweep cap
    if r.sweeps > r.max_iter:
        fails.append(("C15:sweep-cap", "%d sweeps with max_iter=%d" % (r.sweeps, r.max_iter)))
    # loop exit: fewer sweeps than the cap only if the rule was met (C15_stopped_of_sweeps_lt)
    if r.consistent and r.sweeps < r.max_iter and not r.stopped_rec and not (r.tol != r.tol):
        fails.append(("C15:left-loop-early", "left after %d < %d sweeps with cI=%r >= tol=%r"
                      % (r.sweeps, r.max_iter, r.cI_hist[-1] if r.cI_hist else None, r.tol)))
    # feasibility from the stopping rule
    if r.stopped:
        bound = math.sqrt(p * r.tol) * (1 + 1e-9) + 1e-15
        for i, s in enumerate(specs):
            d = dc.dist_to_set(s, r.x)
            if not d <= bound:
                fails.append(("C15:feasibility-bound", "stopped by rule (cI=%s < tol=%.3e, %d of at most %d sweeps) but dist to set %d (%s) = %.6e > sqrt(p*tol) = %.6e"
                              % ("%.3e" % r.cI_hist[-1] if r.cI_hist else "not recorded", r.tol, r.sweeps, r.max_iter, i, s[0], d, bound)))
                break
    # last set a box: exactly inside
    if specs[-1][0] == "B" and r.max_iter >= 1 and not dc.in_box_exact(specs[-1], r.x):
        fails.append(("C15:last-box-exact", "last set is a box, max_iter=%d, result %r outside [%r, %r]"
                      % (r.max_iter, r.x.tolist(), specs[-1][1].tolist(), specs[-1][2].tolist())))
    # fixed point: a point in all sets is returned unchanged up to rounding
    if c["start"] == "inside" and all(dc.dist_to_set(s, c["x0"]) == 0.0 for s in specs):
        dev = float(np.max(np.abs(r.x - c["x0"])))
        if not dev <= 64 * dc.EPS * data_scale(c) * max(1, r.sweeps):
            fails.append(("C15:fixed-point", "x0 in all sets moved by %.3e (sweeps=%d)" % (dev, r.sweeps)))
        info["fixed_point_checked"] = True
    # near-optimality against a reference run (only meaningful when stopped by rule)
    if r.stopped and want_ref:
        if c.get("xstar") is not None:            # crafted case: the projection is known in closed form
            xref, conv = np.array(c["xstar"], dtype=float), True
        else:
            xref, conv = dc.ref_dykstra(specs, c["x0"])
        info["ref"] = conv
        if conv:
            err = float(np.linalg.norm(r.x - xref))
            info["opt_err"] = err
            if not err <= 1e-3:
                if c.get("xstar") is not None:
                    sig = "C15:near-optimal-thin-intersection"
                else:
                    sig = "C15:near-optimal-loose-tol" if r.tol > 1e-8 else "C15:near-optimal-tight-tol"
                fails.append((sig, "stopped by rule with tol=%.3e after %d sweeps but %.3e from the projection onto the intersection"
                              % (r.tol, r.sweeps, err)))
    return fails, info


def crafted_cases():
    """deterministic corpus: thin intersections (with interior) and a starting point ~2e-3 outside them,
    DEFAULT tol and max_iter.  One sweep moves x by less than sqrt(tol) (the sets are nearly parallel
    there), the routine stops by its rule, yet the projection onto the intersection is 2e-3 away.
    The true projection is known in closed form (by symmetry it lies on the x-axis)."""
    out = []
    for h in (1e-8, 1e-9):                     # lens of two unit balls centred (0, +-(1-h)); half-width w
        w = math.sqrt(1 - (1 - h) ** 2)
        out.append({"n": 2, "specs": [("S", np.array([0.0, 1 - h]), 1.0), ("S", np.array([0.0, -(1 - h)]), 1.0)],
                    "x0": np.array([w + 2e-3, 0.0]), "tol": None, "max_iter": None, "start": "near", "thin": True,
                    "xstar": [w, 0.0], "name": "lens h=%g" % h})
    eps = 1e-3                                 # wedge |y| <= eps*x, apex at the origin
    out.append({"n": 2, "specs": [("H", np.array([-eps, 1.0]), 0.0), ("H", np.array([-eps, -1.0]), 0.0)],
                "x0": np.array([-2e-3, 0.0]), "tol": None, "max_iter": None, "start": "near", "thin": True,
                "xstar": [0.0, 0.0], "name": "wedge eps=1e-3"})
    return out


def search(ctx):
    dfols = core.import_dfols()
    crafted = []
    for c in crafted_cases():
        fails, info = check_case(dfols, c)
        ctx.seen(("c15crafted", c["name"]))
        crafted.append({"name": c["name"], "sweeps": info["sweeps"], "stopped_by_rule": info["stopped"],
                        "opt_err": info.get("opt_err"), "failed": [f[0] for f in fails]})
        for sig, what in fails[:1]:
            cj = case_json(c)
            cj["xstar"] = c["xstar"]
            ctx.fail(sig, "%s (default tol/max_iter): %s" % (c["name"], what), {"case": cj})
    ctx.cov["search_crafted_thin_intersections"] = crafted
    ncase = ctx.scale(4000, 40000) * getattr(ctx, "boost", 1)
    stats = {"cases": 0, "stopped_by_rule": 0, "hit_cap": 0, "zero_sweeps": 0, "fixed_point_checked": 0,
             "last_box": 0, "ref_converged": 0, "ref_not_converged_skipped": 0, "max_opt_err_tight": 0.0,
             "max_opt_err_loose": 0.0, "by_start": {}, "by_tol": {}, "thin": 0}
    seen_sig = {}
    for i in range(ncase):
        rng = np.random.default_rng([ctx.seed, 1515, i])
        c = gen_case(rng)
        try:
            fails, info = check_case(dfols, c)
        except Exception as e:
            ctx.fail("C15:raised", "dykstra raised %r" % (e,), {"case": case_json(c)})
            continue
        ctx.seen(("c15search", i, info["sweeps"], info["stopped"]))
        stats["cases"] += 1
        stats["stopped_by_rule"] += info["stopped"]
        stats["hit_cap"] += info["cap"]
        stats["zero_sweeps"] += info["sweeps"] == 0
        stats["fixed_point_checked"] += bool(info.get("fixed_point_checked"))
        stats["last_box"] += c["specs"][-1][0] == "B"
        stats["thin"] += c["thin"]
        stats["by_start"][c["start"]] = stats["by_start"].get(c["start"], 0) + 1
        tk = "default" if c["tol"] is None else "%g" % c["tol"]
        stats["by_tol"][tk] = stats["by_tol"].get(tk, 0) + 1
        if info["ref"] is True:
            stats["ref_converged"] += 1
            key = "max_opt_err_loose" if (c["tol"] is not None and c["tol"] > 1e-8) else "max_opt_err_tight"
            stats[key] = max(stats[key], info.get("opt_err", 0.0))
        elif info["ref"] is False:
            stats["ref_not_converged_skipped"] += 1
        for sig, what in fails:
            seen_sig[sig] = seen_sig.get(sig, 0) + 1
            if seen_sig[sig] <= 2:
                ctx.fail(sig, what, {"case": case_json(c), "seed": [ctx.seed, 1515, i]})
    stats["failures_by_signature"] = seen_sig
    ctx.cov["search_dykstra"] = stats
    callers_sweep_budget(ctx, dfols)


def callers_sweep_budget(ctx, dfols):
    """`at most max_iter sweeps` seen from the callers: the four convex sub-problem solvers are handed a Dykstra budget
    (`d_max_iters`, from `params('dykstra.max_iters')`); on thin wedges, where Dykstra stops by its budget, no single projection
    may use more sweeps than that.  Sweeps of one projection = calls of the first user projector between two consecutive
    calls of `dykstra` (counted by wrapping the module attribute; the wrapper does not look at the arguments)."""
    import dfols.trust_region as TR
    from dfols.util import dykstra as real_dykstra
    stats = {"solver_calls": 0, "projections": 0, "max_sweeps_seen": 0, "budgets": {}}
    state = {"cur": 0, "worst": 0}

    def wrapped(P, x0, *a, **k):
        state["cur"] = 0
        out = real_dykstra(P, x0, *a, **k)
        state["worst"] = max(state["worst"], state["cur"])
        stats["projections"] += 1
        return out

    saved = TR.dykstra
    TR.dykstra = wrapped
    try:
        for i in range(ctx.scale(12, 60)):
            rng = np.random.default_rng([ctx.seed, 1516, i])
            ang = float(rng.choice([0.01, 0.02, 0.05]))
            n1 = np.array([-np.sin(ang), np.cos(ang)])
            n2 = np.array([-np.sin(ang), -np.cos(ang)])

            def half(nrm):
                def pr(x, nrm=nrm):
                    t = float(np.dot(nrm, x))
                    return x - max(t, 0.0) * nrm
                return pr
            h1 = half(n1)

            def first(x, h1=h1):
                state["cur"] += 1
                return h1(x)
            P = [first, half(n2)]
            budget = int(rng.choice([3, 7, 20]))
            xopt = np.array([float(rng.uniform(0.5, 2.0)), 0.0])
            g = np.array([float(rng.uniform(0.5, 2.0)), float(rng.normal())])
            H = np.eye(2) * float(rng.uniform(0.0, 1.0))
            delta = float(rng.uniform(0.1, 1.0))
            lam = 0.1
            hfun = lambda x, lam=lam: lam * float(np.sum(np.abs(x)))
            prox = lambda x, u, lam=lam: np.sign(x) * np.maximum(np.abs(x) - lam * u, 0.0)
            for name, call in (("ctrsbox_pgd", lambda: TR.ctrsbox_pgd(xopt, g, H, P, delta, d_max_iters=budget, d_tol=1e-14)),
                               ("ctrsbox_sfista", lambda: TR.ctrsbox_sfista(xopt, g, H, P, delta, hfun, lam * np.sqrt(2.0), prox, func_tol=1e-3,
                                                                           max_iters=40, d_max_iters=budget, d_tol=1e-14)),
                               ("ctrsbox_geometry", lambda: TR.ctrsbox_geometry(xopt, 0.3, g, P, delta, d_max_iters=budget, d_tol=1e-14))):
                state["worst"] = 0
                try:
                    core.with_alarm(30, call)
                except core.Alarm:
                    continue
                stats["solver_calls"] += 1
                stats["max_sweeps_seen"] = max(stats["max_sweeps_seen"], state["worst"])
                stats["budgets"][str(budget)] = stats["budgets"].get(str(budget), 0) + 1
                ctx.seen(("c15callers", i, name, state["worst"] <= budget))
                if state["worst"] > budget:
                    ctx.fail("C15:caller-exceeds-sweep-budget:" + name,
                             "%s was given dykstra budget %d but one projection used %d sweeps" % (name, budget, state["worst"]),
                             {"callers": {"seed": [ctx.seed, 1516, i], "solver": name, "budget": budget}})
    finally:
        TR.dykstra = saved
    ctx.cov["search_callers_sweep_budget"] = stats


def replay(payload):
    dfols = core.import_dfols()
    rp = payload.get("replay", {})
    if "callers" in rp:
        class _C:
            seed = rp["callers"]["seed"][0]
            cov = {}
            fails = []
            def scale(self, a, b): return rp["callers"]["seed"][2] + 1
            def seen(self, *a): pass
            def fail(self, sig, what, rpl): self.fails.append((sig, what))
        c = _C()
        callers_sweep_budget(c, dfols)
        for sgn, w in c.fails:
            print("replay: still fails:", sgn, w)
        if not c.fails:
            print("replay: property holds on this input now")
        return 1 if c.fails else 0
    if "case" not in rp:
        print("replay file names a broken obligation, nothing to execute:", payload.get("broken"))
        return 1
    c = case_from_json(rp["case"])
    fails, info = check_case(dfols, c)
    sig = payload.get("signature")
    hit = [f for f in fails if sig is None or f[0] == sig]
    if not hit:
        print("replay: property holds on this input now", info)
        return 0
    for s, w in hit:
        print("replay: still fails:", s, w)
    return 1
