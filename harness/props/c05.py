"""C05 — Linear least-squares problems are solved to global optimality (PARTIAL).

Lean (Properties/C05.lean) proves the exact-arithmetic mechanisms only: `interp_affine_exact`,
`regression_affine_exact` (the model of affine residuals is the residual function, J = A),
`gauss_newton_exact` (g = 2J'r, H = 2J'J is the exact expansion), `objective_model_exact`, `ratio_eq_one(_regression)`.
The end-to-end claim (f - f* <= 1e-6(1+f*), feasibility, success flag) is NOT proved — this module's search is
what watches it.

Correspondence (the theorems' conclusions observed on the real solver, linear problems, wrapping
`Controller.calculate_ratio`): at every trust-region step
  (i)   model_jac equals A (in the solver's internal coordinates, A·diag(scale)) up to
        TOL_J*(n+1)*eps*cond(W)*posfac*(max|r|/delta + max|A_s|)                                [interp/regression_affine_exact]
  (ii)  what `Model.build_full_model` returns equals Lean's exact `IModel.buildFullModel` of the same
        (model_const, model_jac, xopt) up to forward rounding (every 5th call)                      [driver `ibuild`]
  (iii) actual_reduction - pred_reduction vanishes up to TOL_R*(n+1)*eps*cond(W)*posfac*S,  S = max stored sumsq(r)
        i.e. ratio = 1 whenever pred_reduction is not lost in rounding                             [ratio_eq_one]
  TOL_J = TOL_R = 64; distributions of the normalised errors and of |ratio-1| are recorded.
Search: end-to-end against scipy.optimize.lsq_linear / numpy.linalg.lstsq on the property's input space:
n <= 5 (quick) / 8 (thorough), m = n .. n+4 (full column rank), cond(A) <= 1e3, boxes none / around / away from the
unconstrained minimiser / x0 on a bound, scaling on/off, npt = n+1 and 2n+1, default budget and tolerances.
Checked: xl <= soln.x <= xu exactly, soln.obj == ||A soln.x - b||^2 (relative 1e-12), soln.obj - f* <= 1e-6(1+f*),
soln.flag == 0.  The oracle's own optimality is verified by its KKT residual (instances where it is not accurate to
1e-10 are skipped and counted).
"""
import json
import os

import numpy as np

import core
from props import interp_common as ic
from props.interp_common import EPS, Dy

MODULE = "DfolsVerif.Properties.C05"
BUILD_TARGETS = ["DfolsVerif.Driver.InterpDrv"]
THEOREMS = [
    "Dfols.C05.interp_affine_exact",
    "Dfols.C05.regression_affine_exact",
    "Dfols.C05.gauss_newton_exact",
    "Dfols.C05.objective_model_exact",
    "Dfols.C05.ratio_eq_one",
    "Dfols.C05.ratio_eq_one_regression",
]
TRUSTED_EXTRA = [
    "PARTIAL: proved = exact-arithmetic mechanisms (affine residuals are fitted exactly, Gauss-Newton model exact, ratio = 1); "
    "NOT proved = the property's headline: f - f* <= 1e-6(1+f*), feasibility of the result (C01) and the success flag — "
    "a convergence-with-rounding statement about the whole iteration; watched only by the sampled end-to-end search below",
    "search oracle: scipy.optimize.lsq_linear (bvls, tol 1e-14) / numpy.linalg.lstsq, accepted only when its KKT residual is <= 1e-10 relative to 2|A|'(|A||x|+|b|)",
    "LAPACK / BLAS, trsbox (C12), radius management (C18), exits (C10) are exercised, not verified, here",
]

LEVEL = "proof"
EXPLANATION = ("PARTIAL. Proved (Lean): the mechanisms — affine residuals are fitted exactly (interpolation and regression), the Gauss-Newton "
               "model is the exact expansion, actual = predicted reduction (ratio 1). NOT proved: the headline f - f* <= 1e-6(1+f*), feasibility "
               "and the success flag; that part is a sampled end-to-end search against lsq_linear (no proof claimed).")

TOL_J = 64.0
TOL_R = 64.0
SUITE = 501


class Instance:
    def __init__(self, rng, nmax=5):
        self.n = n = int(rng.integers(1, nmax + 1))
        self.m = m = n + int(rng.integers(0, 5))
        self.cond = float(10 ** rng.uniform(0, 3))
        U, _ = np.linalg.qr(rng.normal(size=(m, n)))
        V, _ = np.linalg.qr(rng.normal(size=(n, n)))
        s = np.ones(1) if n == 1 else 10 ** np.linspace(0, -np.log10(self.cond), n)
        s = s * float(10 ** rng.uniform(-1, 1))
        self.A = (U * s[None, :]).dot(V.T)
        xstar = rng.normal(size=n) * float(10 ** rng.uniform(-1, 1))
        self.b = self.A.dot(xstar) + rng.normal(size=m) * (0.0 if (m == n or rng.random() < 0.2) else float(10 ** rng.uniform(-3, 0)))
        self.x0 = xstar + rng.normal(size=n) * float(10 ** rng.uniform(-1, 1))
        xunc = np.linalg.lstsq(self.A, self.b, rcond=None)[0]
        u = rng.random()
        self.bkind = "none" if u < 0.3 else ("around" if u < 0.5 else ("away" if u < 0.8 else "mixed"))
        if self.bkind == "none":
            self.bounds = None
        else:
            w = rng.uniform(0.2, 3.0, size=n)
            # (choices added later come from an auxiliary generator, so that the instances of earlier suites and of the corpus -
            # which are re-created from their seed - stay what they were)
            aux = np.random.default_rng([n, m, int(self.cond * 1e6)])
            self.thin = bool(aux.random() < 0.2)
            if self.thin:
                # one side of the box much shorter than 2 * (default rhobeg = 0.1): legal with internal scaling, where rhobeg refers to
                # the [0, 1] box (seeded change C05_10 rejected such problems as input errors)
                w[int(aux.integers(0, n))] = float(aux.uniform(0.01, 0.045))
            if self.bkind == "around":
                lo, hi = np.minimum(xunc, self.x0) - w, np.maximum(xunc, self.x0) + w
            elif self.bkind == "away":
                off = rng.choice([-1.0, 1.0], size=n) * rng.uniform(0.3, 2.0, size=n) * (1 + np.abs(xunc))
                c = xunc + off
                lo, hi = c - np.minimum(w, 0.9 * np.abs(off)), c + np.minimum(w, 0.9 * np.abs(off))
            else:
                lo, hi = xunc - w, xunc + w
                for j in range(n):
                    if rng.random() < 0.5:
                        if rng.random() < 0.5:
                            hi[j] = xunc[j] - 0.3 * w[j]
                            lo[j] = hi[j] - 2 * w[j]
                        else:
                            lo[j] = xunc[j] + 0.3 * w[j]
                            hi[j] = lo[j] + 2 * w[j]
            self.bounds = (lo, hi)
            if rng.random() < 0.25:
                j = int(rng.integers(0, n))
                self.x0 = self.x0.copy()
                self.x0[j] = lo[j] if rng.random() < 0.5 else hi[j]
            self.x0 = np.minimum(np.maximum(self.x0, lo), hi)
        self.scaling = bool(self.bounds is not None and (rng.random() < 0.5 or getattr(self, "thin", False)))
        # the nsamples callback asking for several evaluations per point (of the same deterministic residuals): the averaged problem
        # is the same linear problem; the budget is scaled with the sample count (seeded change C05_9: extra samples at x0 taken at
        # the SCALED point)
        self.nsamp = int(rng.integers(2, 4)) if rng.random() < 0.15 else 1
        # documented option: the diagnostic table (with its poisedness column) must only OBSERVE the run (seeded change C05_13: the
        # poisedness computation shifted the model's bounds in place)
        self.diag = bool(rng.random() < 0.15)
        self.npt = n + 1 if rng.random() < 0.5 else 2 * n + 1
        # documented option: hard restarts (a restarted run starts from the best point and re-uses its residuals; on a linear problem
        # it ties with the previous run, which must count as UNsuccessful so that the run still ends with success)
        self.hard_restarts = bool(rng.random() < 0.15)

    def describe(self):
        return {"n": self.n, "m": self.m, "cond_A": self.cond, "bounds": self.bkind, "scaling": self.scaling, "npt": self.npt, "hard_restarts": self.hard_restarts, "nsamples": self.nsamp, "diagnostics": bool(getattr(self, "diag", False)), "thin_box": bool(getattr(self, "thin", False)),
                "x0_on_bound": bool(self.bounds is not None and np.any((self.x0 == self.bounds[0]) | (self.x0 == self.bounds[1])))}

    def objfun(self, x):
        return self.A.dot(x) - self.b

    def solve(self, dfols):
        kw = dict(npt=self.npt, do_logging=False, scaling_within_bounds=self.scaling)
        if getattr(self, "diag", False):
            kw.setdefault("user_params", {})["logging.save_diagnostic_info"] = True
        if self.nsamp > 1:
            kw["nsamples"] = lambda delta, rho, it, nruns, k=self.nsamp: k
            kw["maxfun"] = self.nsamp * min(100 * (self.n + 1), 1000)
        if self.hard_restarts:
            kw["user_params"] = {"restarts.use_restarts": True, "restarts.use_soft_restarts": False}
        if self.bounds is not None:
            kw["bounds"] = (self.bounds[0].copy(), self.bounds[1].copy())
            if not self.scaling:
                gap = float(np.min(self.bounds[1] - self.bounds[0]))
                default = 0.1 * max(float(np.max(np.abs(self.x0))), 1.0)
                if gap < 2 * default:
                    kw["rhobeg"] = 0.45 * gap
        try:
            return core.with_alarm(30, dfols.solve, self.objfun, self.x0.copy(), **kw)
        except core.Alarm:
            return "alarm"
        except TypeError as e:
            if "OptimResults" in str(e):
                return "input-error"
            return "raised:TypeError"
        except Exception as e:      # the solver crashed on a well-posed linear problem: a failure of C05, not of the harness
            return "raised:" + type(e).__name__

    def oracle(self):
        """(f*, x*, kkt) of min ||Ax-b||^2 s.t. bounds; kkt = relative violation of the optimality conditions"""
        from scipy.optimize import lsq_linear
        A, b = self.A, self.b
        if self.bounds is None:
            x = np.linalg.lstsq(A, b, rcond=None)[0]
            lo, hi = -np.inf * np.ones(self.n), np.inf * np.ones(self.n)
        else:
            lo, hi = self.bounds
            res = lsq_linear(A, b, bounds=(lo, hi), method="bvls", tol=1e-14, max_iter=1000)
            x = np.minimum(np.maximum(res.x, lo), hi)
        r = A.dot(x) - b
        g = 2 * A.T.dot(r)
        gs = 2 * np.abs(A).T.dot(np.abs(A).dot(np.abs(x)) + np.abs(b)) + 1e-300      # size of the terms of the gradient before cancellation
        viol = 0.0
        for j in range(self.n):
            at_lo, at_hi = x[j] <= lo[j], x[j] >= hi[j]
            if at_lo and not at_hi:
                v = max(0.0, -g[j])
            elif at_hi and not at_lo:
                v = max(0.0, g[j])
            elif at_lo and at_hi:
                v = 0.0
            else:
                v = abs(g[j])
            viol = max(viol, v / gs[j])
        return float(r.dot(r)), x, viol


def check_instance(inst, soln):
    """returns (status, info): ok / skip:<why> / fail:<signature>"""
    if isinstance(soln, str):
        if soln == "alarm":
            return "fail:C05:no-termination-in-30s", {"what": "dfols.solve did not return within 30 s on a linear problem with the default budget"}
        if soln.startswith("raised:"):
            return "fail:C05:solve-raises:" + soln[7:], {"what": "dfols.solve raised %s on a well-posed linear least-squares problem" % soln[7:]}
        return "skip:" + soln, {}
    fstar, xstar, kkt = inst.oracle()
    if kkt > 1e-10:
        return "skip:oracle-kkt-inaccurate", {"kkt": kkt}
    if soln.x is None or soln.obj is None:
        # a result without a solution (input-error flag) on a well-posed problem of the property's domain
        return ("fail:C05:no-solution:flag=%d" % int(soln.flag),
                {"what": "dfols.solve returned no solution: flag %d, '%s'" % (int(soln.flag), str(soln.msg)[:120]), "fstar": fstar})
    x = np.asarray(soln.x, dtype=float)
    info = {"fstar": fstar, "obj": float(soln.obj), "flag": int(soln.flag), "nf": int(soln.nf), "msg": str(soln.msg)[:80]}
    cls = "%s:%s:npt=%s" % (inst.bkind, "scaled" if inst.scaling else "unscaled", "n+1" if inst.npt == inst.n + 1 else "2n+1")
    if inst.bounds is not None and (np.any(x < inst.bounds[0]) or np.any(x > inst.bounds[1])):
        info["what"] = "returned point violates the bounds by %.3e" % float(max(np.max(inst.bounds[0] - x), np.max(x - inst.bounds[1])))
        return "fail:C05:infeasible:" + cls, info
    r = inst.A.dot(x) - inst.b
    fx = float(r.dot(r))
    if abs(fx - float(soln.obj)) > 1e-12 * (1.0 + fx) + 64 * EPS * float((np.abs(inst.A).dot(np.abs(x)) + np.abs(inst.b)).dot(np.abs(r))):
        info["what"] = "soln.obj = %.17g is not ||A soln.x - b||^2 = %.17g" % (float(soln.obj), fx)
        return "fail:C05:obj-not-at-x:" + cls, info
    gap = float(soln.obj) - fstar
    info["gap_over_tol"] = gap / (1e-6 * (1.0 + fstar))
    if gap > 1e-6 * (1.0 + fstar):
        info["what"] = "soln.obj - f* = %.3e > 1e-6(1+f*) = %.3e (f*=%.6g, flag=%d '%s', nf=%d)" % (gap, 1e-6 * (1 + fstar), fstar, int(soln.flag), info["msg"], int(soln.nf))
        return "fail:C05:suboptimal:" + cls, info
    if gap < -1e-9 * (1.0 + fstar):
        return "skip:oracle-worse-than-dfols", info
    if int(soln.flag) == 1 and getattr(inst, "hard_restarts", False):
        # hard restarts (an option outside the property's 'default' run, drawn to watch the restart merge): restarts go on until
        # restarts.max_unsuccessful_restarts runs IN A ROW fail to improve or the budget ends; on a linear problem a restarted run
        # can improve the objective by a rounding-level amount and count as successful, so the number of runs is not bounded by 11
        # and the max-evaluations warning at the optimum is what the option documents.  (A first version of this rule demanded
        # <= 11 runs and raised a false alarm on the unchanged tree: n = 8, npt = 17, 900 evaluations.)
        info["hard_restarts_budget_end"] = int(soln.nruns)
        return "ok", info
    if int(soln.flag) != 0:
        info["what"] = "optimal point found (gap %.2e) but flag = %d ('%s'), not success" % (gap, int(soln.flag), info["msg"])
        return "fail:C05:flag-not-success:flag=%d" % int(soln.flag), info
    return "ok", info


# ----------------------------------------------------------------------------------------------
# correspondence: the theorems' conclusions at every trust-region step
# ----------------------------------------------------------------------------------------------
def correspondence(ctx):
    dfols = core.import_dfols()
    from dfols.controller import Controller
    nrun = ctx.scale(60, 400)
    obs = []
    cur = {}
    orig = Controller.calculate_ratio

    def wrapped(self, x, current_iter, rvec_list, d, gopt, H):
        md = self.model
        try:
            p = md.npt()
            W = md.interpolation_matrix()[0]
            obs.append({"inst": cur["i"], "d": np.array(d, copy=True), "g": np.array(gopt, copy=True), "H": np.array(H, copy=True),
                        "objopt": float(md.objopt()), "rmean": np.mean(rvec_list, axis=0), "c": md.model_const.copy(), "J": md.model_jac.copy(),
                        "xopt": md.xopt().copy(), "xbase": md.xbase.copy(), "Y": md.points[:p, :].copy(), "F": md.fval_v[:p, :].copy(),
                        "kappa": ic.cond2(W), "delta_pts": float(np.sqrt(np.max(md.distances_to_xopt()))), "tr_delta": float(self.delta)})
        except Exception as e:       # never disturb the run
            obs.append({"inst": cur["i"], "error": repr(e)})
        out = orig(self, x, current_iter, rvec_list, d, gopt, H)
        obs[-1]["ratio"] = float(out[0])
        return out

    from dfols.model import Model
    builds = []
    orig_build = Model.build_full_model

    def wrapped_build(self):
        g, H = orig_build(self)
        cur["nbuild"] = cur.get("nbuild", 0) + 1
        if cur["nbuild"] % 5 == 0 and np.all(np.isfinite(self.model_const)) and np.all(np.isfinite(self.model_jac)):
            builds.append({"inst": cur["i"], "c": self.model_const.copy(), "J": self.model_jac.copy(), "xopt": self.xopt().copy(),
                           "g": np.array(g, copy=True), "H": np.array(H, copy=True)})
        return g, H

    insts = {}
    Controller.calculate_ratio = wrapped
    Model.build_full_model = wrapped_build
    try:
        for i in range(nrun):
            rng = np.random.default_rng([ctx.seed, SUITE, 9, i])
            inst = Instance(rng, nmax=ctx.scale(5, 8))
            insts[i] = inst
            cur["i"] = i
            soln = inst.solve(dfols)
            ctx.seen(("c05corr", i, inst.describe()))
    finally:
        Controller.calculate_ratio = orig
        Model.build_full_model = orig_build
    stats, counts = {}, {}
    lines, expect = [], []
    nbad = 0
    for k, o in enumerate(obs):
        if "error" in o:
            ctx.broke("correspondence:wrapper", o["error"])
            continue
        inst = insts[o["inst"]]
        n, m = inst.n, inst.m
        shift, scale = (inst.bounds[0], inst.bounds[1] - inst.bounds[0]) if inst.scaling else (np.zeros(n), np.ones(n))
        As = inst.A * scale[None, :]
        kappa = o["kappa"]
        if not np.isfinite(kappa) or kappa > 1e10 or o["delta_pts"] == 0.0:
            counts["skipped_cond"] = counts.get("skipped_cond", 0) + 1
            continue
        zabs = np.abs(o["xbase"])[None, :] + np.abs(o["Y"])
        posfac = 1.0 + float(np.max(np.abs(shift) / scale + np.max(zabs, axis=0))) / o["delta_pts"]
        Rmax = float(np.max(np.abs(o["F"])))
        # (i) J = A in internal coordinates
        unitJ = EPS * kappa * posfac * (Rmax / o["delta_pts"] + float(np.max(np.abs(As))))
        eJ = float(np.max(np.abs(o["J"] - As))) / unitJ
        stats.setdefault("jac_minus_A_over_eps_cond_posfac_scale", []).append(eJ)
        if eJ > TOL_J * (n + 1):
            nbad += 1
            if nbad <= 4:
                ctx.broke("correspondence:interp_affine_exact-on-real-model", {"instance": inst.describe(), "normalised": eJ, "cond_W": kappa})
        # (iii) actual = predicted
        d, g, H = o["d"], o["g"], o["H"]
        pred = -float(np.dot(d, g + 0.5 * H.dot(d)))
        actual = o["objopt"] - float(np.dot(o["rmean"], o["rmean"]))
        S = float(max(np.max(np.sum(o["F"] ** 2, axis=1)), np.dot(o["rmean"], o["rmean"])))
        unitR = EPS * kappa * posfac * S
        eR = abs(actual - pred) / unitR if unitR > 0 else 0.0
        stats.setdefault("actual_minus_pred_over_eps_cond_posfac_S", []).append(eR)
        if pred > 1e-6 * S:
            stats.setdefault("abs_ratio_minus_1_when_pred_gt_1e-6_S", []).append(abs(o["ratio"] - 1.0))
        counts["tr_steps"] = counts.get("tr_steps", 0) + 1
        if eR > TOL_R * (n + 1):
            nbad += 1
            if nbad <= 4:
                ctx.broke("correspondence:ratio_eq_one-on-real-solver", {"instance": inst.describe(), "normalised": eR, "ratio": o["ratio"],
                                                                         "actual": actual, "pred": pred, "cond_W": kappa})

    # (ii) Lean's exact buildFullModel vs what build_full_model returned for the same (model_const, model_jac, xopt)
    for bd in builds:
        inst = insts[bd["inst"]]
        n, m = inst.n, inst.m
        c, J, xo = bd["c"], bd["J"], bd["xopt"]
        rabs = np.abs(c) + np.abs(J).dot(np.abs(xo))
        G = 2.0 * np.abs(J).T.dot(rabs)
        HH = 2.0 * np.abs(J).T.dot(np.abs(J))
        lines.append("ibuild %d %d | %s | %s | %s" % (n, m, ic.rat_tokens(xo), ic.rat_tokens(c), ic.rat_tokens(J)))
        expect.append({"g": bd["g"], "H": bd["H"], "tolg": 2 * (n + m + 4) * EPS * G + 1e-300, "tolH": 2 * (m + 4) * EPS * HH + 1e-300,
                       "inst": inst.describe()})
    if lines:
        replies = ic.run_interp_driver(lines)
        for exp, rep in zip(expect, replies):
            got = ic.parse_rats(rep)
            n = len(exp["g"])
            gL = np.array([float(v) for v in got[:n]])
            HL = np.array([float(v) for v in got[n:]]).reshape(n, n)
            eg = float(np.max(np.abs(gL - exp["g"]) / exp["tolg"]))
            stats.setdefault("buildFullModel_g_err_over_bound", []).append(eg)
            if np.any(np.abs(HL - exp["H"]) > exp["tolH"]) or eg > 1.0:
                nbad += 1
                counts["buildFullModel_mismatch"] = counts.get("buildFullModel_mismatch", 0) + 1
                if counts["buildFullModel_mismatch"] <= 2:
                    ctx.broke("correspondence:IModel.buildFullModel-vs-build_full_model", {"instance": exp["inst"], "g_err_over_forward_bound": eg})
            else:
                counts["buildFullModel_checked"] = counts.get("buildFullModel_checked", 0) + 1
    ctx.cov["correspondence"] = {"linear_runs": nrun, "driver_lines": len(lines), "mismatches": nbad, "counts": counts,
                                 "tolerances": "TOL_J = TOL_R = %g, x (n+1) x eps x cond(W) x posfac x scale" % TOL_J,
                                 "measured": {k: ic.summary(v) for k, v in sorted(stats.items())}}


# ----------------------------------------------------------------------------------------------
# search
# ----------------------------------------------------------------------------------------------
CORPUS_DIR = os.path.join(core.VERIF, "corpus", "C05")


def corpus_cases():
    """stored past failing inputs (seed of the generator + nmax), replayed first on every run"""
    out = []
    if os.path.isdir(CORPUS_DIR):
        for fn in sorted(os.listdir(CORPUS_DIR)):
            if fn.endswith(".json"):
                d = json.load(open(os.path.join(CORPUS_DIR, fn)))
                out.append((fn, d["seed"], d["nmax"]))
    return out


def search(ctx):
    dfols = core.import_dfols()
    ninst = ctx.scale(200, 3000) * getattr(ctx, "boost", 1)
    counts, gaps, nfs = {}, [], []
    cases = [("corpus:" + fn, seed, nmax) for fn, seed, nmax in corpus_cases()]
    cases += [(i, [ctx.seed, SUITE, i], ctx.scale(5, 8)) for i in range(ninst)]
    for i, seed, nmax in cases:
        rng = np.random.default_rng(seed)
        inst = Instance(rng, nmax=nmax)
        soln = inst.solve(dfols)
        status, info = check_instance(inst, soln)
        ctx.seen(("c05", i, inst.describe()))
        key = status if status != "ok" else "ok:%s:%s:%s" % (inst.bkind, "scaled" if inst.scaling else "unscaled", "npt=n+1" if inst.npt == inst.n + 1 else "npt=2n+1")
        counts[key] = counts.get(key, 0) + 1
        shape = "square" if inst.m == inst.n else "over"
        counts["shape_" + shape] = counts.get("shape_" + shape, 0) + 1
        if "gap_over_tol" in info:
            gaps.append(max(info["gap_over_tol"], 0.0))
            nfs.append(info["nf"])
            counts["flag_%d" % info["flag"]] = counts.get("flag_%d" % info["flag"], 0) + 1
        if status.startswith("fail:"):
            ctx.fail(status[5:], info.get("what", status), {"seed": list(seed), "nmax": nmax, "case": str(i), "instance": inst.describe(),
                                                             "A": inst.A.tolist(), "b": inst.b.tolist(), "x0": inst.x0.tolist(),
                                                             "bounds": None if inst.bounds is None else [inst.bounds[0].tolist(), inst.bounds[1].tolist()]})
            if len(ctx.failures) >= 8:
                break
        elif status == "ok" and len(ctx.samples) < 3:
            ctx.add_sample({"kind": "C05 instance", "instance": inst.describe(), "f_star": info["fstar"], "soln.obj": info["obj"], "nf": info["nf"], "flag": info["flag"]})
    ctx.cov["search"] = {"instances": ninst, "corpus_cases": len(cases) - ninst, "counts": dict(sorted(counts.items())),
                         "gap_over_1e-6(1+fstar)": ic.summary(gaps), "nf": ic.summary(nfs)}


def replay(payload):
    dfols = core.import_dfols()
    rp = payload.get("replay", {})
    if "seed" not in rp:
        print("replay file names a broken obligation, nothing to execute:", payload.get("broken"))
        return 1
    rng = np.random.default_rng(rp["seed"])
    inst = Instance(rng, nmax=rp.get("nmax", 5))
    status, info = check_instance(inst, inst.solve(dfols))
    if status.startswith("fail:"):
        print("replay: still fails:", status[5:], info.get("what"))
        return 1
    print("replay: property holds on this input now (%s)" % status)
    return 0
