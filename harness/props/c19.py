"""C19 — Results are reproducible and caller data are never modified.  PARTIAL

Correspondence: every np.random draw of a real run is recorded with the dfols function it was made for; the list must be
accepted by the Lean acceptor RngAcc for the run's configuration (draws only at sites the configuration enables), and the
acceptor's `usesRandom` must agree with the harness's reading of the options.
Search: each configuration (default, bounded, scaled, convex-constrained, regression, regularised) is solved twice under
different global RNG states (and once more in the same process): evaluation sequences and results must be bit-identical
unless an option documented as random is on; x0, bounds and user_params are passed read-only and compared afterwards.
"""
import copy
import sys
import os
import numpy as np
import core
import problems
import trace as tr

MODULE = "DfolsVerif.Properties.C19"
BUILD_TARGETS = ["DfolsVerif.Driver.RngDrv"]
def pre_build(ctx):
    import gen_rngsites
    ctx.cov["rng_sites_in_repo"] = gen_rngsites.regenerate(ctx)
    import gen_kernels
    ctx.cov["translated_guards"] = gen_kernels.regenerate_guards(ctx)
    import gen_ownership
    gen_ownership.regenerate(ctx)


THEOREMS = ["Dfols.C19.C19_rng_free", "Dfols.C19.C19_src_rng_reach", "Dfols.C19.C19_growing_default_switch",
            "Dfols.C19.C19_src_solve_writes_only_fresh_objects", "Dfols.C19.C19_src_no_state_outlives_a_call"]
TRUSTED_EXTRA = [
    "PARTIAL: absence of writes to caller data: inside solve() by the ownership analysis of gen_ownership.py (trusted: its copying-form list and transfer rules) + theorems over its tables; writes by callees through escaping objects are observed (read-only arrays, byte comparison), not proved",
    "the model only says where draws may occur; that a run without draws is a deterministic function of its arguments is the determinism of CPython/NumPy/LAPACK in one process",
    "draw sites are identified from the Python call stack by the wrapper of np.random.normal / np.random.randint",
]

OUTER = {"initialise_random_directions": "initRandom", "add_new_direction_while_growing": "growing",
         "get_new_direction_for_growing": "growing", "soft_restart": "softIncreaseNpt", "move_furthest_points_momentum": "momentum"}


class RngRecorder:
    def __init__(self):
        self.sites = []
        self.coord_draws = {}

    def site(self, fn="normal"):
        f = sys._getframe(2)
        names = []
        while f is not None:
            if "/dfols/" in f.f_code.co_filename:
                names.append((f.f_code.co_name, id(f)))
            f = f.f_back
        for nm, fid in names:
            if nm in OUTER:
                return OUTER[nm]
            if nm == "initialise_coordinate_directions":
                # selector arrays (np.random.randint: drawn once unconditionally and again after every round of the sign-flip
                # loop; a selector only chooses which sign flips are TRIED, a flip is kept only when it raises the rank) versus
                # random replacement directions (np.random.normal in the last repair loop: these become evaluation points)
                k = self.coord_draws.get(fid, 0)
                self.coord_draws[fid] = k + 1
                return "projSelector" if fn == "randint" else "projRepair"
        return "other"

    def __enter__(self):
        self.real_normal, self.real_randint = np.random.normal, np.random.randint
        rec = self

        def normal(*a, **k):
            rec.sites.append(rec.site())
            return rec.real_normal(*a, **k)

        def randint(*a, **k):
            rec.sites.append(rec.site("randint"))
            return rec.real_randint(*a, **k)
        np.random.normal, np.random.randint = normal, randint
        return self

    def __exit__(self, *a):
        np.random.normal, np.random.randint = self.real_normal, self.real_randint


def families(rng, prob):
    """(name, kwargs) for the six configuration families of the property + the documented-random ones"""
    n = prob["n"]
    x0 = prob["x0"]
    gap = 0.8 + rng.random(n)
    xl, xu = x0 - gap * rng.random(n), None
    xu = xl + 2 * gap
    fam = [("default", {}),
           ("bounded", {"bounds": (xl, xu)}),
           ("bounded-infeasible-x0", {"bounds": (x0 + 0.3 * gap, x0 + 0.3 * gap + 2 * gap)}),      # documented 'x0 below lower bound, adjusting' case
           ("bounded-one-sided", {"bounds": (None, x0 - 0.2)}),
           ("scaled", {"bounds": (xl, xu), "scaling_within_bounds": True, "rhobeg": 0.1}),
           ("regression-max-npt", {"npt": (n + 1) * (n + 2) // 2}),                                # largest set the coordinate initialisation supports
           ("convex", {"projections": [lambda x, c=x0 + 0.3: problems.pball(x, c, 1.5)]}),
           # x0 ON the boundary of the ball where the first coordinate step projects back onto x0, with a practical rank tolerance
           # (documented option): the rank-repair loops of the projection branch run and DRAW selectors, which must not decide
           # which directions are used when the rank does not change
           ("convex-x0-on-boundary-rank-tol", {"projections": [lambda x, c=x0 - 1.0 * np.eye(n)[0]: problems.pball(x, c, 1.0)],
                                               "user_params": {"matrix_rank.r_tol": 1e-12}}),
           ("convex-bounded", {"projections": [lambda x, c=x0 + 0.3: problems.pball(x, c, 1.5)], "bounds": (xl, xu)}),
           ("regression", {"npt": 2 * n + 1, "user_params": {"regression.num_extra_steps": 1}}),
           ("regularised", {"h": lambda x: 0.1 * float(np.sum(np.abs(x))), "lh": 0.1 * np.sqrt(n),
                            "prox_uh": lambda x, u: np.sign(x) * np.maximum(np.abs(x) - 0.1 * u, 0.0)}),
           ("soft-restarts", {"user_params": {"restarts.use_restarts": True}}),
           ("hard-restarts", {"user_params": {"restarts.use_restarts": True, "restarts.use_soft_restarts": False}}),
           # options that only matter together with a switch that is off must not bring randomness in
           # (loose rhoend and a larger budget so that restarts really happen)
           ("soft-restarts-max-npt-without-increase", {"rhoend": 1e-2, "maxfun": 150,
                                                       "user_params": {"restarts.use_restarts": True, "restarts.max_npt": n + 3}}),
           ("hard-restarts-max-npt-without-increase", {"rhoend": 1e-2, "maxfun": 150,
                                                       "user_params": {"restarts.use_restarts": True, "restarts.use_soft_restarts": False,
                                                                       "restarts.max_npt": n + 3, "restarts.increase_npt_amt": 2}}),
           ("soft-restarts-reached", {"rhoend": 1e-2, "maxfun": 150, "user_params": {"restarts.use_restarts": True}}),
           # hard restarts that really happen AND enlarge the point set: the restarted run must get all its initial directions from
           # the (deterministic) coordinate construction, not fall into the growing phase (seeded C19_11)
           ("hard-restarts-increase-npt-reached", {"rhoend": 1e-2, "maxfun": 150,
                                                   "user_params": {"restarts.use_restarts": True, "restarts.use_soft_restarts": False,
                                                                   "restarts.increase_npt": True, "restarts.max_npt": n + 3}}),
           ("regression-extra-steps-no-momentum", {"npt": 2 * n + 1, "user_params": {"regression.num_extra_steps": 2,
                                                                                     "regression.momentum_extra_steps": False}}),
           # documented as random:
           ("random-init", {"user_params": {"init.random_initial_directions": True}}),
           ("growing", {"user_params": {"growing.ndirs_initial": 1}} if n >= 2 else {"user_params": {"init.random_initial_directions": True}}),
           ("momentum", {"npt": 2 * n + 1, "user_params": {"regression.num_extra_steps": 1, "regression.momentum_extra_steps": True}}),
           ("soft-increase-npt", {"user_params": {"restarts.use_restarts": True, "restarts.increase_npt": True, "restarts.max_npt": n + 3}})]
    return fam


def cfg_bits(kw, n):
    up = kw.get("user_params", {}) or {}
    npt = kw.get("npt", n + 1)
    random_init = bool(up.get("init.random_initial_directions", npt > (n + 1) * (n + 2) // 2))
    growing = int(up.get("growing.ndirs_initial", npt - 1)) < npt - 1
    soft_inc = bool(up.get("restarts.use_restarts")) and bool(up.get("restarts.use_soft_restarts", True)) and bool(up.get("restarts.increase_npt"))
    momentum = bool(up.get("regression.momentum_extra_steps")) and int(up.get("regression.num_extra_steps", 0)) > 0
    proj = bool(kw.get("projections"))
    return [random_init, growing, soft_inc, momentum, proj]


def one_solve(dfols, prob, kw, state, maxfun):
    """solve under global RNG state `state`; returns (evaluation sequence bytes, result tuple, rng sites, mutation report)"""
    np.random.seed(state)
    x0 = prob["x0"].copy()
    x0.flags.writeable = False
    kw2 = {}
    for k, v in kw.items():
        if k == "bounds":
            b = tuple(None if a is None else a.copy() for a in v)
            for a in b:
                if a is not None:
                    a.flags.writeable = False
            kw2[k] = b
        elif k == "user_params":
            kw2[k] = dict(v)
        elif k == "projections":
            kw2[k] = list(v)            # the caller's own list object: must come back with the same elements
        else:
            kw2[k] = v
    proj_before = [id(p) for p in kw2["projections"]] if "projections" in kw2 else None
    before = {"x0": x0.tobytes(), "bounds": None if "bounds" not in kw2 else [None if a is None else a.tobytes() for a in kw2["bounds"]],
              "user_params": copy.deepcopy(kw2.get("user_params"))}
    seq = []

    def f(x):
        seq.append(np.array(x, dtype=float).tobytes())
        return prob["f"](x)
    mut = []
    with RngRecorder() as rec:
        try:
            mf = kw2.pop("maxfun", maxfun)
            re_ = kw2.pop("rhoend", 1e-6)
            soln = core.with_alarm(30, dfols.solve, f, x0, maxfun=mf, rhoend=re_, do_logging=False, **kw2)
            res = (np.asarray(soln.x).tobytes() if soln.x is not None else None, float(soln.obj) if soln.obj is not None else None,
                   int(soln.nf), int(soln.nx), int(soln.flag), str(soln.msg),
                   None if soln.jacobian is None else np.asarray(soln.jacobian).tobytes(),
                   None if getattr(soln, "diagnostic_info", None) is None else
                   (tuple(soln.diagnostic_info.shape), float(np.nansum(soln.diagnostic_info["delta"].to_numpy(dtype=float)))))
        except ValueError as e:
            if "read-only" in str(e):
                mut.append("solve tried to write into a read-only caller array: %s" % e)
                res = ("raised", str(e))
            else:
                res = ("raised", type(e).__name__, str(e)[:80])
        except BaseException as e:
            res = ("raised", type(e).__name__, str(e)[:80])
    if x0.tobytes() != before["x0"]:
        mut.append("x0 modified")
    if "bounds" in kw2:
        for a, b in zip(kw2["bounds"], before["bounds"]):
            if a is not None and a.tobytes() != b:
                mut.append("bounds array modified")
    if kw2.get("user_params") != before["user_params"]:
        mut.append("user_params modified: %r -> %r" % (before["user_params"], kw2.get("user_params")))
    if proj_before is not None and [id(p) for p in kw2["projections"]] != proj_before:
        mut.append("the caller's projections list was modified (%d -> %d entries)" % (len(proj_before), len(kw2["projections"])))
    return seq, res, rec.sites, mut


SPECIALS = [
    ("cubic-slow-progress", lambda x: np.array([1e3, x[0] ** 3]), np.array([1.0]), {"maxfun": 100, "rhoend": 1e-8}),
    ("rosenbrock-slow-limit", lambda x: np.array([10.0 * (x[1] - x[0] ** 2), 1.0 - x[0]]), np.array([-1.2, 1.0]),
     {"maxfun": 100, "rhoend": 1e-8, "user_params": {"slow.max_slow_iters": 5}}),
    # the diagnostic table is part of the result: rows of EARLIER solve() calls must not reappear in it (seeded C19_12 shared the
    # column lists between all DiagnosticInfo objects of a process)
    ("rosenbrock-diagnostic-table", lambda x: np.array([10.0 * (x[1] - x[0] ** 2), 1.0 - x[0]]), np.array([-1.2, 1.0]),
     {"maxfun": 60, "rhoend": 1e-6, "user_params": {"logging.save_diagnostic_info": True}}),
]


def special_digest(name, state, dfols=None):
    """sha256 over the evaluation sequence and the result of one SPECIALS problem (run in whatever process calls it; with the
    package object given, in the SAME loaded package as the solves made before)"""
    import hashlib
    if dfols is None:
        dfols = core.import_dfols()
    for nm, f, x0, kw in SPECIALS:
        if nm == name:
            seq, res, _sites, _mut = one_solve(dfols, {"n": len(x0), "x0": x0, "f": f}, kw, state, 100)
            h = hashlib.sha256()
            for b in seq:
                h.update(b)
            h.update(repr(res).encode())
            return "%d:%s" % (len(seq), h.hexdigest())
    raise KeyError(name)


def fresh_process_digest(name, state):
    """the same solve in a fresh interpreter (no earlier solve() call in that process)"""
    import subprocess
    import sys
    code = ("import sys; sys.path.insert(0, %r); import props.c19 as m; print('DIGEST', m.special_digest(%r, %d))"
            % (os.path.dirname(os.path.dirname(os.path.abspath(__file__))), name, state))
    p = subprocess.run([sys.executable, "-c", code], capture_output=True, text=True, timeout=300, env=dict(os.environ))
    for line in p.stdout.splitlines():
        if line.startswith("DIGEST "):
            return line.split(" ", 1)[1]
    raise RuntimeError("fresh-process solve failed: " + (p.stderr or p.stdout)[-300:])


def _all(ctx):
    if hasattr(ctx, "_c19"):
        return ctx._c19
    dfols = core.import_dfols()
    nprob = ctx.scale(9, 120) * getattr(ctx, "boost", 1)
    rows = []
    for i in range(nprob):
        rng = np.random.default_rng([ctx.seed, 1919, i])
        prob = problems.rand_problem(rng)
        maxfun = int(rng.choice([20, 40, 60]))
        for name, kw in families(rng, prob):
            a = one_solve(dfols, prob, kw, 12345 + i, maxfun)
            b = one_solve(dfols, prob, kw, 999 + 7 * i, maxfun)
            rows.append((i, name, kw, prob["n"], a, b))
            ctx.seen(("c19", i, name))
    # a slow-progress problem (history-dependent termination logic): state that survives from one solve() to the next in the
    # same process makes the second call differ from the first
    for j, (name, f, x0, kw) in enumerate(SPECIALS):
        prob = {"n": len(x0), "x0": x0, "f": f}
        a = one_solve(dfols, prob, kw, 4321 + j, 100)
        b = one_solve(dfols, prob, kw, 8765 + j, 100)
        rows.append((nprob + j, name, kw, prob["n"], a, b))
        ctx.seen(("c19", nprob + j, name))
        # ... and the result must not depend on solve() calls made EARLIER in the same process
        here = special_digest(name, 4321 + j, dfols=dfols)
        fresh = fresh_process_digest(name, 4321 + j)
        if not hasattr(ctx, "_c19_fresh"):
            ctx._c19_fresh = []
        ctx._c19_fresh.append((name, here, fresh))
    ctx._c19 = rows
    return rows


def correspondence(ctx):
    rows = _all(ctx)
    lines, metas = [], []
    for (i, name, kw, n, a, b) in rows:
        bits = cfg_bits(kw, n)
        for run in (a, b):
            lines.append("rng " + " ".join("1" if x else "0" for x in bits) + " " + " ".join(run[2]))
            metas.append((i, name, bits))
    out = core.run_driver(lines, main="RngMain.lean")
    nrej = 0
    nsites = {}
    for (i, name, bits), rep, ln in zip(metas, out, lines):
        for s in ln.split()[6:]:
            nsites[s] = nsites.get(s, 0) + 1
        if not rep.startswith("ok"):
            nrej += 1
            if nrej <= 3:
                ctx.broke("correspondence:RngAcc-rejects-real-run", {"problem": i, "family": name, "cfg": bits, "sites": ln.split()[6:][:10], "lean": rep})
    ctx.cov["rng_correspondence"] = {"runs": len(lines), "rejected": nrej, "draw_sites": nsites}
    ctx.add_sample({"family": rows[0][1], "rng_line": lines[0][:120], "lean": out[0]})


def option_sweep_cases(dfols, n):
    """(tag, kwargs): every key of the package's parameter table set to its own default (a legal value), the option combinations
    solve() itself reacts to (contradictory pairs, noise defaults, growing choices), and bounds given as float64 arrays with
    infinite entries — all passed as the caller's own objects and compared afterwards"""
    pl = dfols.params.ParameterList(n, n + 1, 50)
    cases = []
    for key, val in sorted(pl.params.items()):
        if val is not None:
            cases.append(("param:" + key, {"user_params": {key: val}}))
    combos = [{"growing.perturb_trust_region_step": True}, {"growing.perturb_trust_region_step": True, "growing.full_rank.use_full_rank_interp": False},
              {"growing.safety.full_geom_step": True}, {"growing.safety.full_geom_step": True, "growing.safety.reduce_delta": True},
              {"noise.quit_on_noise_level": True}, {"noise.quit_on_noise_level": True, "noise.multiplicative_noise_level": 0.1},
              {"noise.quit_on_noise_level": True, "noise.additive_noise_level": 0.1, "noise.multiplicative_noise_level": 0.1},
              {"growing.reset_rho": True}, {"growing.reset_rho": True, "growing.reset_delta": True},
              {"init.run_in_parallel": True}, {"init.run_in_parallel": True, "init.random_initial_directions": True},
              {"restarts.use_restarts": True, "restarts.use_soft_restarts": False, "restarts.increase_npt": True},
              {"logging.save_diagnostic_info": True, "logging.save_xk": True, "logging.save_rk": True}]
    for j, up in enumerate(combos):
        cases.append(("combo:%d" % j, {"user_params": up}))
        cases.append(("combo-noise:%d" % j, {"user_params": up, "objfun_has_noise": True}))
    inf = float("inf")
    lo, hi = -1.5 * np.ones(n), 2.5 * np.ones(n)
    for tag, b in (("inf-lower", (np.full(n, -inf), hi)), ("inf-upper", (lo, np.full(n, inf))),
                   ("inf-mixed", (np.where(np.arange(n) % 2 == 0, -inf, lo), np.where(np.arange(n) % 2 == 1, inf, hi))),
                   ("huge-finite", (np.full(n, -1e25), np.full(n, 1e25)))):
        cases.append(("bounds:" + tag, {"bounds": b}))
        cases.append(("bounds-scaled:" + tag, {"bounds": b, "scaling_within_bounds": True}))
    return cases


def option_sweep(ctx, dfols, only=None):
    """solve never modifies the caller's x0, bound arrays or user_params dictionary — over the whole option space (writes to the
    arrays are not blocked here: the arrays stay writeable, so that an in-place edit that a read-only flag would turn into an
    exception is SEEN as a modification; compared byte for byte)"""
    stats = {"cases": 0, "input_errors": 0, "raised": 0}
    out = []
    rng = np.random.default_rng([ctx.seed, 1920])
    prob = problems.rand_problem(rng)
    n = prob["n"]
    for tag, kw in option_sweep_cases(dfols, n):
        if only is not None and tag != only:
            continue
        x0 = np.clip(prob["x0"], -1.0, 2.0).copy()
        kw2 = {}
        for k, v in kw.items():
            kw2[k] = tuple(a.copy() for a in v) if k == "bounds" else (dict(v) if k == "user_params" else v)
        before = (x0.tobytes(), [a.tobytes() for a in kw2.get("bounds", ())], copy.deepcopy(kw2.get("user_params")))
        np.random.seed(7)
        try:
            soln = core.with_alarm(30, dfols.solve, prob["f"], x0, maxfun=12, do_logging=False, **kw2)
            stats["input_errors"] += int(soln.flag == soln.EXIT_INPUT_ERROR)
        except BaseException:
            stats["raised"] += 1           # what an option combination raises is C07's business; the caller's data still count
        stats["cases"] += 1
        ctx.seen(("c19sweep", tag))
        mut = []
        if x0.tobytes() != before[0]:
            mut.append("x0 modified")
        if [a.tobytes() for a in kw2.get("bounds", ())] != before[1]:
            mut.append("bounds array modified: %r" % (kw2["bounds"],))
        if kw2.get("user_params") != before[2]:
            mut.append("user_params modified: %r -> %r" % (before[2], kw2.get("user_params")))
        for m in mut:
            out.append(("C19:caller-data-modified|sweep:" + tag.split(":")[0], m, {"sweep": tag, "sweep_seed": [ctx.seed, 1920]}))
    ctx.cov["caller_data_option_sweep"] = stats
    return out


def search(ctx):
    if getattr(ctx, "boost", 1) > 1 and hasattr(ctx, "_c19"):
        del ctx._c19
    for sig, what, rpl in option_sweep(ctx, core.import_dfols()):
        ctx.fail(sig, what, rpl)
    rows = _all(ctx)
    stats = {"compared": 0, "documented_random": 0, "identical": 0}
    for (i, name, kw, n, a, b) in rows:
        bits = cfg_bits(kw, n)
        uses_random = any(bits[:4])
        for run in (a, b):
            for m in run[3]:
                ctx.fail("C19:caller-data-modified|" + name, m, {"problem_seed": [ctx.seed, 1919, i], "family": name})
        if uses_random:
            stats["documented_random"] += 1
            continue
        stats["compared"] += 1
        if a[0] == b[0] and a[1] == b[1]:
            stats["identical"] += 1
        else:
            k = next((j for j, (p, q) in enumerate(zip(a[0], b[0])) if p != q), min(len(a[0]), len(b[0])))
            repair = "projRepair" in a[2] or "projRepair" in b[2]
            ctx.fail("C19:not-reproducible|%s%s" % (name, "|rank-repair-draws" if repair else ""),
                     "family %s: evaluation sequences differ from evaluation %d on under different global RNG states (results %s)" % (name, k + 1, "differ" if a[1] != b[1] else "equal"),
                     {"problem_seed": [ctx.seed, 1919, i], "family": name})
    for name, here, fresh in getattr(ctx, "_c19_fresh", []):
        stats["fresh_process_compared"] = stats.get("fresh_process_compared", 0) + 1
        if here != fresh:
            ctx.fail("C19:not-reproducible|%s|depends-on-earlier-solve-calls" % name,
                     "problem %s: a solve() made after other solve() calls in the same process differs from the same call in a fresh interpreter "
                     "(evaluations:digest %s vs %s)" % (name, here, fresh), {"problem_seed": [ctx.seed, 1919, 0], "family": name, "fresh_process": True})
    ctx.cov["reproducibility"] = stats


def replay(payload):
    dfols = core.import_dfols()
    rp = payload.get("replay", {})
    if "sweep" in rp:
        class _C:
            seed = rp["sweep_seed"][0]
            cov = {}
            def seen(self, *a): pass
        res = option_sweep(_C(), dfols, only=rp["sweep"])
        print("replay:", [(a, b) for a, b, _ in res] if res else "property holds on this input now")
        return 1 if res else 0
    if "problem_seed" not in rp:
        print("replay names a broken obligation:", payload.get("broken"))
        return 1
    for name, f, x0, kw in SPECIALS:
        if name == rp.get("family"):
            prob = {"n": len(x0), "x0": x0, "f": f}
            a = one_solve(dfols, prob, kw, 1, 100)
            b = one_solve(dfols, prob, kw, 2, 100)
            bad = a[3] or b[3] or (a[0] != b[0]) or (a[1] != b[1])
            if rp.get("fresh_process"):
                bad = bad or special_digest(name, 4321, dfols=dfols) != fresh_process_digest(name, 4321)
            print("replay:", "still fails" if bad else "property holds on this input now")
            return 1 if bad else 0
    rng = np.random.default_rng(rp["problem_seed"])
    prob = problems.rand_problem(rng)
    maxfun = int(rng.choice([20, 40, 60]))
    for name, kw in families(rng, prob):
        if name == rp["family"]:
            a = one_solve(dfols, prob, kw, 1, maxfun)
            b = one_solve(dfols, prob, kw, 2, maxfun)
            bad = a[3] or b[3] or (a[0] != b[0]) or (a[1] != b[1])
            print("replay:", "still fails" if bad else "property holds on this input now")
            return 1 if bad else 0
    return 1
