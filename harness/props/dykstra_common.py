"""Shared by C09 and C15: the closed projector language, recording wrappers around the real
`dfols.util.dykstra`, protocol lines for lean/DykstraMain.lean, distance/reference oracles.

Projector language (what the Lean driver also understands):
    ("B", l, u)   box        -> dfols.util.pbox(x, l, u)
    ("S", c, r)   ball       -> dfols.util.pball(x, c, r)
    ("H", a, b)   half-space {x : a.x <= b}  -> phalf below (dfols has no half-space projector)
"""
import math
import numpy as np
import core
from core import fbits_raw

MAIN = "DykstraMain.lean"
EPS = 2.0 ** -52


def phalf(x, a, b):
    ax = float(np.dot(a, x))
    if ax <= b:
        return x.copy()
    return x - ((ax - b) / float(np.dot(a, a))) * a


def make_proj(dfols, spec):
    """the projector callable, built from dfols' own pbox/pball"""
    from dfols.util import pbox, pball
    kind = spec[0]
    if kind == "B":
        l, u = spec[1], spec[2]
        return lambda x: pbox(x, l, u)
    if kind == "S":
        c, r = spec[1], spec[2]
        return lambda x: pball(x, c, r)
    a, b = spec[1], spec[2]
    return lambda x: phalf(x, a, b)


def spec_tokens(spec):
    kind = spec[0]
    if kind == "B":
        return ["B"] + [fbits_raw(v) for v in spec[1]] + [fbits_raw(v) for v in spec[2]]
    return [kind] + [fbits_raw(v) for v in spec[1]] + [fbits_raw(spec[2])]


def spec_json(spec):
    if spec[0] == "B":
        return [spec[0], [float(v) for v in spec[1]], [float(v) for v in spec[2]]]
    return [spec[0], [float(v) for v in spec[1]], float(spec[2])]


def spec_from_json(j):
    if j[0] == "B":
        return ("B", np.array(j[1], dtype=float), np.array(j[2], dtype=float))
    return (j[0], np.array(j[1], dtype=float), float(j[2]))


def dist_to_set(spec, x):
    """Euclidean distance of x to the set (independent of dfols' projectors)"""
    kind = spec[0]
    if kind == "B":
        d = np.maximum(np.maximum(spec[1] - x, x - spec[2]), 0.0)
        return math.sqrt(float(np.sum(d * d)))
    if kind == "S":
        return max(0.0, math.sqrt(float(np.sum((x - spec[1]) ** 2))) - spec[2])
    a, b = spec[1], spec[2]
    return max(0.0, (float(np.sum(a * x)) - b) / math.sqrt(float(np.sum(a * a))))


def in_box_exact(spec, x):
    return bool(np.all(x >= spec[1]) and np.all(x <= spec[2]))


def ref_project(spec, x):
    """independent exact projector (reference run only)"""
    kind = spec[0]
    if kind == "B":
        return np.clip(x, spec[1], spec[2])
    if kind == "S":
        d = x - spec[1]
        nd = math.sqrt(float(np.sum(d * d)))
        return x.copy() if nd <= spec[2] else spec[1] + d * (spec[2] / nd)
    a, b = spec[1], spec[2]
    ax = float(np.sum(a * x))
    return x.copy() if ax <= b else x - a * ((ax - b) / float(np.sum(a * a)))


def ref_dykstra(specs, x0, max_sweeps=20000, stop=1e-30):
    """reference projection onto the intersection: Dykstra run to machine precision.
    returns (x, converged)"""
    x = np.array(x0, dtype=float)
    p = len(specs)
    y = [np.zeros_like(x) for _ in range(p)]
    for _ in range(max_sweeps):
        c = 0.0
        for i in range(p):
            v = x - y[i]
            xn = ref_project(specs[i], v)
            yn = xn - v
            d = y[i] - yn
            c += float(np.sum(d * d))
            y[i] = yn
            x = xn
        if c <= stop * (1.0 + float(np.sum(x * x))):
            return x, True
    return x, False


class Rec:
    """one recorded call of the real dykstra"""
    __slots__ = ("x", "x0", "calls", "norms", "sweeps", "cI_hist", "stopped", "stopped_rec", "max_iter", "tol", "p", "consistent", "P")


def record_call(real_dykstra, P, x0, max_iter=None, tol=None):
    """call the real dykstra with counting/recording wrappers around every projector and around
    np.linalg.norm (only the stopping-norm calls, i.e. those made outside the projectors, are kept).
    The wrappers do not change any value: the result is bit-identical to an unwrapped call."""
    calls = []
    norms = []
    depth = [0]

    def wrap(i, f):
        def g(v):
            depth[0] += 1
            try:
                out = f(v)
            finally:
                depth[0] -= 1
            calls.append((i, np.array(v, dtype=float, copy=True), np.array(out, dtype=float, copy=True)))
            return out
        return g

    Pw = [wrap(i, f) for i, f in enumerate(P)]
    orig = np.linalg.norm

    def nrm(*a, **k):
        r = orig(*a, **k)
        if depth[0] == 0:
            norms.append(r)
        return r

    kw = {}
    if max_iter is not None:
        kw["max_iter"] = max_iter
    if tol is not None:
        kw["tol"] = tol
    np.linalg.norm = nrm
    try:
        x = real_dykstra(Pw, x0, **kw)
    finally:
        np.linalg.norm = orig
    r = Rec()
    r.P = P
    r.x = np.array(x, dtype=float, copy=True)
    r.x0 = np.array(x0, dtype=float, copy=True)
    r.calls = calls
    r.norms = norms
    r.p = len(P)
    r.max_iter = 100 if max_iter is None else max_iter
    r.tol = 1e-10 if tol is None else tol
    r.sweeps = (len(calls) // r.p) if r.p else 0
    # the stopping sum of every sweep, accumulated exactly as util.py:235-245 does (scalar ops on the recorded norms)
    hist = []
    ok = (r.p > 0 and len(calls) == r.sweeps * r.p and len(norms) == len(calls)
          and all(calls[k][0] == k % r.p for k in range(len(calls))))
    if ok:
        for s in range(r.sweeps):
            cI = 0
            for i in range(r.p):
                cI += norms[s * r.p + i] ** 2
            hist.append(float(cI))
    r.consistent = ok
    r.cI_hist = hist
    r.stopped_rec = bool(hist) and (hist[-1] < r.tol)
    # what a caller can observe: leaving the loop before the sweep cap means the routine decided its rule was met
    # (for the code as it is, `C15_stopped_of_sweeps_lt` proves the two notions agree)
    r.stopped = r.stopped_rec or (0 < r.sweeps < r.max_iter and r.tol == r.tol and bool(np.all(np.isfinite(r.x)))
                                  and not (ok and hist and hist[-1] != hist[-1]))
    return r


def near_tie(rec, rel):
    """some sweep's stopping sum is within `rel` (relative) of tol: a last-bit difference in the
    reduction could change the number of sweeps"""
    t = rec.tol
    if not (t > 0):
        return False
    return any(abs(c - t) <= rel * t for c in rec.cI_hist)


def line_oracle(rec, n):
    toks = ["dyko", str(n), str(rec.max_iter), fbits_raw(rec.tol), str(rec.p)]
    toks += [fbits_raw(v) for v in rec.x0]
    toks.append(str(len(rec.calls)))
    for (i, a, o) in rec.calls:
        toks.append(str(i))
        toks += [fbits_raw(v) for v in a]
        toks += [fbits_raw(v) for v in o]
    return " ".join(toks)


def line_closed(specs, x0, max_iter, tol):
    n = len(x0)
    toks = ["dykc", str(n), str(max_iter), fbits_raw(tol), str(len(specs))]
    for s in specs:
        toks += spec_tokens(s)
    toks += [fbits_raw(v) for v in x0]
    return " ".join(toks)


def parse_reply(rep):
    """-> (sweeps, stopped, cI or None, [x bits or 'nan'])  or None on a malformed reply"""
    ts = rep.split()
    if len(ts) != 4 or not ts[0].isdigit():
        return None
    cI = None if ts[2] == "none" else (float("nan") if ts[2] == "nan" else core.bits2f(int(ts[2])))
    xs = ts[3].split(",")
    return int(ts[0]), ts[1] == "1", cI, xs


def bits_vec(xs):
    return np.array([float("nan") if t == "nan" else core.bits2f(int(t)) for t in xs], dtype=float)


def vec_bits_equal(a, xs):
    if len(a) != len(xs):
        return False
    return all(t != "nan" and int(t) == core.f2bits(v) for v, t in zip(a, xs))
