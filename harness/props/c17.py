"""C17 — Model bookkeeping stays consistent under any sequence of updates.

Correspondence: random operation sequences on the real `dfols.model.Model` and on the Lean state
machine `MState Nat (List Float)`; the whole abstract state (and get_final_results) is compared
after every operation.
Search: the property's clauses checked directly on the real object with a shadow record.
"""
import numpy as np
import core
from core import fkey, fbits, fbits_raw

MODULE = "DfolsVerif.Properties.C17"
BUILD_TARGETS = ["DfolsVerif.Driver.ModelDrv"]   # what lean/Main.lean imports

def used_point(md, k):
    """row k as the package uses it (evaluates there, returns it): stored coordinates clipped to the relative bounds, shifted
    by the base point, clipped to the absolute bounds; projected when there are projections"""
    if md.projections:
        return md.xpt(k, abs_coordinates=True)
    return np.minimum(np.maximum(md.xl, md.xbase + np.minimum(np.maximum(md.sl, md.points[k, :]), md.su)), md.xu)

def pre_build(ctx):
    import gen_rowwrites
    gen_rowwrites.regenerate(ctx)
    import gen_kernels
    ctx.cov["translated_model_decisions"] = gen_kernels.regenerate_model(ctx)
    import gen_hcalls
    ctx.cov["regulariser_calls_in_repo"] = gen_hcalls.regenerate(ctx)


THEOREMS = [
    "Dfols.C17.gen_changePoint_decision", "Dfols.C17.gen_addPoint_decision", "Dfols.C17.gen_savePoint_decision",
    "Dfols.C17.gen_getFinal_decision", "Dfols.C17.C17_src_h_at_stored_point",
    "Dfols.C17.C17_labels_counts_means",
    "Dfols.C17.C17_mean_is_arithmetic_mean",
    "Dfols.C17.C17_obj_matches",
    "Dfols.C17.C17_kopt_min",
    "Dfols.C17.C17_final_better",
    "Dfols.C17.C17_save_keeps_best",
    "Dfols.C17.C17_old_swap_counts",
    "Dfols.C17.C17_old_nan_shadow",
    "Dfols.C17.C17_old_argmin_nan", "Dfols.C17.C17_src_rows_travel_together"]
TRUSTED_EXTRA = [
    "AST-to-Lean translator harness/gen_kernels.py (translate_model): the tests of change_point / add_new_point / save_point / get_final_results as Bool functions over Val",
    "modelled, not verified: coordinates and linear algebra of Model (points are opaque ids; residual means are real doubles computed elementwise)",
    "C17_mean_is_arithmetic_mean is an exact-arithmetic statement (field of characteristic 0); the float recurrence is compared bit-for-bit instead",
]

SPECIALS = [float("nan"), float("inf"), -float("inf"), 1e200, 0.0, -0.0]


def rand_resid(rng, m, pool):
    c = rng.random()
    if c < 0.12 and pool:
        return pool[rng.integers(len(pool))].copy()          # tie with an earlier residual
    r = np.round(rng.normal(size=m) * 4, 1)                  # short decimals -> frequent ties in sumsq
    if c > 0.80:
        r[rng.integers(m)] = SPECIALS[rng.integers(len(SPECIALS))]
    return r


class Real:
    """the real Model plus the harness-side point table (pid -> current relative coordinates)"""

    def __init__(self, dfols, rng, with_h):
        from dfols.model import Model
        self.rng = rng
        self.n = int(rng.integers(1, 4))
        self.m = int(rng.integers(1, 4))
        self.cap = int(rng.integers(self.n + 1, 2 * self.n + 3))
        self.h = (lambda x: float(np.sum(np.abs(x)))) if with_h else None
        x0 = np.round(rng.normal(size=self.n), 2)
        self.pool = []
        r0 = rand_resid(rng, self.m, self.pool)
        self.pool.append(r0)
        # the starting residual may already be the mean of several samples (nsamples callback > 1 at x0, or an averaged incumbent
        # carried over a hard restart): its sample count must be kept (seeded change C17_12 reset it to 1)
        self.r0ns = int(rng.integers(1, 4))
        self.model = Model(self.cap, x0, r0, -1e20 * np.ones(self.n), 1e20 * np.ones(self.n), [], self.r0ns, h=self.h)
        self.coords = {0: np.zeros(self.n)}      # pid -> relative coordinates (points[k])
        self.abs_saved = {}                      # pid -> absolute coordinates handed to save_point
        self.next_pid = 1
        self.slot_pid = {0: 0}                   # the harness's own record of which point was WRITTEN to which row (used only to
                                                 # choose among points with bit-identical coordinates, which rounded draws produce)

    def objective(self, r, xabs):
        v = float(np.dot(r, r))
        if self.h is not None:
            v += self.h(xabs)
        return v

    def pid_of_slot(self, k):
        """identity of the point in row k: the harness's record if its coordinates match bit for bit, else by coordinates"""
        b = self.model.points[k, :].tobytes()
        cands = [q for q in self.coords if self.coords[q].tobytes() == b]
        return self.slot_pid.get(k) if self.slot_pid.get(k) in cands else (max(cands) if cands else -1)

    def pid_of(self, vec, table):
        b = vec.tobytes()
        for pid in sorted(table, reverse=True):
            if table[pid].tobytes() == b:
                return pid
        return -1

    def digest(self):
        md = self.model
        npt = md.npt()
        slots = []
        for k in range(npt):
            b = md.points[k, :].tobytes()
            cands = [q for q in self.coords if self.coords[q].tobytes() == b]
            pid = self.slot_pid.get(k) if self.slot_pid.get(k) in cands else (max(cands) if cands else -1)
            slots.append("%d:%s:%d:%d:%s" % (pid, fkey(md.objval[k]), int(md.nsamples[k]), int(md.eval_num[k]),
                                              ",".join(fbits(v) for v in md.fval_v[k, :])))
        jac = "-" if md.model_jac_eval_nums is None else ",".join(str(int(v)) for v in md.model_jac_eval_nums)
        if md.objsave is None:
            saved = "-"
        else:
            sj = "-" if md.jacsave_eval_nums is None else ",".join(str(int(v)) for v in md.jacsave_eval_nums)
            sb = md.xsave.tobytes()
            scands = [q for q in self.abs_saved if self.abs_saved[q].tobytes() == sb]
            spid = getattr(self, "saved_pid", None) if getattr(self, "saved_pid", None) in scands else (max(scands) if scands else -1)
            saved = "%d:%s:%d:%d:%s:%s" % (spid, fkey(md.objsave), int(md.nsamples_save),
                                            int(md.eval_num_save), ",".join(fbits(v) for v in md.rsave), sj)
        return "cap=%d kopt=%d fact=%d jac=%s saved=%s slots=%s" % (md.num_pts, int(md.kopt), 1 if md.factorisation_current else 0,
                                                                     jac, saved, ";".join(slots))

    def final_digest(self):
        md = self.model
        x, r, obj, jac, ns, en, jn = md.get_final_results()
        # identify the returned point: incumbent (absolute coords of kopt) or the saved one
        xo = md.xopt(abs_coordinates=True)
        if md.objsave is not None and x.tobytes() == md.xsave.tobytes() and not (x.tobytes() == xo.tobytes() and int(en) == int(md.eval_num[md.kopt])):
            scands = [q for q in self.abs_saved if self.abs_saved[q].tobytes() == x.tobytes()]
            pid = getattr(self, "saved_pid", None) if getattr(self, "saved_pid", None) in scands else (max(scands) if scands else -1)
        else:
            pid = self.pid_of_slot(int(md.kopt)) if x.tobytes() == xo.tobytes() else -2
        jn = "-" if jn is None else ",".join(str(int(v)) for v in jn)
        return "final %d:%s:%d:%d:%s:%s" % (pid, fkey(obj), int(ns), int(en), ",".join(fbits(v) for v in r), jn)


def gen_sequence(dfols, rng, length, with_h):
    """run a random op sequence on the real Model; return (protocol lines, real digests, op descriptions)"""
    R = Real(dfols, rng, with_h)
    md = R.model
    lines, real, descr = [], [], []
    r0 = md.fval_v[0, :]
    lines.append("minit %d 0 %s %d %d %s" % (R.cap, fkey(md.objval[0]), R.r0ns, int(md.eval_num[0]), " ".join(fbits_raw(v) for v in r0)))
    real.append("ok " + R.digest())
    descr.append(("init", R.n, R.m, R.cap, with_h))
    en = 1
    for _ in range(length):
        c = rng.random()
        npt = md.npt()
        try:
            if c < 0.33:
                # change_point: valid index, the growing slot, or (rarely) an invalid one
                u = rng.random()
                k = int(rng.integers(0, npt)) if u < 0.6 else (npt if u < 0.95 else npt + 1 + int(rng.integers(0, 2)))
                x = np.round(rng.normal(size=R.n), 3)
                r = rand_resid(rng, R.m, R.pool)
                allow = bool(rng.random() < 0.9)
                en += 1
                pid = R.next_pid
                R.next_pid += 1
                line_fn = lambda v: "mchange %d %d %s %d %d %s" % (k, pid, v, en, 1 if allow else 0, " ".join(fbits_raw(t) for t in r))
                descr.append(("change", k, pid, en, allow, r.tolist()))
                v = fkey(R.objective(r, md.xbase + x))
                lines.append(line_fn(v))
                md.change_point(k, x, r, en, allow_kopt_update=allow)
                R.coords[pid] = x.copy()
                R.slot_pid[k] = pid
                R.pool.append(r)
                real.append("ok " + R.digest())
            elif c < 0.53:
                k = int(rng.integers(0, npt)) if rng.random() < 0.95 else npt + 1
                r = rand_resid(rng, R.m, R.pool)
                descr.append(("sample", k, r.tolist()))
                # objective of the new mean is computed by the code; recompute it independently from the stored state afterwards
                ok = True
                try:
                    md.add_new_sample(k, r)
                except AssertionError:
                    ok = False
                if ok:
                    v = fkey(R.objective(md.fval_v[k, :], used_point(md, k)))
                    lines.append("msample %d %s %s" % (k, v, " ".join(fbits_raw(t) for t in r)))
                    real.append("ok " + R.digest())
                else:
                    lines.append("msample %d n %s" % (k, " ".join(fbits_raw(t) for t in r)))
                    real.append("err")
            elif c < 0.61:
                k1, k2 = int(rng.integers(0, npt)), int(rng.integers(0, npt))
                descr.append(("swap", k1, k2))
                lines.append("mswap %d %d" % (k1, k2))
                md.swap_points(k1, k2)
                R.slot_pid[k1], R.slot_pid[k2] = R.slot_pid.get(k2), R.slot_pid.get(k1)
                real.append("ok " + R.digest())
            elif c < 0.68:
                if md.npt_so_far < md.num_pts:
                    continue   # add_new_point requires a full set (np.append writes row num_pts); see ModelState.step
                x = np.round(rng.normal(size=R.n), 3)
                r = rand_resid(rng, R.m, R.pool)
                en += 1
                pid = R.next_pid
                R.next_pid += 1
                descr.append(("addpt", pid, en, r.tolist()))
                lines.append("maddpt %d %s %d %s" % (pid, fkey(R.objective(r, md.xbase + x)), en, " ".join(fbits_raw(t) for t in r)))
                md.add_new_point(x, r, en)
                R.coords[pid] = x.copy()
                R.slot_pid[md.npt() - 1] = pid
                real.append("ok " + R.digest())
            elif c < 0.73:
                shift = np.round(rng.normal(size=R.n), 2)
                descr.append(("shift",))
                lines.append("mshift")
                md.shift_base(shift)
                for pid in list(R.coords):
                    R.coords[pid] = R.coords[pid] - shift
                real.append("ok " + R.digest())
            elif c < 0.76:
                # save the incumbent exactly as Controller.soft_restart does: pass the model's own row (a view)
                k0 = int(md.kopt)
                xabs = md.xopt(abs_coordinates=True)
                rview = md.ropt()
                pid = R.pid_of_slot(int(k0))     # the saved point IS the incumbent: same identity
                descr.append(("saveopt", pid))
                lines.append("msave %d %s %d %d %s" % (pid, fkey(R.objective(rview, xabs)), int(md.nsamples[k0]), int(md.eval_num[k0]),
                                                        " ".join(fbits_raw(t) for t in rview)))
                xabs_copy = xabs.copy()
                acc = md.save_point(xabs, rview, int(md.nsamples[k0]), int(md.eval_num[k0]), x_in_abs_coords=True)
                if acc:
                    # (recorded only when the save was accepted: the same incumbent offered again after base shifts has absolute
                    #  coordinates that differ by rounding, and a REJECTED offer must not replace the record of the kept one)
                    R.abs_saved[pid] = xabs_copy
                    R.saved_pid = pid
                real.append("ok saved=%d %s" % (1 if acc else 0, R.digest()))
            elif c < 0.85:
                x = np.round(rng.normal(size=R.n), 3)
                r = rand_resid(rng, R.m, R.pool)
                ns = int(rng.integers(1, 4))
                en += 1
                pid = R.next_pid
                R.next_pid += 1
                descr.append(("save", pid, ns, en, r.tolist()))
                lines.append("msave %d %s %d %d %s" % (pid, fkey(R.objective(r, x)), ns, en, " ".join(fbits_raw(t) for t in r)))
                R.abs_saved[pid] = x.copy()
                acc = md.save_point(x, r, ns, en, x_in_abs_coords=True)
                if acc:
                    R.saved_pid = pid
                real.append("ok saved=%d %s" % (1 if acc else 0, R.digest()))
            elif c < 0.92:
                descr.append(("interp",))
                okf = md.interpolate_mini_models_svd()[0]
                lines.append("minterp" if okf else "mfact")
                real.append("ok " + R.digest())
            else:
                descr.append(("fact",))
                lines.append("mfact")
                md.factorise_geom_system()
                real.append("ok " + R.digest())
        except AssertionError:
            real.append("err")
        except Exception as e:  # LinAlgError from QR on bad data etc.: state may be partly updated; stop the sequence here
            lines.pop() if len(lines) > len(real) else None
            descr.pop()
            break
        lines.append("mfinal")
        real.append(R.final_digest())
        descr.append(("final",))
    return lines, real, descr


def canon_reply(s):
    # error text is not compared, only the class
    return "err" if s.startswith("err") else s


def run_sequences(ctx, nseq, length, seed_base):
    dfols = core.import_dfols()
    all_lines, all_real, owners = [], [], []
    seqs = []
    for i in range(nseq):
        rng = np.random.default_rng([ctx.seed, seed_base, i])
        with_h = bool(i % 3 == 0)
        try:
            lines, real, descr = gen_sequence(dfols, rng, length, with_h)
        except Exception as e:
            ctx.broke("correspondence:model-ops", "real Model raised %r in sequence %d" % (e, i))
            continue
        seqs.append((i, lines, real, descr))
        for j, (a, b) in enumerate(zip(lines, real)):
            all_lines.append(a)
            all_real.append(b)
            owners.append((i, j))
    replies = core.run_driver(all_lines)
    mismatches = []
    bad_seq = set()
    for (i, j), rep, want in zip(owners, replies, all_real):
        if i in bad_seq:
            continue
        if canon_reply(rep) != canon_reply(want):
            bad_seq.add(i)
            mismatches.append({"sequence": i, "op_index": j, "lean": rep, "real": want})
    opcount = {}
    for (_i, _l, _r, descr) in seqs:
        for d in descr:
            opcount[d[0]] = opcount.get(d[0], 0) + 1
        ctx.seen(("c17seq", tuple(map(str, descr))[:40]))
    return seqs, mismatches, opcount, len(all_lines)


def correspondence(ctx):
    nseq = ctx.scale(150, 1500)
    length = ctx.scale(50, 400)
    seqs, mism, opcount, nlines = run_sequences(ctx, nseq, length, 17)
    ctx.cov["correspondence_model_ops"] = {"sequences": len(seqs), "protocol_lines": nlines, "op_mix": opcount,
                                           "mismatching_sequences": len(mism)}
    if seqs:
        i, lines, real, descr = seqs[0]
        ctx.add_sample({"kind": "Model op sequence (first 6 ops)", "ops": [str(d) for d in descr[:12]],
                        "protocol": lines[:6], "state_after_last": real[min(len(real) - 1, 10)]})
    for mm in mism[:5]:
        ctx.broke("correspondence:Model-vs-MState", mm)
    ctx._c17_mismatch = mism


def search(ctx):
    """C17's clauses stated directly on the real object (shadow record in Python)."""
    dfols = core.import_dfols()
    from dfols.model import Model
    nseq = ctx.scale(200, 2000) * getattr(ctx, "boost", 1)
    length = ctx.scale(50, 200)
    for i in range(nseq):
        rng = np.random.default_rng([ctx.seed, 1717, i])
        res = search_one(dfols, rng, length, with_h=(i % 3 == 0))
        ctx.seen(("c17search", i, res is None))
        if res is not None:
            sig, what, replay = res
            replay.update({"seed": [ctx.seed, 1717, i], "length": length, "with_h": i % 3 == 0})
            ctx.fail(sig, what, replay)
            if len(ctx.failures) >= 6:
                break
    ctx.cov["search_sequences"] = nseq


def better(a, b):
    """a at least as good as b, NaN worst"""
    if b != b:
        return True
    if a != a:
        return False
    return a <= b


def search_one(dfols, rng, length, with_h):
    R = Real(dfols, rng, with_h)
    md = R.model
    # shadow: per slot -> dict(label, samples(list of arrays), x(relative coords))
    shadow = [{"label": 1, "samples": [md.fval_v[0, :].copy() for _ in range(R.r0ns)], "x": np.zeros(R.n)}]
    kopt_guard_ok = True      # False once the incumbent's row was overwritten by a worse point (or kopt update disallowed)
    best_offered_saved = None
    saved_shadow = [None]     # what was handed to the last ACCEPTED save_point: (resid copy, ns, label)
    en = 1
    hist = []

    def check(opname):
        npt = md.npt()
        if len(shadow) != npt:
            return ("C17:npt", "npt() = %d but %d points were stored (%s)" % (npt, len(shadow), opname))
        for k in range(npt):
            sh = shadow[k]
            if int(md.eval_num[k]) != sh["label"]:
                return ("C17:label-travel:" + opname, "eval_num[%d]=%d but the point stored there was labelled %d (after %s)" % (k, md.eval_num[k], sh["label"], opname))
            if int(md.nsamples[k]) != len(sh["samples"]):
                return ("C17:sample-count:" + opname, "nsamples[%d]=%d but %d samples were received (after %s)" % (k, md.nsamples[k], len(sh["samples"]), opname))
            mean = np.mean(np.array(sh["samples"]), axis=0)
            got = md.fval_v[k, :]
            fin = np.isfinite(mean) & np.isfinite(got)
            if not np.array_equal(np.isnan(mean), np.isnan(got)) or np.any(np.abs(mean[fin] - got[fin]) > 1e-9 * (1 + np.abs(mean[fin]))):
                return ("C17:mean:" + opname, "stored residual %s is not the mean %s of the samples (after %s)" % (got, mean, opname))
            if md.points[k, :].tobytes() != sh["x"].tobytes():
                return ("C17:point-travel:" + opname, "points[%d] does not hold the point stored there (after %s)" % (k, opname))
            want = R.objective(md.fval_v[k, :], used_point(md, k))
            have = float(md.objval[k])
            # exact without a regulariser; with h the point is the stored point as used, whose rounding changes with base shifts
            tol = 0.0 if R.h is None else 1e-12 * (1.0 + abs(want))
            if not (want == have or (want != want and have != have) or abs(want - have) <= tol):
                return ("C17:obj-matches:" + opname, "objval[%d]=%r but sumsq(resid)+h=%r (after %s)" % (k, have, want, opname))
        if kopt_guard_ok:
            for k in range(npt):
                if not better(float(md.objval[md.kopt]), float(md.objval[k])):
                    return ("C17:kopt-min:" + opname, "objval[kopt=%d]=%r is worse than objval[%d]=%r (after %s)" % (md.kopt, md.objval[md.kopt], k, md.objval[k], opname))
        x, r, obj, jac, ns, enn, jn = md.get_final_results()
        if not better(float(obj), float(md.objval[md.kopt])):
            return ("C17:final-vs-incumbent", "get_final_results obj=%r worse than incumbent %r" % (obj, md.objval[md.kopt]))
        if md.objsave is not None and not better(float(obj), float(md.objsave)):
            return ("C17:final-vs-saved", "get_final_results obj=%r worse than saved %r" % (obj, md.objsave))
        if saved_shadow[0] is not None and md.rsave is not None:
            r0, ns0, en0 = saved_shadow[0]
            if md.rsave.tobytes() != r0.tobytes() or int(md.nsamples_save) != ns0 or int(md.eval_num_save) != en0:
                return ("C17:saved-point-corrupted:" + opname, "saved residual / sample count / label changed after save_point accepted them (after %s)" % opname)
            want = R.objective(md.rsave, md.xsave)
            tol = 0.0 if R.h is None else 1e-12 * (1.0 + abs(want))
            if not (want == float(md.objsave) or (want != want and md.objsave != md.objsave) or abs(want - float(md.objsave)) <= tol):
                return ("C17:saved-obj-matches:" + opname, "objsave=%r but sumsq(rsave)+h=%r (after %s)" % (md.objsave, want, opname))
        if best_offered_saved is not None and md.objsave is not None and not better(float(md.objsave), best_offered_saved):
            return ("C17:save-keeps-best", "objsave=%r but %r was offered to save_point" % (md.objsave, best_offered_saved))
        return None

    for step in range(length):
        c = rng.random()
        npt = md.npt()
        try:
            if c < 0.35:
                u = rng.random()
                k = int(rng.integers(0, npt)) if u < 0.65 else npt
                if k >= md.num_pts:
                    continue
                x = np.round(rng.normal(size=R.n), 3)
                r = rand_resid(rng, R.m, R.pool)
                allow = bool(rng.random() < 0.9)
                en += 1
                v = R.objective(r, md.xbase + x)
                if k == md.kopt:
                    others = [float(md.objval[j]) for j in range(npt) if j != k]
                    if not all(better(v, o) for o in others):
                        kopt_guard_ok = False
                if not allow and k != md.kopt:
                    if not better(float(md.objval[md.kopt]), v):
                        kopt_guard_ok = False
                hist.append(("change", k, x.tolist(), r.tolist(), en, allow))
                md.change_point(k, x, r, en, allow_kopt_update=allow)
                ent = {"label": en, "samples": [r.copy()], "x": x.copy()}
                if k == len(shadow):
                    shadow.append(ent)
                else:
                    shadow[k] = ent
                R.pool.append(r)
                name = "change_point"
            elif c < 0.55:
                k = int(rng.integers(0, npt))
                r = rand_resid(rng, R.m, R.pool)
                hist.append(("sample", k, r.tolist()))
                md.add_new_sample(k, r)
                shadow[k]["samples"].append(r.copy())
                # add_new_sample recomputes the arg-min: the guard is re-established unless every value is NaN
                kopt_guard_ok = True
                name = "add_new_sample"
            elif c < 0.63:
                k1, k2 = int(rng.integers(0, npt)), int(rng.integers(0, npt))
                hist.append(("swap", k1, k2))
                md.swap_points(k1, k2)
                shadow[k1], shadow[k2] = shadow[k2], shadow[k1]
                name = "swap_points"
            elif c < 0.70:
                if md.npt_so_far < md.num_pts:
                    continue   # precondition of add_new_point: full set
                x = np.round(rng.normal(size=R.n), 3)
                r = rand_resid(rng, R.m, R.pool)
                en += 1
                hist.append(("addpt", x.tolist(), r.tolist(), en))
                md.add_new_point(x, r, en)
                shadow.append({"label": en, "samples": [r.copy()], "x": x.copy()})
                name = "add_new_point"
            elif c < 0.76:
                shift = np.round(rng.normal(size=R.n), 2)
                hist.append(("shift", shift.tolist()))
                md.shift_base(shift)
                for sh in shadow:
                    sh["x"] = sh["x"] - shift
                name = "shift_base"
            elif c < 0.90:
                x = np.round(rng.normal(size=R.n), 3)
                r = rand_resid(rng, R.m, R.pool)
                ns = int(rng.integers(1, 4))
                en += 1
                v = R.objective(r, x)
                hist.append(("save", x.tolist(), r.tolist(), ns, en))
                if rng.random() < 0.4:
                    # as Controller.soft_restart: save the incumbent, passing the model's own row (a view)
                    k0 = int(md.kopt)
                    x = md.xopt(abs_coordinates=True)
                    r = md.ropt()
                    ns, lab = int(md.nsamples[k0]), int(md.eval_num[k0])
                    v = R.objective(r, x)
                    rcopy = r.copy()
                    if md.save_point(x, r, ns, lab, x_in_abs_coords=True):
                        saved_shadow[0] = (rcopy, ns, lab)
                else:
                    rcopy = r.copy()
                    if md.save_point(x, r, ns, en, x_in_abs_coords=True):
                        saved_shadow[0] = (rcopy, ns, en)
                if best_offered_saved is None or better(v, best_offered_saved):
                    best_offered_saved = v
                name = "save_point"
            else:
                continue
        except AssertionError:
            continue
        bad = check(name)
        if bad is not None:
            sig, what = bad
            return sig, what, {"ops": [str(h) for h in hist[-12:]], "n_ops": len(hist)}
    return None


def replay(payload):
    """re-run the search sequence named in a replay file against the current tree"""
    dfols = core.import_dfols()
    rp = payload.get("replay", {})
    if "seed" not in rp:
        print("replay file names a broken obligation, nothing to execute:", payload.get("broken"))
        return 1
    rng = np.random.default_rng(rp["seed"])
    res = search_one(dfols, rng, rp["length"], rp["with_h"])
    if res is None:
        print("replay: property holds on this input now")
        return 0
    print("replay: still fails:", res[0], res[1])
    return 1
