"""Shared helpers for C16 / C11 / C05 (interpolation models): exact dyadic arithmetic on float arrays,
the `InterpMain.lean` driver protocol, conditioning, distribution summaries.

Exact arithmetic: every IEEE double is a dyadic rational.  An array of doubles is held as a NumPy
object array of Python ints together with one binary exponent (`a == ints * 2**-shift` exactly), so
sums and products are exact integer operations (no gcd, no rounding).
"""
from fractions import Fraction

import numpy as np

import core

EPS = 2.0 ** -52
DRIVER_MAIN = "InterpMain.lean"


# ----------------------------------------------------------------------------------------------
# exact dyadic arrays
# ----------------------------------------------------------------------------------------------
class Dy:
    """exact dyadic array: value = ints * 2**-shift (ints: object ndarray of Python ints)"""

    __slots__ = ("ints", "shift")

    def __init__(self, ints, shift):
        self.ints = ints
        self.shift = shift

    @staticmethod
    def of(a):
        a = np.asarray(a, dtype=float)
        flat = a.ravel()
        nums, ks = [], []
        for x in flat:
            num, den = float(x).as_integer_ratio()
            nums.append(num)
            ks.append(den.bit_length() - 1)
        shift = max(ks) if ks else 0
        ints = np.empty(len(nums), dtype=object)
        for i, (num, k) in enumerate(zip(nums, ks)):
            ints[i] = num << (shift - k)
        return Dy(ints.reshape(a.shape), shift)

    def _align(self, other):
        s = max(self.shift, other.shift)
        a = self.ints * (1 << (s - self.shift)) if s != self.shift else self.ints
        b = other.ints * (1 << (s - other.shift)) if s != other.shift else other.ints
        return a, b, s

    def __add__(self, other):
        a, b, s = self._align(other)
        return Dy(a + b, s)

    def __sub__(self, other):
        a, b, s = self._align(other)
        return Dy(a - b, s)

    def __neg__(self):
        return Dy(-self.ints, self.shift)

    def __mul__(self, other):          # elementwise (broadcasting)
        return Dy(self.ints * other.ints, self.shift + other.shift)

    def dot(self, other):               # matrix product
        return Dy(np.dot(self.ints, other.ints), self.shift + other.shift)

    @property
    def T(self):
        return Dy(self.ints.T, self.shift)

    def __getitem__(self, idx):
        return Dy(self.ints[idx], self.shift)

    def sum(self, axis=None):
        return Dy(np.sum(self.ints, axis=axis), self.shift)

    def reshape(self, *shape):
        return Dy(self.ints.reshape(*shape), self.shift)

    def to_float(self):
        """correctly rounded doubles"""
        den = 1 << self.shift
        ints = np.asarray(self.ints, dtype=object)
        vals = [_ratio_to_float(int(v), den) for v in ints.ravel()]
        return np.array(vals, dtype=float).reshape(ints.shape)

    def fractions(self):
        den = 1 << self.shift
        return [Fraction(int(v), den) for v in np.asarray(self.ints, dtype=object).ravel()]


def _ratio_to_float(num, den):
    try:
        return num / den
    except OverflowError:
        return float(Fraction(num, den))


def rat_token(x):
    num, den = float(x).as_integer_ratio()
    return str(num) if den == 1 else "%d/%d" % (num, den)


def rat_tokens(a):
    return " ".join(rat_token(x) for x in np.asarray(a, dtype=float).ravel())


def parse_rats(reply):
    """'ok a/b c ...' -> list of Fractions (raises on anything else)"""
    ts = reply.split()
    if not ts or ts[0] != "ok":
        raise ValueError("driver reply: " + reply[:200])
    return [Fraction(t) for t in ts[1:]]


def run_interp_driver(lines, timeout=900):
    return core.run_driver(lines, timeout=timeout, main=DRIVER_MAIN)


# ----------------------------------------------------------------------------------------------
# exact evaluation of the spec predicates (Python side = the search oracle)
# ----------------------------------------------------------------------------------------------
def exact_misfit(Y, F, c, J):
    """E[t,i] = c_i + J_i·y_t − F[t,i];  N0[i] = Σ_t E[t,i];  N1[j,i] = Σ_t Y[t,j]·E[t,i]   (all exact Dy)"""
    dY, dF, dc, dJ = Dy.of(Y), Dy.of(F), Dy.of(c), Dy.of(J)
    mv = dY.dot(dJ.T) + Dy(np.broadcast_to(dc.ints, (Y.shape[0], len(c))).copy(), dc.shift)
    E = mv - dF
    N0 = E.sum(axis=0)
    N1 = dY.T.dot(E)
    return E, N0, N1


def exact_lagrange(xopt, dg, y):
    """L_k(y) = dg[0,k] + Σ_j dg[j+1,k]·(y_j − xopt_j)   (exact Dy, length p)"""
    d = Dy.of(np.asarray(y, dtype=float)) - Dy.of(np.asarray(xopt, dtype=float))
    ddg = Dy.of(dg)
    return ddg[0, :] + Dy(d.ints.reshape(1, -1), d.shift).dot(ddg[1:, :]).reshape(-1)


def exact_model_values(c, J, Y):
    """c + J·y_t for every row of Y (exact Dy, shape (p, m))"""
    dY, dc, dJ = Dy.of(Y), Dy.of(c), Dy.of(J)
    return dY.dot(dJ.T) + Dy(np.broadcast_to(dc.ints, (Y.shape[0], len(c))).copy(), dc.shift)


# ----------------------------------------------------------------------------------------------
# conditioning / summaries
# ----------------------------------------------------------------------------------------------
def cond2(W):
    try:
        s = np.linalg.svd(W, compute_uv=False)
    except np.linalg.LinAlgError:
        return float("inf")
    r = min(W.shape)
    if not np.all(np.isfinite(s)) or s[r - 1] == 0.0:
        return float("inf")
    return float(s[0] / s[r - 1])


def summary(xs):
    """distribution summary for the evidence file"""
    if not len(xs):
        return {"count": 0}
    a = np.sort(np.asarray(xs, dtype=float))
    q = lambda p: float(a[min(len(a) - 1, int(p * len(a)))])
    return {"count": int(len(a)), "median": q(0.5), "p90": q(0.9), "p99": q(0.99), "max": float(a[-1])}
