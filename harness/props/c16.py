"""C16 — Interpolation models reproduce their data and survive base shifts (PARTIAL).

Lean proves the exact-arithmetic algebra (Properties/C16.lean) and, for every operation sequence of
the L1 state machine, the soundness of `factorisation_current`.  This module ties both to the real
`dfols.model.Model`:

Correspondence (random operation sequences on the real object: replace / grow / shift / sample /
swap / fit / Lagrange / factorise; n, m <= 6, 2..2n+1 points, spreads over 4 decades, base points up
to 1e6 from the origin):
  * after every successful fit the *spec predicates* of the theorems (`Interpolates`, `IsLSQFit`,
    `lagrangeVal`) are evaluated by the Lean driver in exact rational arithmetic on the real state
    (`ieval`, `ilag`) and must (a) equal the harness's own exact evaluation, (b) vanish up to
    `TOL_C*(n+1)*eps*cond(W)*scale`;
  * the Lean definitions `IModel.fit`, `IModel.shiftBase`, `IModel.buildFullModel` are executed
    exactly on the real inputs and compared with what the code stored (forward rounding bounds only);
  * the same sequences run through the L1 state machine (`m…` lines): `kopt`, `factorisation_current`
    must agree, and whenever the Lean ghost says `factVersion = version` the real point set and kopt
    must be byte-identical to those at the last factorisation.
Search: the property's clauses directly on the real object (exact dyadic arithmetic in Python,
same tolerances), more and longer sequences, plus the full-rank-completion suite
(`make_full_rank=True`, the solver's default while growing).

Tolerances (stated constants):  TOL_C = 64.
  interpolation     max|c + J y_t - F_t|                 <= TOL_C*(n+1)*eps*cond(W)*scale
  normal equations  |sum_t w_t,o (c + J y_t - F_t)|      <= TOL_C*(n+1)*eps*cond(W)*scale*npt     (w = column o of W)
  Lagrange          |L_k(y_t) - delta_kt|, |sum_k L_k(y) - 1| <= TOL_C*(n+1)*eps*cond(W)*scaleL
  shift_base        model values at stored / absolute points, g: forward rounding bounds (no cond factor)
with scale = max_t,i(|c_i| + sum_j|J_ij||y_tj| + |F_ti|), cond(W) the 2-norm condition number of the
preconditioned matrix the code factorises; checks are skipped (and counted) when cond(W) > 1e10.
The measured distributions of  error / (eps*cond*scale)  go into the evidence file.
"""
import numpy as np

import core
from core import fkey, fbits_raw
from props import interp_common as ic
from props.interp_common import EPS, Dy

MODULE = "DfolsVerif.Properties.C16"
BUILD_TARGETS = ["DfolsVerif.Driver.InterpDrv"]
THEOREMS = [
    "Dfols.C16.interp_reproduces",
    "Dfols.C16.interp_reproduces_square",
    "Dfols.C16.interp_reproduces_growing",
    "Dfols.C16.regression_normal_eqs",
    "Dfols.C16.lagrange_delta",
    "Dfols.C16.lagrange_sum_one",
    "Dfols.C16.shift_base_invariant",
    "Dfols.C16.refit_after_shift",
    "Dfols.C16.full_rank_completion_interpolates",
    "Dfols.C16.full_rank_completion_old",
    "Dfols.C16.fact_flag_sound",
    "Dfols.C16.fact_flag_geometry",
    "Dfols.C16.fact_flag_old_add_sample",
]
TRUSTED_EXTRA = [
    "PARTIAL: proved = exact-arithmetic identities of the interpolation specification (Kernels/Interp.lean) "
    "under the hypothesis that the LAPACK results satisfy their defining equations (W=QR, QtQ=1, Rx=QtF / Wt=QR, RtRb=F), "
    "plus the discrete soundness of factorisation_current for every operation sequence",
    "NOT proved: LAPACK exactness (scipy.linalg.qr, solve_triangular, svd); every 'up to rounding proportional to cond(W)' "
    "clause (no IEEE-754 error analysis in Lean/Mathlib) — watched by this check with tolerance 64*(n+1)*eps*cond(W)*scale, sampled",
    "modelled rather than verified: the specification Kernels/Interp.lean is hand-written from model.py and tied to it by "
    "executing its definitions exactly (rationals) on the real object's arrays",
    "harness-side exact dyadic arithmetic (Python ints) is the search oracle; it is cross-checked for equality against the Lean evaluation",
]

LEVEL = "proof"
EXPLANATION = ("PARTIAL. Proved (Lean): exact-arithmetic identities of the interpolation specification — data reproduced with n+1 points and "
               "while growing, normal equations for regression, Lagrange delta / sum-to-one, shift_base invariance of model values and (g,H), "
               "full-rank completion — under the defining equations of the LAPACK results; and for every operation sequence the soundness of "
               "factorisation_current (ghost version and geometry forms; pinned add_new_sample refuted). Not proved: LAPACK exactness and "
               "every conditioning-proportional rounding bound — observed on the real Model with tolerance 64(n+1) eps cond(W) scale "
               "(measured max < 1 x eps cond scale).")

TOL_C = 64.0
COND_MAX = 1e10
SUITE_CORR = 1601
SUITE_SEARCH = 1616
SUITE_MFR = 1633


# ----------------------------------------------------------------------------------------------
# sequence engine on the real Model
# ----------------------------------------------------------------------------------------------
class Cfg:
    def __init__(self, rng, nmax=6, mmax=6):
        self.n = int(rng.integers(1, nmax + 1))
        self.m = int(rng.integers(1, mmax + 1))
        self.cap = int(rng.integers(self.n + 1, 2 * self.n + 2))
        self.base_mag = float(10 ** rng.uniform(0, 6)) if rng.random() < 0.75 else 1.0
        self.s0 = float(10 ** rng.uniform(-3, 1))
        self.spread = float(rng.uniform(0, 4))
        self.rscale = float(10 ** rng.uniform(-2, 3))
        self.kind = ["random", "smooth"][int(rng.integers(0, 2))]
        self.finite_bounds = bool(rng.random() < 0.3)
        self.precondition = bool(rng.random() < 0.85)

    def describe(self):
        return {"n": self.n, "m": self.m, "npt": self.cap, "base_mag": self.base_mag, "s0": self.s0,
                "spread_decades": self.spread, "rscale": self.rscale, "data": self.kind,
                "finite_bounds": self.finite_bounds, "precondition": self.precondition}


class Failure(Exception):
    pass


class Engine:
    """drives one real Model through a random op sequence, checking the property's clauses with exact
    arithmetic and (optionally) producing the protocol lines for the Lean driver"""

    def __init__(self, dfols, rng, cfg, with_lean=False, mfr=False):
        from dfols.model import Model
        self.rng, self.cfg, self.with_lean, self.mfr = rng, cfg, with_lean, mfr
        n, m = cfg.n, cfg.m
        direction = rng.normal(size=n)
        direction /= max(np.linalg.norm(direction), 1e-300)
        x0 = direction * cfg.base_mag * rng.uniform(0.1, 1.0)
        self.center = x0.copy()
        self.Amat = rng.normal(size=(m, n))
        self.bvec = rng.normal(size=m)
        if cfg.finite_bounds:
            width = 1e3 * cfg.s0 * 10 ** cfg.spread
            xl, xu = x0 - width, x0 + width
        else:
            xl, xu = -1e20 * np.ones(n), 1e20 * np.ones(n)
        self.x_rel_track = np.zeros(n)           # position of xbase relative to the start (float, for data only)
        r0 = self.resid(np.zeros(n))
        self.md = Model(cfg.cap, x0, r0, xl, xu, [], 1, precondition=cfg.precondition, do_logging=False)
        self.en = 1
        self.failures = []                       # (signature, what, detail)
        self.stats = {}                          # name -> list of normalised errors
        self.counts = {}
        self.lines = []                          # protocol lines
        self.expect = []                         # per line: dict describing how to check the reply
        self.hist = []
        self.fact_geom = None                    # geometry bytes at the last real factorisation
        self.pid = 1
        if with_lean:
            md = self.md
            self.lines.append("minit %d 0 %s 1 %d %s" % (cfg.cap, fkey(md.objval[0]), int(md.eval_num[0]),
                                                         " ".join(fbits_raw(v) for v in md.fval_v[0, :])))
            self.expect.append({"kind": "m", "op": "init", "kopt": int(md.kopt), "fact": 0, "geom_same": None})

    # ---- data -------------------------------------------------------------------------------
    def resid(self, y_from_start):
        """residual vector for a point given by its offset from the starting point"""
        cfg = self.cfg
        if cfg.kind == "random":
            return self.rng.normal(size=cfg.m) * cfg.rscale
        z = y_from_start / (cfg.s0 * 10 ** (0.5 * cfg.spread))
        return cfg.rscale * (self.Amat.dot(z) - self.bvec + 0.3 * np.sin(z).sum() + 0.05 * np.dot(z, z))

    def new_point(self):
        """a new point (relative to xbase) near the current xopt, radius spread over `spread` decades"""
        cfg, md = self.cfg, self.md
        d = self.rng.normal(size=cfg.n)
        d /= max(np.linalg.norm(d), 1e-300)
        rad = cfg.s0 * 10 ** self.rng.uniform(0, cfg.spread)
        return md.points[md.kopt, :] + d * rad

    def count(self, key):
        self.counts[key] = self.counts.get(key, 0) + 1

    def stat(self, key, v):
        self.stats.setdefault(key, []).append(float(v))

    def fail(self, sig, what, detail=None):
        self.failures.append((sig, what, detail or {}))

    # ---- ghost / flag -----------------------------------------------------------------------
    def geom_bytes(self):
        md = self.md
        return md.points[:md.npt(), :].tobytes() + bytes([int(md.kopt) % 256])

    def after_op(self, opname, was_fact_before, refactorised):
        """`factorisation_current` against the harness ghost; Q·R against the current matrix"""
        md = self.md
        if refactorised:
            self.fact_geom = self.geom_bytes()
        if md.factorisation_current:
            if self.fact_geom is None or self.fact_geom != self.geom_bytes():
                self.fail("C16:stale-factorisation:" + opname,
                          "factorisation_current is True after %s although the point set / kopt changed since the QR was computed" % opname)
            else:
                W = md.interpolation_matrix()[0]
                QR = md.Q.dot(md.R)
                if md.qr_of_transpose:
                    QR = QR.T
                if np.all(np.isfinite(W)) and np.all(np.isfinite(QR)):
                    err = float(np.max(np.abs(QR - W)))
                    self.stat("qr_minus_W_over_eps_maxW", err / (EPS * max(1.0, float(np.max(np.abs(W))))))
                    if err > TOL_C * (self.cfg.n + 1) * EPS * max(1.0, float(np.max(np.abs(W)))):
                        self.fail("C16:cached-QR-not-W:" + opname, "cached Q·R differs from interpolation_matrix() by %.3e" % err)

    def m_line(self, line, opname, refactorised=False):
        if not self.with_lean:
            return
        md = self.md
        self.lines.append(line)
        self.expect.append({"kind": "m", "op": opname, "kopt": int(md.kopt), "fact": 1 if md.factorisation_current else 0,
                            "geom_same": (None if self.fact_geom is None else self.fact_geom == self.geom_bytes())})

    # ---- checks after a fit --------------------------------------------------------------------
    def fit_state(self):
        md = self.md
        p = md.npt()
        Y = np.array([md.xpt(k) for k in range(p)])
        F = md.fval_v[:p, :].copy()
        return p, Y, F, md.model_const.copy(), md.model_jac.copy()

    def check_fit(self, tag=""):
        md, cfg = self.md, self.cfg
        n, m = cfg.n, cfg.m
        p, Y, F, c, J = self.fit_state()
        W = md.interpolation_matrix()[0]
        kappa = ic.cond2(W)
        if not np.isfinite(kappa) or kappa > COND_MAX:
            self.count("skipped_cond_gt_1e10")
            return
        scale = float(np.max(np.abs(c)[None, :] + np.abs(Y).dot(np.abs(J).T) + np.abs(F)))
        if scale == 0.0 or not np.isfinite(scale):
            self.count("skipped_zero_scale")
            return
        E, N0, N1 = ic.exact_misfit(Y, F, c, J)
        tol = TOL_C * (n + 1) * EPS * kappa * scale
        phase = "growing" if p < n + 1 else ("square" if p == n + 1 else "regression")
        self.count("fit_" + phase + tag)
        self.stat("log10_cond_W", np.log10(kappa))
        self.stat("npt_at_fit", p)
        if p <= n + 1:
            err = float(np.max(np.abs(E.to_float())))
            self.stat("interp_err_over_eps_cond_scale:" + phase + tag, err / (EPS * kappa * scale))
            if err > tol:
                self.fail("C16:interp-misfit:" + phase + tag,
                          "after the fit max|c + J y_t - F_t| = %.3e > tol %.3e (npt=%d, n=%d, cond(W)=%.2e, scale=%.2e)" % (err, tol, p, n, kappa, scale),
                          {"err": err, "tol": tol})
        else:
            # orthogonality to the columns of the (centred, preconditioned) matrix: column 0 = ones,
            # column j = (y_tj - xopt_j)/delta  ->  (N1_j - xopt_j N0)/delta, all exact
            xopt = md.xopt()
            delta = float(np.sqrt(np.max(md.distances_to_xopt()))) if cfg.precondition else 1.0
            n0 = N0.to_float()
            dx = Dy.of(xopt)
            cen = N1 - Dy(dx.ints.reshape(-1, 1) * N0.ints.reshape(1, -1), dx.shift + N0.shift)
            n1 = cen.to_float() / delta
            err = float(max(np.max(np.abs(n0)), np.max(np.abs(n1))))
            self.stat("normal_eq_resid_over_eps_cond_scale_npt" + tag, err / (EPS * kappa * scale * p))
            if err > tol * p:
                self.fail("C16:normal-equations" + tag,
                          "least-squares fit: |W^T (W dg - F)|_max = %.3e > tol %.3e (npt=%d, n=%d, cond(W)=%.2e, scale=%.2e)" % (err, tol * p, p, n, kappa, scale),
                          {"err": err, "tol": tol * p})
        if self.with_lean:
            self.lines.append("ieval %d %d %d | %s | %s | %s | %s" % (n, m, p, ic.rat_tokens(Y), ic.rat_tokens(F), ic.rat_tokens(c), ic.rat_tokens(J)))
            self.expect.append({"kind": "ieval", "want": E.fractions() + N0.fractions() + N1.fractions()})

    def check_fit_assembly(self):
        """Lean `IModel.fit` on the triangular-solve result vs the stored model_const / model_jac"""
        md, cfg = self.md, self.cfg
        if not self.with_lean or not md.factorisation_current:
            return
        import scipy.linalg as LA
        p = md.npt()
        rhs = md.fval_v[:p, :]
        try:
            if md.qr_of_transpose:
                x = np.dot(md.Q, LA.solve_triangular(md.R, rhs, trans='T'))
            else:
                x = LA.solve_triangular(md.R, np.dot(md.Q.T, rhs))
        except Exception:
            return
        if not np.all(np.isfinite(x)):
            return
        delta = 1.0 / float(md.right_scaling[1]) if cfg.n >= 1 else 1.0
        # the code multiplies by right_scaling = 1/approx_delta (a rounded reciprocal); the spec divides by delta
        Yp = md.points[:p, :]
        self.lines.append("ifit %d %d %d %d %s | %s | %s" % (cfg.n, cfg.m, p, int(md.kopt), ic.rat_token(delta), ic.rat_tokens(np.array([md.xpt(k) for k in range(p)])), ic.rat_tokens(x)))
        xo = md.xopt()
        Jabs = np.abs(x[1:, :].T) * abs(float(md.right_scaling[1]))
        self.expect.append({"kind": "ifit", "c": md.model_const.copy(), "J": md.model_jac.copy(),
                            "tolJ": 4 * EPS * Jabs,
                            "tolc": (cfg.n + 4) * EPS * (np.abs(x[0, :]) + Jabs.dot(np.abs(xo)))})
        del Yp

    def check_lagrange(self):
        md, cfg = self.md, self.cfg
        n = cfg.n
        p = md.npt()
        if p < 2:
            return
        try:
            cs, gs = md.lagrange_gradient(k=None)
        except Exception as e:
            self.count("lagrange_raised_" + type(e).__name__)
            return
        if not (np.all(np.isfinite(cs)) and np.all(np.isfinite(gs))):
            self.count("lagrange_nonfinite")
            return
        W = md.interpolation_matrix()[0]
        kappa = ic.cond2(W)
        if not np.isfinite(kappa) or kappa > COND_MAX:
            self.count("skipped_cond_gt_1e10")
            return
        dg = np.vstack([cs.reshape(1, -1), gs])
        xopt = md.xopt()
        Y = np.array([md.xpt(k) for k in range(p)])
        scaleL = float(np.max(np.abs(cs)[None, :] + np.abs(Y - xopt).dot(np.abs(gs))))
        scaleL = max(scaleL, 1.0)
        tol = TOL_C * (n + 1) * EPS * kappa * scaleL
        ys = [Y[t] for t in range(p)]
        if p > n + 1:
            ys.append(xopt + self.rng.normal(size=n) * cfg.s0)     # any point: the sum is identically one
        worst_delta, worst_sum = 0.0, 0.0
        for t, y in enumerate(ys):
            L = ic.exact_lagrange(xopt, dg, y)
            Lf = L.to_float()
            if p <= n + 1:
                want = np.zeros(p)
                want[t] = 1.0
                worst_delta = max(worst_delta, float(np.max(np.abs(Lf - want))))
            else:
                sc = max(1.0, float(np.sum(np.abs(cs)) + np.abs(y - xopt).dot(np.abs(gs)).sum()))
                tol_y = TOL_C * (n + 1) * EPS * kappa * sc
                s = float((L.sum() - Dy.of(np.array(1.0))).to_float())
                worst_sum = max(worst_sum, abs(s) / (EPS * kappa * sc))
                if abs(s) > tol_y:
                    self.fail("C16:lagrange-sum-one", "regression Lagrange functions sum to 1%+.3e at a point (tol %.3e, cond(W)=%.2e)" % (s, tol_y, kappa))
            if self.with_lean and t < 3:
                self.lines.append("ilag %d %d | %s | %s | %s" % (n, p, ic.rat_tokens(xopt), ic.rat_tokens(dg), ic.rat_tokens(y)))
                self.expect.append({"kind": "ilag", "want": L.fractions()})
        if p <= n + 1:
            self.count("lagrange_delta_checked")
            self.stat("lagrange_delta_err_over_eps_cond_scale", worst_delta / (EPS * kappa * scaleL))
            if worst_delta > tol:
                self.fail("C16:lagrange-delta", "max|L_k(y_t) - delta_kt| = %.3e > tol %.3e (npt=%d, n=%d, cond(W)=%.2e)" % (worst_delta, tol, p, n, kappa))
        else:
            self.count("lagrange_sum_checked")
            self.stat("lagrange_sum_err_over_eps_cond_scale", worst_sum)

    def check_build(self):
        """Lean `IModel.buildFullModel` (exact) vs the real build_full_model (forward rounding bound)"""
        md, cfg = self.md, self.cfg
        c, J, xo = md.model_const, md.model_jac, md.xopt()
        if not (np.all(np.isfinite(c)) and np.all(np.isfinite(J))):
            return
        g, H = md.build_full_model()
        rabs = np.abs(c) + np.abs(J).dot(np.abs(xo))
        G = 2.0 * np.abs(J).T.dot(rabs)
        HH = 2.0 * np.abs(J).T.dot(np.abs(J))
        dc, dJ, dx = Dy.of(c), Dy.of(J), Dy.of(xo)
        r = dc + dJ.dot(dx)
        g_ex = (dJ.T.dot(r)).to_float() * 2.0
        H_ex = (dJ.T.dot(dJ)).to_float() * 2.0
        tolg = 2 * (cfg.n + cfg.m + 4) * EPS * G + 1e-300
        tolH = 2 * (cfg.m + 4) * EPS * HH + 1e-300
        self.count("build_checked")
        self.stat("build_g_err_over_bound", float(np.max(np.abs(g - g_ex) / tolg)))
        if np.any(np.abs(g - g_ex) > tolg) or np.any(np.abs(H - H_ex) > tolH):
            self.fail("C16:build-full-model", "build_full_model() is not 2J^T(c+J xopt), 2J^T J within the forward rounding bound")
        if self.with_lean:
            self.lines.append("ibuild %d %d | %s | %s | %s" % (cfg.n, cfg.m, ic.rat_tokens(xo), ic.rat_tokens(c), ic.rat_tokens(J)))
            self.expect.append({"kind": "ibuild", "g": g.copy(), "H": H.copy(), "tolg": tolg, "tolH": tolH,
                                "g_py": g_ex, "H_py": H_ex})

    # ---- the operations ---------------------------------------------------------------------------
    def op_replace(self):
        md, cfg, rng = self.md, self.cfg, self.rng
        npt = md.npt()
        grow = md.npt_so_far < md.num_pts and (rng.random() < 0.6 or npt < 2)
        k = npt if grow else int(rng.integers(0, npt))
        x = self.new_point()
        r = self.resid(self.x_rel_track + x)
        if not grow and rng.random() < 0.2:
            # re-evaluation IN PLACE: bit-identical coordinates, a (much) better residual - the set of points is unchanged but
            # kopt moves, and the factorisation is centred on xopt (seeded change C16_9)
            x = md.points[k, :].copy()
            r = r * 1e-3
            self.count("op_replace_in_place")
        self.en += 1
        pid = self.pid
        self.pid += 1
        md.change_point(k, x, r, self.en)
        self.hist.append(("replace", k, x.tolist(), r.tolist()))
        self.after_op("change_point", None, False)
        self.m_line("mchange %d %d %s %d 1 %s" % (k, pid, fkey(md.objval[k]), self.en, " ".join(fbits_raw(t) for t in r)), "change")
        self.count("op_grow" if grow else "op_replace")

    def op_sample(self):
        md, rng = self.md, self.rng
        k = int(rng.integers(0, md.npt()))
        r = md.fval_v[k, :] + rng.normal(size=self.cfg.m) * self.cfg.rscale * (3.0 if rng.random() < 0.3 else 0.05)
        md.add_new_sample(k, r)
        self.hist.append(("sample", k, r.tolist()))
        self.after_op("add_new_sample", None, False)
        self.m_line("msample %d %s %s" % (k, fkey(md.objval[k]), " ".join(fbits_raw(t) for t in r)), "sample")
        self.count("op_sample")

    def op_swap(self):
        md, rng = self.md, self.rng
        k1, k2 = int(rng.integers(0, md.npt())), int(rng.integers(0, md.npt()))
        md.swap_points(k1, k2)
        self.hist.append(("swap", k1, k2))
        self.after_op("swap_points", None, False)
        self.m_line("mswap %d %d" % (k1, k2), "swap")
        self.count("op_swap")

    def op_shift(self):
        md, cfg, rng = self.md, self.cfg, self.rng
        u = rng.random()
        if u < 0.6:
            sh = md.xopt().copy()                                   # what the solver does
        elif u < 0.9:
            sh = self.new_point() - md.points[md.kopt, :] + md.xopt() * rng.uniform(0, 1)
        else:
            sh = rng.normal(size=cfg.n) * cfg.base_mag * 1e-3      # a far jump of the base point
        p = md.npt()
        before = {"xbase": md.xbase.copy(), "Y": md.points[:p, :].copy(), "c": md.model_const.copy(), "J": md.model_jac.copy()}
        finite = bool(np.all(np.isfinite(before["c"])) and np.all(np.isfinite(before["J"])))
        gH_b = md.build_full_model() if finite else None
        xo_b = md.xopt().copy()
        md.shift_base(sh)
        self.x_rel_track = self.x_rel_track + sh
        self.hist.append(("shift", sh.tolist()))
        self.after_op("shift_base", None, False)
        self.m_line("mshift", "shift")
        self.count("op_shift")
        if not finite:
            return
        n, m = cfg.n, cfg.m
        c2, J2, Y2, xb2 = md.model_const, md.model_jac, md.points[:p, :], md.xbase
        if not np.array_equal(J2, before["J"]):
            self.fail("C16:shift-changes-jacobian", "shift_base modified model_jac")
        absJ = np.abs(J2)
        # (1) model values at the stored points (relative coordinates before / after)
        v1 = ic.exact_model_values(before["c"], before["J"], before["Y"])
        v2 = ic.exact_model_values(c2, J2, Y2)
        bound1 = (n + 3) * EPS * (np.abs(before["c"])[None, :] + (np.abs(sh)[None, :] + np.abs(before["Y"]) + np.abs(Y2)).dot(absJ.T)) + 1e-300
        d1 = np.abs((v2 - v1).to_float())
        self.stat("shift_value_at_points_err_over_bound", float(np.max(d1 / bound1)))
        if np.any(d1 > bound1):
            self.fail("C16:shift-model-values", "shift_base changed a model value at a stored point by %.3e (forward bound %.3e)" % (float(np.max(d1)), float(np.max(bound1))))
        # (2) model values at fixed absolute points x = xbase_before + y_t (exact), evaluated through both bases
        xabs = Dy.of(before["Y"]) + Dy(np.broadcast_to(Dy.of(before["xbase"]).ints, before["Y"].shape).copy(), Dy.of(before["xbase"]).shift)
        rel2 = xabs - Dy(np.broadcast_to(Dy.of(xb2).ints, before["Y"].shape).copy(), Dy.of(xb2).shift)
        dJ2 = Dy.of(J2)
        dc2 = Dy.of(c2)
        v2abs = rel2.dot(dJ2.T) + Dy(np.broadcast_to(dc2.ints, (p, m)).copy(), dc2.shift)
        bound2 = (n + 3) * EPS * (np.abs(before["c"])[None, :] + (np.abs(sh)[None, :] + np.abs(xb2)[None, :] + np.abs(before["Y"])).dot(absJ.T)) + 1e-300
        d2 = np.abs((v2abs - v1).to_float())
        self.stat("shift_value_at_abs_points_err_over_bound", float(np.max(d2 / bound2)))
        if np.any(d2 > bound2):
            self.fail("C16:shift-model-values-abs", "shift_base changed a model value at a fixed absolute point by %.3e (forward bound %.3e)" % (float(np.max(d2)), float(np.max(bound2))))
        # (3) gradient and Hessian
        g_b, H_b = gH_b
        g_a, H_a = md.build_full_model()
        xo_a = md.xopt()
        rabs = np.abs(before["c"]) + absJ.dot(np.abs(xo_b)) + np.abs(c2) + absJ.dot(np.abs(xo_a)) + absJ.dot(np.abs(sh))
        boundg = 2 * (n + m + 6) * EPS * 2.0 * absJ.T.dot(rabs) + 1e-300
        dg_ = np.abs(g_a - g_b)
        self.stat("shift_g_err_over_bound", float(np.max(dg_ / boundg)))
        if np.any(dg_ > boundg):
            self.fail("C16:shift-gradient", "shift_base changed build_full_model()'s gradient by %.3e (forward bound %.3e)" % (float(np.max(dg_)), float(np.max(boundg))))
        if np.any(np.abs(H_a - H_b) > 4 * EPS * np.abs(H_b)):
            self.fail("C16:shift-hessian", "shift_base changed build_full_model()'s Hessian")
        self.count("shift_checked")
        if self.with_lean:
            self.lines.append("ishift %d %d %d | %s | %s | %s | %s | %s" % (n, m, p, ic.rat_tokens(before["xbase"]), ic.rat_tokens(before["Y"]),
                                                                               ic.rat_tokens(before["c"]), ic.rat_tokens(before["J"]), ic.rat_tokens(sh)))
            self.expect.append({"kind": "ishift", "xbase": xb2.copy(), "Y": Y2.copy(), "c": c2.copy(),
                                "tolc": (n + 3) * EPS * (np.abs(before["c"]) + absJ.dot(np.abs(sh))) + 1e-300})

    def op_fit(self):
        md = self.md
        if md.npt() < 2:
            return
        was = md.factorisation_current
        mfr = self.mfr and md.npt() < self.cfg.n + 1
        try:
            ok = md.interpolate_mini_models_svd(make_full_rank=mfr)[0]
        except Exception as e:
            self.count("fit_raised_" + type(e).__name__)
            raise Failure()
        self.hist.append(("fit", mfr))
        self.after_op("interpolate_mini_models_svd", was, not was)
        self.m_line("minterp" if ok else "mfact", "fit")
        self.count("op_fit")
        if not ok:
            self.count("fit_returned_false")
            # a refused fit on finite, well-conditioned data: no model reproduces / least-squares-fits the data
            try:
                W = md.interpolation_matrix()[0]
                p_ = md.npt()
                fin = bool(np.all(np.isfinite(W)) and np.all(np.isfinite(md.fval_v[:p_, :])))
                kap = float(np.linalg.cond(W)) if fin else float("inf")
            except Exception:
                fin, kap = False, float("inf")
            if fin and kap <= 1e8:
                self.fail("C16:fit-refused", "interpolate_mini_models_svd returned ok=False on finite data with cond(W) = %.2e (npt=%d of %d, n=%d)"
                          % (kap, md.npt(), md.num_pts, self.cfg.n))
            return
        if not md.factorisation_current:
            self.fail("C16:fit-leaves-flag-clear", "factorisation_current is False right after a successful fit")
        if mfr:
            self.check_fit_mfr()
        else:
            self.check_fit()
            self.check_fit_assembly()
        if self.rng.random() < 0.5:
            self.check_build()

    def check_fit_mfr(self):
        """full-rank completion (make_full_rank=True, growing, m >= n as in the solver): still interpolates as long as
        the completion only raised *zero* singular values (no regularisation of the data's own singular values)"""
        md, cfg = self.md, self.cfg
        p = md.npt()
        import scipy.linalg as LA
        # the un-completed fit, recomputed with the code's own solve
        dg = md.solve_geom_system(md.fval_v[:p, :])
        J0 = dg[1:, :].T
        s = LA.svd(J0, compute_uv=False)
        r = min(p - 1, cfg.n, cfg.m)
        if r < 1:
            self.check_fit(tag=":full-rank")
            return
        floor_val = max(s[0] / 1e8, s[r - 1], 1e-6)
        if floor_val > s[r - 1] * (1 + 1e-12) or (r > 1 and s[r - 1] < 1e-6 * s[0]):
            self.count("mfr_regularised_not_applicable")
            return
        nfail = len(self.failures)
        self.check_fit(tag=":full-rank")
        if len(self.failures) > nfail and self.failures[-1][0].startswith("C16:interp-misfit"):
            # is it the pinned defect (constant term computed from the un-completed Jacobian, model.py:387 vs 403)?
            sig, what, detail = self.failures[-1]
            c_fix = dg[0, :] - np.dot(md.model_jac, md.xopt())
            Y = np.array([md.xpt(k) for k in range(p)])
            E = ic.exact_misfit(Y, md.fval_v[:p, :], c_fix, md.model_jac)[0]
            if float(np.max(np.abs(E.to_float()))) <= detail.get("tol", 0.0):
                self.failures[-1] = ("C16:make-full-rank:stale-const-term",
                                     what + " — model_const was computed from the Jacobian *before* the full-rank completion", detail)

    def op_lagrange(self):
        md = self.md
        was = md.factorisation_current
        self.check_lagrange()
        self.hist.append(("lagrange",))
        refac = (not was) and bool(md.factorisation_current)
        self.after_op("lagrange_gradient", was, refac)
        if md.factorisation_current:
            self.m_line("mfact", "lagrange")
        self.count("op_lagrange")

    def op_probe_unfactorised(self):
        """Lagrange function through the fallback path of solve_geom_system (no current factorisation)"""
        md, cfg = self.md, self.cfg
        if md.factorisation_current or md.npt() < 2:
            return
        p, n = md.npt(), cfg.n
        k = int(self.rng.integers(0, p))
        self.count("op_probe_unfactorised")
        self.hist.append(("lagrange_unfactorised", k))
        try:
            c, g = md.lagrange_gradient(k=k, factorise_first=False)
        except TypeError as e:
            self.fail("C16:solve-without-factorisation:TypeError",
                      "lagrange_gradient(k=%d, factorise_first=False) without a current factorisation raised TypeError: %s" % (k, e))
            return
        except (np.linalg.LinAlgError, ValueError):
            self.count("probe_unfactorised_linalg_error")
            return
        if md.factorisation_current:
            self.fail("C16:stale-factorisation:lagrange_gradient(factorise_first=False)", "flag set by a call that must not factorise")
        if p > n + 1 or not (np.isfinite(c) and np.all(np.isfinite(g))):
            return
        W = md.interpolation_matrix()[0]
        kappa = ic.cond2(W)
        if not np.isfinite(kappa) or kappa > COND_MAX:
            return
        xopt = md.xopt()
        Y = np.array([md.xpt(t) for t in range(p)])
        dg = np.concatenate([[c], g]).reshape(-1, 1)
        scaleL = max(1.0, float(abs(c) + np.max(np.abs(Y - xopt).dot(np.abs(g)))))
        worst = 0.0
        for t in range(p):
            L = float(ic.exact_lagrange(xopt, dg, Y[t]).to_float()[0])
            worst = max(worst, abs(L - (1.0 if t == k else 0.0)))
        self.stat("lagrange_unfactorised_err_over_eps_cond_scale", worst / (EPS * kappa * scaleL))
        if worst > TOL_C * (n + 1) * EPS * kappa * scaleL:
            self.fail("C16:lagrange-delta:unfactorised", "fallback path: max_t|L_k(y_t) - delta_kt| = %.3e (cond(W)=%.2e)" % (worst, kappa))

    def op_factorise(self):
        md = self.md
        was = md.factorisation_current
        try:
            md.factorise_geom_system()
        except Exception as e:
            self.count("factorise_raised_" + type(e).__name__)
            raise Failure()
        self.hist.append(("factorise",))
        self.after_op("factorise_geom_system", was, not was)
        self.m_line("mfact", "factorise")
        self.count("op_factorise")

    def run(self, length):
        rng = self.rng
        for _ in range(length):
            u = rng.random()
            try:
                if self.md.npt() < 2 or u < 0.30:
                    self.op_replace()
                elif u < 0.40:
                    self.op_sample()
                elif u < 0.47:
                    self.op_swap()
                elif u < 0.60:
                    self.op_shift()
                elif u < 0.86:
                    self.op_fit()
                elif u < 0.95:
                    self.op_lagrange()
                elif u < 0.98:
                    self.op_factorise()
                else:
                    self.op_probe_unfactorised()
            except Failure:
                break
            except (np.linalg.LinAlgError, ValueError) as e:
                self.count("op_raised_" + type(e).__name__)
                break
            if len(self.failures) >= 3:
                break
        return self


def merge(dst_stats, dst_counts, eng):
    for k, v in eng.stats.items():
        dst_stats.setdefault(k, []).extend(v)
    for k, v in eng.counts.items():
        dst_counts[k] = dst_counts.get(k, 0) + v


# ----------------------------------------------------------------------------------------------
# correspondence
# ----------------------------------------------------------------------------------------------
def check_replies(ctx, eng, replies, seq_id):
    """compare the Lean driver's replies for one sequence; returns number of mismatches reported"""
    bad = 0

    def broke(name, detail):
        nonlocal bad
        bad += 1
        if bad <= 2 and len(ctx.broken) < 8:
            ctx.broke(name, dict(detail, sequence=seq_id, cfg=eng.cfg.describe()))

    for line, exp, rep in zip(eng.lines, eng.expect, replies):
        kind = exp["kind"]
        if kind == "m":
            if not rep.startswith("ok"):
                broke("correspondence:MState-op-rejected", {"op": exp["op"], "lean": rep[:120]})
                break
            fields = dict(t.split("=", 1) for t in rep.split() if "=" in t)
            if int(fields["kopt"]) != exp["kopt"] or int(fields["fact"]) != exp["fact"]:
                broke("correspondence:Model-vs-MState:kopt/fact", {"op": exp["op"], "lean": {"kopt": fields["kopt"], "fact": fields["fact"]}, "real": exp})
                break
            ghost_current = fields["ver"] == fields["fver"]
            if int(fields["fact"]) == 1 and not ghost_current:
                broke("correspondence:ghost-version", {"op": exp["op"], "lean": rep[-40:]})
            # the tie of the ghost to reality: version unchanged since the factorisation => real geometry unchanged
            if exp["geom_same"] is not None and ghost_current and eng_has_factorised(exp) and not exp["geom_same"]:
                broke("correspondence:ghost-version-vs-real-geometry", {"op": exp["op"]})
            continue
        try:
            got = ic.parse_rats(rep)
        except ValueError as e:
            broke("correspondence:driver-reply", {"kind": kind, "reply": str(e)})
            continue
        if kind in ("ieval", "ilag"):
            if got != exp["want"]:
                broke("correspondence:Lean-spec-vs-harness-exact:" + kind, {"line": line[:160]})
        elif kind == "ifit":
            m, n = exp["J"].shape
            cL = np.array([float(v) for v in got[:m]])
            JL = np.array([float(v) for v in got[m:]]).reshape(m, n)
            if np.any(np.abs(JL - exp["J"]) > exp["tolJ"] + 1e-300) or np.any(np.abs(cL - exp["c"]) > exp["tolc"] + 1e-300):
                broke("correspondence:IModel.fit-vs-model_const/model_jac", {"maxdiff_J": float(np.max(np.abs(JL - exp["J"]))),
                                                                                "maxdiff_c": float(np.max(np.abs(cL - exp["c"])))})
        elif kind == "ishift":
            p, n = exp["Y"].shape
            m = len(exp["c"])
            xb = np.array([float(v) for v in got[:n]])
            Y = np.array([float(v) for v in got[n:n + p * n]]).reshape(p, n)
            c = np.array([float(v) for v in got[n + p * n:]])
            # xbase + sh and points - sh are single correctly-rounded operations: exact value rounds to the stored double
            if not (np.array_equal(xb, exp["xbase"]) and np.array_equal(Y, exp["Y"])) or np.any(np.abs(c - exp["c"]) > exp["tolc"]):
                broke("correspondence:IModel.shiftBase-vs-shift_base", {"xbase_equal": bool(np.array_equal(xb, exp["xbase"])),
                                                                           "points_equal": bool(np.array_equal(Y, exp["Y"])),
                                                                           "maxdiff_c": float(np.max(np.abs(c - exp["c"])))})
        elif kind == "ibuild":
            n = len(exp["g"])
            g = np.array([float(v) for v in got[:n]])
            H = np.array([float(v) for v in got[n:]]).reshape(n, n)
            if np.any(np.abs(g - exp["g"]) > exp["tolg"]) or np.any(np.abs(H - exp["H"]) > exp["tolH"]):
                broke("correspondence:IModel.buildFullModel-vs-build_full_model", {"maxdiff_g": float(np.max(np.abs(g - exp["g"])))})
            if not (np.array_equal(g, exp["g_py"]) and np.array_equal(H, exp["H_py"])):
                broke("correspondence:Lean-spec-vs-harness-exact:ibuild", {})
    return bad


def eng_has_factorised(exp):
    return exp["geom_same"] is not None


def correspondence(ctx):
    dfols = core.import_dfols()
    nseq = ctx.scale(160, 900)
    length = ctx.scale(40, 120)
    stats, counts = {}, {}
    engines = []
    for i in range(nseq):
        rng = np.random.default_rng([ctx.seed, SUITE_CORR, i])
        cfg = Cfg(rng)
        eng = Engine(dfols, rng, cfg, with_lean=True).run(length)
        engines.append((i, eng))
        merge(stats, counts, eng)
        ctx.seen(("c16corr", i, cfg.describe(), len(eng.hist)))
        for sig, what, detail in eng.failures:
            ctx.fail(sig, what, {"suite": "corr", "seed": [ctx.seed, SUITE_CORR, i], "length": length, "mfr": False,
                                 "cfg": cfg.describe(), "last_ops": [str(h)[:200] for h in eng.hist[-6:]]})
    # one driver process per sequence would cost 1.5 s each: batch, resetting the L1 state with `minit`
    all_lines, owner = [], []
    for idx, (i, eng) in enumerate(engines):
        all_lines.extend(eng.lines)
        owner.extend([idx] * len(eng.lines))
    nbad = 0
    if all_lines:
        replies = ic.run_interp_driver(all_lines)
        pos = 0
        for idx, (i, eng) in enumerate(engines):
            k = len(eng.lines)
            nbad += check_replies(ctx, eng, replies[pos:pos + k], i)
            pos += k
    kinds = {}
    for _i, eng in engines:
        for e in eng.expect:
            kinds[e["kind"]] = kinds.get(e["kind"], 0) + 1
    ctx.cov["correspondence"] = {"sequences": len(engines), "ops_per_sequence": length, "driver_lines": len(all_lines),
                                 "driver_line_kinds": kinds, "mismatches": nbad, "counts": counts,
                                 "tolerance": "TOL_C=%g: err <= TOL_C*(n+1)*eps*cond(W)*scale; skipped when cond(W) > %g" % (TOL_C, COND_MAX),
                                 "measured_error_over_eps_cond_scale": {k: ic.summary(v) for k, v in sorted(stats.items())}}
    if engines:
        i, eng = engines[0]
        ctx.add_sample({"kind": "C16 op sequence on the real Model", "cfg": eng.cfg.describe(),
                        "ops": [str(h)[:120] for h in eng.hist[:8]],
                        "protocol_head": [ln[:160] for ln in eng.lines[:4]]})


# ----------------------------------------------------------------------------------------------
# search
# ----------------------------------------------------------------------------------------------
def run_search_seq(dfols, seed, length, mfr):
    rng = np.random.default_rng(seed)
    cfg = Cfg(rng)
    if mfr:
        cfg.m = max(cfg.m, cfg.n)          # the solver only uses the completion when m >= n
        cfg.kind = "smooth"
    eng = Engine(dfols, rng, cfg, with_lean=False, mfr=mfr).run(length)
    return cfg, eng


def search(ctx):
    dfols = core.import_dfols()
    boost = getattr(ctx, "boost", 1)
    stats, counts = {}, {}
    for suite, mfr, nseq, length in ((SUITE_SEARCH, False, ctx.scale(400, 4000) * boost, ctx.scale(60, 150)),
                                     (SUITE_MFR, True, ctx.scale(160, 1500) * boost, ctx.scale(30, 60))):
        for i in range(nseq):
            seed = [ctx.seed, suite, i]
            cfg, eng = run_search_seq(dfols, seed, length, mfr)
            merge(stats, counts, eng)
            ctx.seen(("c16search", mfr, i, cfg.describe(), len(eng.hist)))
            for sig, what, detail in eng.failures:
                ctx.fail(sig, what, {"suite": "search", "seed": seed, "length": length, "mfr": mfr, "cfg": cfg.describe(),
                                     "last_ops": [str(h)[:200] for h in eng.hist[-6:]]})
            if len(ctx.failures) >= 8:
                break
    ctx.cov["search"] = {"counts": counts, "measured_error_over_eps_cond_scale": {k: ic.summary(v) for k, v in sorted(stats.items())}}


def replay(payload):
    dfols = core.import_dfols()
    rp = payload.get("replay", {})
    if "seed" not in rp:
        print("replay file names a broken obligation, nothing to execute:", payload.get("broken"))
        return 1
    if rp.get("suite") == "corr":
        rng = np.random.default_rng(rp["seed"])
        cfg = Cfg(rng)
        eng = Engine(dfols, rng, cfg, with_lean=False).run(rp["length"])
    else:
        cfg, eng = run_search_seq(dfols, rp["seed"], rp["length"], rp.get("mfr", False))
    if not eng.failures:
        print("replay: property holds on this input now")
        return 0
    for sig, what, _d in eng.failures:
        print("replay: still fails:", sig, what)
    return 1
