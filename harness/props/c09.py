"""C09 — General convex constraints hold at every evaluation up to Dykstra's tolerance.

Theorems: lean/DfolsVerif/Properties/C09.lean — kernel level (`C09_feasible`, `C09_box_exact`, about the
`dykstra` of Kernels/Dykstra.lean) and trace level (`C09_first_eval`, `C09_every_eval_projected`,
`C09_evals_satisfy`, `C09_evals_in_box`, about the event model Book/ProjTrace.lean).

Tie to the code, on real `dfols.solve(..., projections=[...])` runs traced by monkey-patched wrappers
(the name `dykstra` in every importing module, the objective, no source change):
  * trace correspondence: the recorded event list (start x0 / dykstra output + "projector list ends
    with solve()'s box" / objective call) is fed to the Lean acceptor `ProjTrace.accept`, which must
    accept it (np.allclose is recomputed in Lean `Float`);
  * call correspondence: recorded `dykstra` calls (the ones that produced evaluated points, the x0
    projection, and a sample of trust-region sub-problem calls) are replayed through the Lean
    `dykstra` in oracle mode (see c15.py): bitwise equal result, same sweeps.
Search: the property stated directly on the recorded run.
"""
import math
import os
for _v in ("OMP_NUM_THREADS", "OPENBLAS_NUM_THREADS", "MKL_NUM_THREADS"):   # tiny matrices: BLAS threads only burn CPU
    os.environ.setdefault(_v, "1")
import numpy as np
import core
from props import dykstra_common as dc

MODULE = "DfolsVerif.Properties.C09"
BUILD_TARGETS = ["DfolsVerif.Driver.DykstraDrv"]
def pre_build(ctx):
    import gen_kernels
    ctx.cov["translated_dykstra"] = gen_kernels.regenerate_dykstra(ctx)


THEOREMS = [
    "Dfols.C09.gen_dykstra",
    "Dfols.C09.C09_feasible",
    "Dfols.C09.C09_box_exact",
    "Dfols.C09.C09_first_eval",
    "Dfols.C09.C09_every_eval_projected",
    "Dfols.C09.C09_evals_satisfy",
    "Dfols.C09.C09_evals_in_box",
]
LEVEL = "proof"
TRUSTED_EXTRA = [
    "AST-to-Lean translator harness/gen_kernels.py (translate_dykstra): the inner-loop body and pball as Ops terms, the loop skeleton and pbox as canonical text",
    "trace level: that every real run is an accepted trace of Book/ProjTrace.lean is checked on sampled runs (trace correspondence), not proved about solver.py/controller.py",
    "kernel level: C09_feasible is exact arithmetic; the float gap is watched by the search with sqrt(p*tol)(1+1e-9)+1e-15",
    "the user's projectors are opaque maps with P_i v in C_i; the harness supplies exact ball/half-space/box projectors",
    "identification of solve()'s appended box projector: last element of the projector list of the first dykstra call (solver.py:1094), checked to act as clip(., xl, xu) on every recorded call",
    "runs that raise RuntimeError('Unable to generate suitable initial directions') are skipped and counted (C07 matter)",
]
EXPLANATION = ("every objective call of real runs with projections is matched bitwise to an earlier box-last dykstra output; "
               "the Lean acceptor and the Lean dykstra (oracle mode) are run on the very same recordings")

PATCH_MODULES = ["dfols.util", "dfols.model", "dfols.solver", "dfols.controller", "dfols.trust_region"]


# ------------------------------------------------------------------------------------------------
# problems
# ------------------------------------------------------------------------------------------------
def unit(rng, n):
    d = rng.normal(size=n)
    nd = float(np.linalg.norm(d))
    return d / nd if nd > 0 else np.ones(n) / math.sqrt(n)


def gen_problem(rng):
    n = int(rng.integers(1, 5))
    m = int(rng.integers(1, 6))
    A = rng.normal(size=(m, n))
    b = rng.normal(size=m)
    kind = int(rng.integers(0, 3))
    z = rng.normal(size=n)                       # common interior point of all sets
    nsets = int(rng.integers(1, 4))
    specs = []
    for _ in range(nsets):
        k = "SHB"[int(rng.integers(0, 3))]
        margin = float(10 ** rng.uniform(-1.5, 0))
        if k == "S":
            r = max(float(10 ** rng.uniform(-0.3, 0.7)), 2 * margin)
            specs.append(("S", z + unit(rng, n) * (r - margin), r))
        elif k == "H":
            a = unit(rng, n) * float(10 ** rng.uniform(-0.5, 0.5))
            if n >= 2 and rng.random() < 0.35:
                # ordering constraint x_i <= x_j + c (normal e_i - e_j: components sum to zero) or one coordinate
                a = np.zeros(n)
                i, j = rng.choice(n, size=2, replace=False)
                a[i] = 1.0
                if rng.random() < 0.7:
                    a[j] = -1.0
                a *= float(rng.choice([1.0, -1.0, 0.5, 2.0]))
            specs.append(("H", a, float(np.dot(a, z)) + margin * float(np.linalg.norm(a))))
        else:
            specs.append(("B", z - margin * rng.uniform(1, 3, size=n), z + margin * rng.uniform(1, 3, size=n)))
    bounds = None
    u = rng.random()
    if u < 0.5:
        w = float(10 ** rng.uniform(-0.5, 0.7))
        lo = z - w * rng.uniform(0.5, 2, size=n)
        hi = z + w * rng.uniform(0.5, 2, size=n)
        v = rng.random()
        if v < 0.15:
            bounds = (lo, None)
        elif v < 0.3:
            bounds = (None, hi)
        else:
            bounds = (lo, hi)
    u = rng.random()
    if u < 0.45:
        x0kind = "feasible"
        x0 = z + unit(rng, n) * 0.02 * rng.random()
    elif u < 0.55:
        x0kind = "center"
        x0 = z.copy()
    else:
        x0kind = "infeasible"
        x0 = z + unit(rng, n) * float(10 ** rng.uniform(0, 1.5))
    params = {}
    u = rng.random()
    restarts = "off"
    if u < 0.3:
        restarts = "soft"
        params["restarts.use_restarts"] = True
        params["restarts.use_soft_restarts"] = True
    elif u < 0.55:
        restarts = "hard"
        params["restarts.use_restarts"] = True
        params["restarts.use_soft_restarts"] = False
    if rng.random() < 0.2:
        # extra regression steps after successful iterations (geometry steps, or random 'momentum' steps):
        # further sites that evaluate points and must route them through the projection
        params["regression.num_extra_steps"] = int(rng.integers(1, 3))
        if rng.random() < 0.6:
            params["regression.momentum_extra_steps"] = True
    if restarts == "soft" and rng.random() < 0.3:
        params["restarts.increase_npt"] = True
        params["restarts.max_npt"] = n + 1 + int(rng.integers(1, 3))
    if rng.random() < 0.2:
        # random initial directions (documented), alone or with the growing phase / the parallel initialisation: further
        # sites that evaluate points (with projections a growing set REQUIRES random directions)
        params["init.random_initial_directions"] = True
        v = rng.random()
        if v < 0.4 and n >= 2:
            params["growing.ndirs_initial"] = int(rng.integers(1, n))
            if rng.random() < 0.6:
                params["growing.num_new_dirns_each_iter"] = int(rng.integers(1, 3))
        elif v < 0.7:
            params["init.run_in_parallel"] = True
    family = None
    if n >= 2 and rng.random() < 0.15:
        # growing phase under projections (needs random directions), with perturbed trust-region steps and hard restarts that
        # re-evaluate the best point (`use_old_rk` off): stored interpolation points are kept UNPROJECTED and every use of one as
        # an evaluation point or as the returned x goes through Model.xpt / as_absolute_coordinates (seeded C09_9, C03_10)
        family = "growing-hard"
        params["init.random_initial_directions"] = True
        params.pop("init.run_in_parallel", None)
        params["growing.ndirs_initial"] = int(rng.integers(1, n))
        params["growing.num_new_dirns_each_iter"] = int(rng.integers(0, 3))
        if rng.random() < 0.6:
            params["growing.perturb_trust_region_step"] = True
            params["growing.full_rank.use_full_rank_interp"] = False
        for k in ("regression.num_extra_steps", "regression.momentum_extra_steps", "restarts.increase_npt", "restarts.max_npt"):
            params.pop(k, None)
        if rng.random() < 0.7:
            restarts = "hard"
            params["restarts.use_restarts"] = True
            params["restarts.use_soft_restarts"] = False
            params["restarts.hard.use_old_rk"] = False
    if rng.random() < 0.3:
        params["dykstra.d_tol"] = float([1e-6, 1e-8, 1e-12][int(rng.integers(0, 3))])
    if rng.random() < 0.2:
        params["dykstra.max_iters"] = int([1, 3, 20, 1000][int(rng.integers(0, 4))])
    return {"n": n, "m": m, "A": A, "b": b, "kind": kind, "specs": specs, "bounds": bounds, "x0": x0, "x0kind": x0kind,
            "maxfun": int(rng.integers(2, 61)) if family is None else int(rng.integers(20, 81)),
            "rhoend": float([1e-8, 1e-3, 1e-2][int(rng.integers(0, 3))]) if family is None else 1e-2,
            "rhobeg": float([0.1, 0.5, 1.0][int(rng.integers(0, 3))]),
            "nsamples": int(1 if rng.random() < 0.8 else 2), "params": params, "restarts": restarts,
            "np_seed": int(rng.integers(0, 2 ** 31 - 1))}


def prob_json(pb):
    bj = None
    if pb["bounds"] is not None:
        bj = [None if v is None else [float(t) for t in v] for v in pb["bounds"]]
    return {"n": pb["n"], "m": pb["m"], "A": pb["A"].tolist(), "b": pb["b"].tolist(), "kind": pb["kind"],
            "specs": [dc.spec_json(s) for s in pb["specs"]], "bounds": bj, "x0": pb["x0"].tolist(), "x0kind": pb["x0kind"],
            "maxfun": pb["maxfun"], "rhoend": pb["rhoend"], "rhobeg": pb["rhobeg"], "nsamples": pb["nsamples"],
            "params": pb["params"], "restarts": pb["restarts"], "np_seed": pb["np_seed"]}


def prob_from_json(j):
    pb = dict(j)
    pb["A"] = np.array(j["A"], dtype=float).reshape(j["m"], j["n"])
    pb["b"] = np.array(j["b"], dtype=float)
    pb["specs"] = [dc.spec_from_json(s) for s in j["specs"]]
    pb["bounds"] = None if j["bounds"] is None else tuple(None if v is None else np.array(v, dtype=float) for v in j["bounds"])
    pb["x0"] = np.array(j["x0"], dtype=float)
    return pb


def objective(pb):
    A, b, kind = pb["A"], pb["b"], pb["kind"]

    def f(x):
        r = A @ x - b
        if kind == 1:
            r = r + 0.3 * np.sin(3 * x).sum()
        elif kind == 2:
            r = r + 0.1 * (x ** 2).sum()
        return r
    return f


# ------------------------------------------------------------------------------------------------
# traced run
# ------------------------------------------------------------------------------------------------
class Trace:
    def __init__(self):
        self.events = []        # ("s", x) | ("d", Rec) | ("e", x)
        self.status = "ok"
        self.error = None
        self.light = 0          # dykstra calls (never box-last) passed through without recording


def traced_run(dfols, pb, alarm=20):
    import importlib
    mods = [importlib.import_module(m) for m in PATCH_MODULES]
    real = importlib.import_module("dfols.util").dykstra
    tr = Trace()

    user_P = [dc.make_proj(dfols, s) for s in pb["specs"]]
    tr.user_P = user_P
    state = {"bproj": None, "first": True, "k": 0}

    def dyk(P, x0, max_iter=100, tol=1e-10):
        P = list(P)
        if state["first"]:
            # solver.py:1094 — the projector list is the user's plus solve()'s box (checked again in analyse)
            state["first"] = False
            if len(P) == len(user_P) + 1:
                state["bproj"] = P[-1]
            full = True
        else:
            state["k"] += 1
            # every box-last call is recorded in full; of the others (trust-region sub-problems,
            # ball projected last) every 40th — they are never evaluated, they only feed the call correspondence
            full = (P[-1] is state["bproj"]) or state["k"] % 40 == 0
        if full:
            rec = dc.record_call(real, P, x0, max_iter=max_iter, tol=tol)
            tr.events.append(("d", rec))
            return rec.x.copy()
        x = real(P, x0, max_iter=max_iter, tol=tol)
        tr.light += 1
        return x

    f0 = objective(pb)

    def f(x):
        tr.events.append(("e", np.array(x, dtype=float, copy=True)))
        return f0(x)

    saved = []
    for m in mods:
        if hasattr(m, "dykstra"):
            saved.append((m, m.dykstra))
            m.dykstra = dyk
    tr.patched = [m.__name__ for m, _ in saved]
    x0 = pb["x0"].copy()
    tr.events.append(("s", x0.astype(float).copy()))
    st = np.random.get_state()
    np.random.seed(pb["np_seed"])
    try:
        kw = {}
        if pb["nsamples"] > 1:
            kw["nsamples"] = lambda delta, rho, it, nruns: pb["nsamples"]
        soln = core.with_alarm(alarm, dfols.solve, f, x0, bounds=pb["bounds"], projections=user_P, maxfun=pb["maxfun"],
                               rhobeg=pb["rhobeg"], rhoend=pb["rhoend"], user_params=dict(pb["params"]), do_logging=False, **kw)
        tr.flag = soln.flag
    except core.Alarm:
        tr.status = "timeout"
    except RuntimeError as e:
        tr.status = "initdirs" if "initial directions" in str(e) else "raised"
        tr.error = repr(e)
    except Exception as e:
        tr.status = "raised"
        tr.error = repr(e)
    finally:
        for m, old in saved:
            m.dykstra = old
        np.random.set_state(st)
    return tr


def user_bounds(pb):
    n = pb["n"]
    xl = -1e20 * np.ones(n)
    xu = 1e20 * np.ones(n)
    if pb["bounds"] is not None:
        if pb["bounds"][0] is not None:
            xl = pb["bounds"][0].astype(float)
        if pb["bounds"][1] is not None:
            xu = pb["bounds"][1].astype(float)
    return xl, xu


def analyse(pb, tr):
    """the property on one recorded run.  returns (failures [(sig, what)], info, annotated events)"""
    fails = []
    info = {"evals": 0, "dyk_calls": 0, "dyk_calls_unrecorded_ball_last": tr.light, "box_last_calls": 0, "evals_checked_bound": 0, "evals_from_capped_call": 0,
            "evals_repeat_first": 0, "x0_replaced": False, "max_dist_over_bound": 0.0}
    xl, xu = user_bounds(pb)
    boxspec = ("B", xl, xu)
    allspecs = list(pb["specs"]) + [boxspec]
    dyks = [e[1] for e in tr.events if e[0] == "d"]
    info["dyk_calls"] = len(dyks)
    ann = []            # events for the Lean acceptor: ("s", x) | ("d", boxlast, x) | ("e", x)
    if not dyks:
        if any(e[0] == "e" for e in tr.events):
            fails.append(("C09:x0-not-projected", "objective evaluated but dykstra never called"))
        return fails, info, [("s", tr.events[0][1])] + [("e", e[1]) for e in tr.events if e[0] == "e"]
    first = dyks[0]
    # solve() appends its box projector last (solver.py:979-984); identify it from the first call (solver.py:1094)
    ok_first = (len(first.P) == len(tr.user_P) + 1 and all(a is b for a, b in zip(first.P[:-1], tr.user_P)))
    if not ok_first:
        fails.append(("C09:box-not-appended-last", "first dykstra call has %d projectors for %d user sets" % (len(first.P), len(tr.user_P))))
        return fails, info, ann
    bproj = first.P[-1]
    x0_user = tr.events[0][1]
    outs = {}           # bytes -> most recent box-last Rec
    first_eval = None
    for ev in tr.events:
        if ev[0] == "s":
            ann.append(("s", ev[1]))
        elif ev[0] == "d":
            rec = ev[1]
            boxlast = rec.P[-1] is bproj
            if boxlast:
                info["box_last_calls"] += 1
                # the box projector acts as clip(., xl, xu) bit for bit
                for (i, a, o) in rec.calls:
                    if i == rec.p - 1 and o.tobytes() != np.minimum(np.maximum(a, xl), xu).tobytes():
                        fails.append(("C09:box-projector-is-not-the-bounds", "solve()'s box projector returned %r for %r" % (o.tolist(), a.tolist())))
                        break
                if rec.P[:-1] != tr.user_P:
                    fails.append(("C09:projector-list-changed", "a box-last dykstra call does not use the user's projector list"))
                outs[rec.x.tobytes()] = rec
            ann.append(("d", boxlast, rec.x))
        else:
            x = ev[1]
            info["evals"] += 1
            ann.append(("e", x))
            if first_eval is None:
                first_eval = x
                xp = first.x
                # repaired solve(): x0 is ALWAYS replaced by its projection (np.allclose only decides the warning)
                close = False
                want = xp
                info["x0_replaced"] = not close
                if x.tobytes() != want.tobytes():
                    fails.append(("C09:x0-not-projected", "first evaluation at %r, expected %s %r"
                                  % (x.tolist(), "x0" if close else "the projection of x0", want.tolist())))
                if not close:
                    rec = first
                else:
                    continue
            else:
                if x.tobytes() == first_eval.tobytes() and x.tobytes() not in outs:
                    info["evals_repeat_first"] += 1
                    continue
                rec = outs.get(x.tobytes())
                if rec is None:
                    fails.append(("C09:eval-not-dykstra-output", "evaluation %d at %r is not the output of an earlier box-last dykstra call"
                                  % (info["evals"], x.tolist())))
                    continue
            # the point is the output `rec.x` of a box-last call
            if rec.max_iter >= 1 and not dc.in_box_exact(boxspec, x):
                fails.append(("C09:box-exact", "evaluation %d at %r violates the bounds [%r, %r]" % (info["evals"], x.tolist(), xl.tolist(), xu.tolist())))
            if rec.stopped:
                info["evals_checked_bound"] += 1
                bound = math.sqrt(rec.p * rec.tol) * (1 + 1e-9) + 1e-15
                for i, s in enumerate(allspecs):
                    d = dc.dist_to_set(s, x)
                    info["max_dist_over_bound"] = max(info["max_dist_over_bound"], d / bound)
                    if not d <= bound:
                        fails.append(("C09:feasibility-bound", "evaluation %d: dykstra stopped by rule (tol=%.1e, p=%d) but dist to set %d (%s) = %.6e > %.6e"
                                      % (info["evals"], rec.tol, rec.p, i, s[0], d, bound)))
                        break
            else:
                info["evals_from_capped_call"] += 1
    return fails, info, ann


def trace_line(n, ann):
    toks = ["ptrace", str(n), str(len(ann))]
    for e in ann:
        if e[0] == "d":
            toks += ["d", "1" if e[1] else "0"] + [core.fbits_raw(v) for v in e[2]]
        else:
            toks += [e[0]] + [core.fbits_raw(v) for v in e[1]]
    return " ".join(toks)


def run_suite(ctx, nruns, suite, with_lean):
    dfols = core.import_dfols()
    alarm = ctx.scale(5, 20)      # slow runs are cut; the recorded prefix is still a prefix of a real run and is checked
    stats = {"runs": 0, "ok": 0, "skipped_initdirs_RuntimeError": 0, "timeouts": 0, "alarm_s": alarm, "raised_other": 0, "evals": 0, "dyk_calls": 0, "dyk_calls_unrecorded_ball_last": 0,
             "box_last_calls": 0, "evals_checked_bound": 0, "evals_from_capped_call": 0, "evals_repeat_first": 0,
             "x0_replaced": 0, "max_dist_over_bound": 0.0, "by_restarts": {}, "by_x0": {}, "with_bounds": 0, "flags": {},
             "other_errors": []}
    lines, owner = [], []
    results = []
    for i in range(nruns):
        rng = np.random.default_rng([ctx.seed, suite, i])
        pb = gen_problem(rng)
        tr = traced_run(dfols, pb, alarm=alarm)
        stats["runs"] += 1
        if i == 0:
            stats["patched_modules"] = tr.patched
        if tr.status == "initdirs":
            stats["skipped_initdirs_RuntimeError"] += 1
        elif tr.status == "timeout":
            stats["timeouts"] += 1
        elif tr.status == "raised":
            stats["raised_other"] += 1
            if len(stats["other_errors"]) < 3:
                stats["other_errors"].append(tr.error)
        else:
            stats["ok"] += 1
            stats["flags"][str(tr.flag)] = stats["flags"].get(str(tr.flag), 0) + 1
        # whatever happened, the events recorded up to that moment are a prefix of a run: the property applies to them
        fails, info, ann = analyse(pb, tr)
        for k in ["evals", "dyk_calls", "dyk_calls_unrecorded_ball_last", "box_last_calls", "evals_checked_bound", "evals_from_capped_call", "evals_repeat_first"]:
            stats[k] += info[k]
        stats["x0_replaced"] += bool(info["x0_replaced"])
        stats["max_dist_over_bound"] = max(stats["max_dist_over_bound"], info["max_dist_over_bound"])
        stats["by_restarts"][pb["restarts"]] = stats["by_restarts"].get(pb["restarts"], 0) + 1
        stats["by_x0"][pb["x0kind"]] = stats["by_x0"].get(pb["x0kind"], 0) + 1
        stats["with_bounds"] += pb["bounds"] is not None
        ctx.seen(("c09", suite, i, info["evals"], info["dyk_calls"]))
        results.append((i, pb, tr, fails, info))
        if with_lean and ann:
            lines.append(trace_line(pb["n"], ann))
            owner.append((len(results) - 1, "trace", None))
            # dykstra calls replayed in Lean (oracle mode): all calls whose output was evaluated, the x0 call, some others
            evald = set(e[1].tobytes() for e in ann if e[0] == "e")
            recs = [e[1] for e in tr.events if e[0] == "d"]
            chosen = [r for k, r in enumerate(recs) if k == 0 or r.x.tobytes() in evald]
            others = [r for r in recs if r.x.tobytes() not in evald]
            if others:
                idx = rng.choice(len(others), size=min(6, len(others)), replace=False)
                chosen += [others[int(k)] for k in idx]
            for r in chosen[:40]:
                if r.consistent and len(r.calls) <= 600:
                    lines.append(dc.line_oracle(r, pb["n"]))
                    owner.append((len(results) - 1, "call", r))
    return stats, results, lines, owner


def correspondence(ctx):
    nruns = ctx.scale(35, 150)
    stats, results, lines, owner = run_suite(ctx, nruns, 9, with_lean=True)
    replies = []
    for a in range(0, len(lines), 2000):
        replies += core.run_driver(lines[a:a + 2000], main=dc.MAIN)
    st = {"trace_lines": 0, "trace_accepted": 0, "call_lines": 0, "call_near_tie_skips": 0, "call_mismatches": 0,
          "trace_disagreements": 0, "max_rel_cI_dev": 0.0}
    nb = 0
    for (k, kind, rec), rep in zip(owner, replies):
        i, pb, tr, fails, info = results[k]
        if kind == "trace":
            st["trace_lines"] += 1
            py_ok = not any(s in ("C09:x0-not-projected", "C09:eval-not-dykstra-output", "C09:box-not-appended-last") for s, _ in fails)
            lean_ok = rep == "ok"
            st["trace_accepted"] += lean_ok
            if not lean_ok or not py_ok:
                st["trace_disagreements"] += 1
                ctx.broke("correspondence:trace-accept", {"run": [ctx.seed, 9, i], "lean": rep, "python_failures": fails[:3],
                                                         "problem": prob_json(pb)})
        else:
            st["call_lines"] += 1
            if dc.near_tie(rec, 1e-9):
                st["call_near_tie_skips"] += 1
                continue
            got = dc.parse_reply(rep)
            ok = got is not None
            if ok:
                sweeps, stopped, cI, xs = got
                real_cI = rec.cI_hist[-1] if rec.cI_hist else None
                ok = sweeps == rec.sweeps and stopped == rec.stopped and dc.vec_bits_equal(rec.x, xs) and ((cI is None) == (real_cI is None))
                if ok and cI is not None and cI != real_cI:
                    dev = abs(cI - real_cI) / max(real_cI, 1e-300)
                    st["max_rel_cI_dev"] = max(st["max_rel_cI_dev"], dev)
                    ok = dev <= 1e-12 or abs(cI - real_cI) <= 1e-300
            if not ok:
                st["call_mismatches"] += 1
                nb += 1
                if nb <= 5:
                    ctx.broke("correspondence:dykstra-oracle-mode", {"run": [ctx.seed, 9, i], "lean": rep[:300],
                                                                    "real": {"sweeps": rec.sweeps, "stopped": rec.stopped, "x": rec.x.tolist(),
                                                                             "max_iter": rec.max_iter, "tol": rec.tol, "p": rec.p}})
    stats.update(st)
    ctx.cov["correspondence_runs"] = stats
    for (i, pb, tr, fails, info) in results[:2]:
        ctx.add_sample({"kind": "traced solve", "n": pb["n"], "sets": [s[0] for s in pb["specs"]], "bounds": pb["bounds"] is not None,
                        "x0": pb["x0kind"], "restarts": pb["restarts"], "maxfun": pb["maxfun"], "status": tr.status,
                        "evals": info["evals"], "dykstra_calls": info["dyk_calls"], "box_last_calls": info["box_last_calls"]})
    # failures seen here are reported by the search as well (same oracle); record them so that nothing is lost
    for (i, pb, tr, fails, info) in results:
        for sig, what in fails[:1]:
            ctx.fail(sig, what, {"problem": prob_json(pb), "seed": [ctx.seed, 9, i]})


def search(ctx):
    nruns = ctx.scale(45, 450) * getattr(ctx, "boost", 1)
    stats, results, _l, _o = run_suite(ctx, nruns, 909, with_lean=False)
    seen = {}
    for (i, pb, tr, fails, info) in results:
        for sig, what in fails:
            seen[sig] = seen.get(sig, 0) + 1
            if seen[sig] <= 2:
                ctx.fail(sig, what, {"problem": prob_json(pb), "seed": [ctx.seed, 909, i]})
    stats["failures_by_signature"] = seen
    ctx.cov["search_runs"] = stats


def replay(payload):
    dfols = core.import_dfols()
    rp = payload.get("replay", {})
    if "problem" not in rp:
        print("replay file names a broken obligation, nothing to execute:", payload.get("broken"))
        return 1
    pb = prob_from_json(rp["problem"])
    tr = traced_run(dfols, pb)
    fails, info, _ann = analyse(pb, tr)
    sig = payload.get("signature")
    hit = [f for f in fails if sig is None or f[0] == sig]
    if not hit:
        print("replay: property holds on this input now (status %s, %d evaluations)" % (tr.status, info["evals"]))
        return 0
    for s, w in hit[:3]:
        print("replay: still fails:", s, w)
    return 1
