"""C08 — Bad objective values at any evaluation are survived gracefully.

Fault enumeration on the real code: reference run, then for every evaluation index k = 1..nf (quick: a sample of
them, thorough: all) and every fault kind {NaN, +inf, -inf, 1e200, raise} a faulted run; plus k = 0 (every
evaluation bad). Correspondence: the faulted traces must be accepted by the Lean acceptors (CountAcc, BookAcc).
"""
import traceback
import numpy as np
import core
import solve_suite as ss
import solve_oracles as so
import problems
import trace as tr

MODULE = "DfolsVerif.Properties.C08"
BUILD_TARGETS = ss.ACCEPT_TARGETS
def pre_build(ctx):
    import gen_trysites
    gen_trysites.regenerate(ctx)
    import gen_exitsites
    ctx.cov["exit_creation_sites_in_repo"] = gen_exitsites.regenerate(ctx)


THEOREMS = [
    "Dfols.C08.C08_src_fault_exits","Dfols.C08.C08_finite_kept", "Dfols.C08.C08_budget", "Dfols.C08.C08_exception", "Dfols.C08.C08_returned_x_evaluated", "Dfols.C08.C08_src_no_handler_around_objfun"]
LEVEL = "proof"
TRUSTED_EXTRA = [
    "that the numerics after a fault never raise (LAPACK / NumPy errors on non-finite data) is NOT a theorem: fault enumeration on the real code",
    "C08_finite_kept is for runs without averaging and without a regulariser; with averaging the search checks finiteness only",
]
KINDS = ["nan", "inf", "-inf", "huge", "raise", "raise-linalg", "raise-value", "raise-overflow"]
ALLOW = ("bounds", "proj", "avg", "soft", "hard", "npt", "diag", "growing", "scaling", "regu")


def raise_site(exc):
    tb = traceback.extract_tb(exc.__traceback__)
    for fr in reversed(tb):
        if "/dfols/" in fr.filename:
            return "%s:%s" % (fr.filename.split("/")[-1], fr.name)
    return "outside-dfols"


def check_faulted(t, d, kw, k, kind, ref_calls):
    """returns list of (signature, what)"""
    out = []
    ctxt = "%s|%s" % (kind, so.context_tags(t, d))
    if kind.startswith("raise"):
        exc = t.exception
        ncalls = len(t.calls)
        raised = getattr(t, "injected_exc", None)
        if k != 0 and raised is not None:
            if exc is None or exc is not raised:
                out.append(("C08:exception-not-propagated|" + ctxt, "fault '%s' at call %d: solve returned/raised %r instead of propagating the objective's exception unchanged" % (kind, k, exc)))
            elif ncalls != k:
                out.append(("C08:evaluations-after-exception|" + ctxt, "objfun raised at call %d but %d calls were made" % (k, ncalls)))
        return out
    if isinstance(t.exception, core.Alarm):
        out.append(("C08:does-not-terminate|" + ctxt, "fault %s at call %d: no termination within %d s of CPU time" % (kind, k, ss.SLOW_LIMIT)))
        return out
    if t.exception is not None:
        site = raise_site(t.exception)
        out.append(("C08:raises:%s:%s|%s" % (type(t.exception).__name__, site, kind),
                    "fault %s at call %d: solve raised %s: %s (at %s)" % (kind, k, type(t.exception).__name__, str(t.exception)[:80], site)))
        return out
    r = t.result
    if r is None or r.x is None:
        return out
    # bounds and budget
    b = kw.get("bounds")
    if b is not None:
        for v in so.c01(t, b[0], b[1]):
            out.append(("C08:bounds|" + ctxt, "bound violated: %s" % (v,)))
    for sig, what in so.c02(t, d, kw["maxfun"]):
        out.append(("C08:" + sig, what))
    # finite x that was evaluated
    if not np.all(np.isfinite(np.asarray(r.x, dtype=float))):
        out.append(("C08:nonfinite-x|" + ctxt, "soln.x=%s" % (r.x,)))
    for sig, what in so.c03(t, d, h=kw.get("h")):
        out.append(("C08:" + sig, what))
    # a bad value never displaces a finite best point found earlier
    finite_before = [c["v"] for c in t.calls[:max(k - 1, 0)] if c["r"] is not None and np.isfinite(c["v"])] if k > 0 else []
    if finite_before:
        obj = float(r.obj)
        # with averaging: evaluation POINTS completed before the fault, and their (finite) mean objectives
        pts = {}
        for e in t.events:
            if e[0] == "obj":
                pts.setdefault(e[3], []).append(e[1])
        complete_finite = []
        for ptno, idx in pts.items():
            if max(idx) < k:
                rs = [t.calls[i - 1]["r"] for i in idx if t.calls[i - 1]["r"] is not None]
                if rs:
                    m = np.mean(np.array(rs), axis=0)
                    vm = float(np.dot(m, m))
                    if kw.get("h") is not None:
                        vm += float(kw["h"](t.calls[idx[0] - 1]["x"]))      # the objective is sum(r^2) + h(x)
                    if np.isfinite(vm):
                        complete_finite.append(vm)
        if not np.isfinite(obj):
            if complete_finite:
                out.append(("C08:finite-best-displaced|" + ctxt, "fault %s at call %d: obj=%r although %d evaluation points with finite objective were completed before" % (kind, k, obj, len(complete_finite))))
            else:
                out.append(("C08:fault-in-averaged-point:no-other-finite-point|" + kind, "fault %s at call %d hit one sample of the only point evaluated so far: its mean (and soln.obj=%r) is non-finite although an earlier sample of the same point was finite" % (kind, k, obj)))
        elif not d.get("avg") and obj > min(finite_before):
            out.append(("C08:finite-best-lost|" + ctxt, "fault %s at call %d: obj=%r > best earlier finite value %r" % (kind, k, obj, min(finite_before))))
    return out


def _enumerate(ctx):
    if hasattr(ctx, "_c08"):
        return ctx._c08
    dfols = core.import_dfols()
    nprob = ctx.scale(30, 150) * getattr(ctx, "boost", 1)
    per_prob = ctx.scale(7, 10 ** 6)
    runs, metas, results = [], [], []
    stats = {"reference_runs": 0, "faulted_runs": 0, "by_kind": {}, "exceptions": {}, "flags": {}}
    for i in range(nprob):
        seed = [ctx.seed, 808, i]
        rng = np.random.default_rng(seed)
        prob = problems.rand_problem(rng)
        kw, d = problems.rand_config(rng, prob, allow=ALLOW)
        if rng.random() < 0.15:
            # documented option: more extra regression steps than there are interpolation points (a fault at one of those
            # evaluations must not displace the incumbent, whose row is the one place an extra step may never use)
            up = dict(kw.get("user_params") or {})
            up["regression.num_extra_steps"] = int(kw.get("npt", prob["n"] + 1) + rng.integers(0, 3))
            kw["user_params"] = up
            d["user_params"] = up
            d["extra_steps_ge_npt"] = up["regression.num_extra_steps"]
        kw["maxfun"] = min(kw["maxfun"], 40)
        d["maxfun"] = kw["maxfun"]
        np.random.seed((ctx.seed * 7919 + 808 + i) % (2 ** 32))
        ref = tr.traced_solve(dfols, prob["f"], prob["x0"], alarm=10, **kw)
        stats["reference_runs"] += 1
        if ref.exception is not None:
            continue
        nf = len(ref.calls)
        ks = list(range(0, nf + 1))
        if len(ks) > per_prob:
            pick = rng.choice(ks[1:], size=per_prob - 2, replace=False).tolist()
            ks = sorted(set([0, 1] + pick + [nf]))
        for k in ks:
            for kind in KINDS:
                if k == 0 and kind.startswith("raise"):
                    continue
                f = problems.faulty(prob["f"], k, kind)
                np.random.seed((ctx.seed * 7919 + 808 + i) % (2 ** 32))
                t = tr.traced_solve(dfols, f, prob["x0"], alarm=10, **kw)
                if isinstance(t.exception, core.Alarm) and ss.SLOW_STATS["confirmed_hangs"] < 2:
                    # a time limit is not a termination oracle (see solve_suite.SLOW_LIMIT): repeat with the long limit first
                    ss.SLOW_STATS["repeated_with_long_limit"] += 1
                    f = problems.faulty(prob["f"], k, kind)
                    np.random.seed((ctx.seed * 7919 + 808 + i) % (2 ** 32))
                    t = tr.traced_solve(dfols, f, prob["x0"], alarm=ss.SLOW_LIMIT, **kw)
                    if isinstance(t.exception, core.Alarm):
                        ss.SLOW_STATS["confirmed_hangs"] += 1
                t.injected_exc = f.state.get("exc")
                stats["faulted_runs"] += 1
                stats["by_kind"][kind] = stats["by_kind"].get(kind, 0) + 1
                ctx.seen(("c08", i, k, kind))
                if t.exception is not None and not isinstance(t.exception, core.Alarm):
                    n = type(t.exception).__name__ + ("(injected)" if t.exception is t.injected_exc else "")
                    stats["exceptions"][n] = stats["exceptions"].get(n, 0) + 1
                elif t.result is not None:
                    fl = so.exit_route(t)
                    stats["flags"][fl] = stats["flags"].get(fl, 0) + 1
                d2 = dict(d)
                d2["fault"] = [k, kind]
                res = check_faulted(t, d2, kw, k, kind, nf)
                results.append((seed, k, kind, d2, res))
                up = kw.get("user_params", {}) or {}
                runs.append((kw["maxfun"], False, t, int(up.get("restarts.max_unsuccessful_restarts", 10)), float(up.get("model.abs_tol", 1e-12))))
                metas.append((seed + [k, KINDS.index(kind)], prob, kw, d2, t, (k, kind)))
        if i == 0:
            ctx.add_sample({"config": ss.describe(d), "reference_nf": nf, "fault_indices": ks, "kinds": KINDS})
    ctx._c08 = (runs, metas, results, stats)
    return ctx._c08


def correspondence(ctx):
    runs, metas, results, stats = _enumerate(ctx)
    ss.check_acceptor(ctx, "count", runs, metas)
    ss.check_acceptor(ctx, "book", runs, metas)
    stats["slow_runs"] = dict(ss.SLOW_STATS)
    ctx.cov["fault_enumeration"] = stats


def search(ctx):
    if getattr(ctx, "boost", 1) > 1 and hasattr(ctx, "_c08"):
        del ctx._c08
    runs, metas, results, stats = _enumerate(ctx)
    for seed, k, kind, d, res in results:
        for sig, what in res:
            ctx.fail(sig, what, {"seed": seed, "k": k, "kind": kind, "config": ss.describe(d)})


def replay(payload):
    dfols = core.import_dfols()
    rp = payload.get("replay", {})
    if "seed" not in rp:
        print("replay names a broken obligation:", payload.get("broken"))
        return 1
    rng = np.random.default_rng(rp["seed"])
    prob = problems.rand_problem(rng)
    kw, d = problems.rand_config(rng, prob, allow=ALLOW)
    kw["maxfun"] = min(kw["maxfun"], 40)
    ref = tr.traced_solve(dfols, prob["f"], prob["x0"], alarm=10, **kw)
    f = problems.faulty(prob["f"], rp["k"], rp["kind"])
    t = tr.traced_solve(dfols, f, prob["x0"], alarm=10, **kw)
    t.injected_exc = f.state.get("exc")
    res = check_faulted(t, d, kw, rp["k"], rp["kind"], len(ref.calls))
    print("replay:", res if res else "property holds on this input now")
    return 1 if res else 0
