"""C20 — Results survive a JSON round trip and always print.

Correspondence: the real `OptimResults.to_dict -> json.dumps -> json.loads -> from_dict` (and `str`) against the
Lean model `toDict / isStrict / strKeys / fromDict / strLines` (lean/DfolsVerif/Book/Json.lean, driver
lean/JsonMain.lean) on (a) results of real `dfols.solve` runs over many exits/options/sizes and (b) synthetic
`OptimResults` with NaN / None / +-inf fields; five renderings are diffed per case and per `replace_nan` value:
the dict, strictness, the transported dict, the reloaded object, the printed lines of original and reload.

Search: the property stated directly on the real code (no model involved): plain data, strict JSON when
replace_nan=True, field-wise equality (NaN == NaN, None/NaN cells = one missing value), str equality.

Decision on the diagnostic table's row labels: JSON object keys are strings, so the reloaded DataFrame is
indexed "0","1",... where the solver's is indexed 0,1,...; columns, row order and every cell are reproduced.
The property asks for the *field* "diagnostic table" to be reproduced through `json.dumps`; labels are compared
after `str()` (a lost / reordered / merged label IS reported, `C20:diag-index-lost`); the dtype change of the
index is counted in the evidence (`diag_index_labels_stringified`) and not reported as a failure. Set
STRICT_INDEX = True to report it under `C20:diag-index-strings`.
"""
import json
import logging
import math

import numpy as np

import core
from core import f2bits, bits2f

MODULE = "DfolsVerif.Properties.C20"
BUILD_TARGETS = ["DfolsVerif.Driver.JsonDrv"]    # what lean/JsonMain.lean imports
def pre_build(ctx):
    import gen_json
    gen_json.regenerate(ctx)


THEOREMS = [
    "Dfols.C20.C20_src_keys",
    "Dfols.C20.C20_src_roundtrip_wiring",
    "Dfols.C20.C20_roundtrip",
    "Dfols.C20.C20_roundtrip_lenient_total",
    "Dfols.C20.C20_strict",
    "Dfols.C20.C20_strict_any",
    "Dfols.C20.C20_inf_partial",
    "Dfols.C20.C20_inf_counterexample",
    "Dfols.C20.C20_none_to_nan",
    "Dfols.C20.C20_str",
    "Dfols.C20.C20_old_obj_none",
]
TRUSTED_EXTRA = [
    "modelled, not verified: the text form of JSON (json.dumps/json.loads are the identity on plain data except that "
    "int dict keys come back as str; repr of a finite double reads back as the same double; allow_nan=False rejects "
    "exactly NaN/+-inf) - compared on every case by the correspondence (renderings d/strict/t)",
    "modelled, not verified: ndarray.tolist(), float(), int(), str() of single values; pandas DataFrame.to_dict() / "
    "DataFrame.from_dict beyond 'column -> {row label -> cell}' (dtype inference, None vs NaN as the one missing value)",
    "str() equality is reduced to equality of the printed lines with their field payloads (Lean `strLines`); NumPy array "
    "printing and %-formatting of single values are functions of those payloads (trusted); the search compares the real strings",
    "all NaNs are one value (payload bits of a NaN are not compared)",
    "diagnostic table: row labels are compared after str() (JSON object keys are strings); the index dtype change "
    "int -> str is stated in the theorem (Table.norm) and counted in the evidence, not reported as a failure",
]

EXPLANATION = (
    "Theorems over every record r (any sizes, NaN/inf patterns, optional Jacobian/labels/table): fromDict(dumpsLoads(toDict b r)) agrees "
    "with r field by field and prints the same lines (C20_roundtrip, C20_str); replace_nan leaves no NaN in any value (C20_strict, "
    "C20_strict_any); None sits exactly at the NaN positions and is mapped back, obj included (C20_none_to_nan); json.dumps(allow_nan=False) "
    "succeeds iff no float is +-inf (C20_inf_partial; full-strength strictness is false: C20_inf_counterexample = known finding "
    "C20:inf-not-strict-json); the pinned loader leaves obj=None (C20_old_obj_none). The model is tied to the real "
    "to_dict/json/from_dict/__str__ by the correspondence on real solve results and synthetic objects; the search states the property "
    "directly on the real code.")

STRICT_INDEX = False
MAIN = "JsonMain.lean"
SOLVE_ALARM_S = 20


# ------------------------------------------------------------------------------------------------
# encodings shared by the protocol, the renderings and the replay files
# ------------------------------------------------------------------------------------------------
class Unencodable(Exception):
    pass


def fl_tok(x):
    x = float(x)
    if x != x:
        return "nan"
    if x == math.inf:
        return "inf"
    if x == -math.inf:
        return "-inf"
    return str(f2bits(x))


def tok_fl(t):
    if t == "nan":
        return math.nan
    if t == "inf":
        return math.inf
    if t == "-inf":
        return -math.inf
    return bits2f(int(t))


def hexs(s):
    try:
        return "h" + s.encode("utf-8").hex()
    except UnicodeEncodeError:
        raise Unencodable("string with lone surrogate")


def is_int(v):
    return isinstance(v, int) and not isinstance(v, bool)


def show_key(k):
    if is_int(k):
        return "i%d" % k
    if isinstance(k, str):
        return hexs(k)
    return "?" + type(k).__name__


def show_json(o):
    """canonical rendering of plain Python data (mirrors Lean `showJson`); anything else renders as ?type"""
    if o is None:
        return "N"
    if o is True:
        return "T"
    if o is False:
        return "F"
    if is_int(o):
        return "i%d" % o
    if isinstance(o, float):
        return "f" + fl_tok(o)
    if isinstance(o, str):
        return hexs(o)
    if isinstance(o, list):
        return "[" + ",".join(show_json(v) for v in o) + "]"
    if isinstance(o, dict):
        return "{" + ",".join(show_key(k) + ":" + show_json(v) for k, v in o.items()) + "}"
    return "?" + type(o).__name__


def first_nonplain(o, path=""):
    """(path, typename) of the first value that is not plain JSON-serialisable data, else None"""
    if o is None or isinstance(o, (bool, str)) or is_int(o) or type(o) is float or isinstance(o, float):
        return None
    if isinstance(o, list):
        for i, v in enumerate(o):
            b = first_nonplain(v, "%s/%d" % (path, i))
            if b:
                return b
        return None
    if isinstance(o, dict):
        for k, v in o.items():
            if not (isinstance(k, str) or is_int(k)):
                return ("%s/<key %r>" % (path, k), type(k).__name__)
            b = first_nonplain(v, "%s/%s" % (path, k))
            if b:
                return b
        return None
    return (path, type(o).__name__)


def nonfinite_kinds(o, acc=None):
    acc = set() if acc is None else acc
    if isinstance(o, float):
        if o != o:
            acc.add("nan")
        elif o in (math.inf, -math.inf):
            acc.add("inf")
    elif isinstance(o, list):
        for v in o:
            nonfinite_kinds(v, acc)
    elif isinstance(o, dict):
        for v in o.values():
            nonfinite_kinds(v, acc)
    return acc


def isna(c):
    return c is None or (isinstance(c, float) and c != c)


def show_cell(c):
    if isna(c):
        return "na"
    if isinstance(c, (bool, np.bool_)):
        return "?bool"
    if is_int(c) or isinstance(c, np.integer):
        return "i%d" % int(c)
    if isinstance(c, float):
        return "f" + fl_tok(c)
    if isinstance(c, str):
        return hexs(c)
    return "?" + type(c).__name__


def _vec(a):
    if not (isinstance(a, np.ndarray) and a.ndim == 1 and a.dtype == np.float64):
        return "?" + type(a).__name__
    return "[" + ",".join(fl_tok(v) for v in a.tolist()) + "]"


def _intlike(v):
    return "%d" % v if (is_int(v) or isinstance(v, np.integer)) else "?" + type(v).__name__


def show_rec(r):
    """canonical rendering of a real OptimResults object (mirrors Lean `showRec`)"""
    if r.obj is None:
        obj = "N"
    elif isinstance(r.obj, float):
        obj = fl_tok(r.obj)
    else:
        obj = "?" + type(r.obj).__name__
    if r.jacobian is None:
        jac = "-"
    elif isinstance(r.jacobian, np.ndarray) and r.jacobian.ndim == 2 and r.jacobian.dtype == np.float64:
        jac = "[" + ",".join("[" + ",".join(fl_tok(v) for v in row) + "]" for row in r.jacobian.tolist()) + "]"
    else:
        jac = "?" + type(r.jacobian).__name__
    if r.jacmin_eval_nums is None:
        en = "-"
    elif isinstance(r.jacmin_eval_nums, np.ndarray) and r.jacmin_eval_nums.ndim == 1 and r.jacmin_eval_nums.dtype.kind == "i":
        en = "[" + ",".join("%d" % v for v in r.jacmin_eval_nums.tolist()) + "]"
    else:
        en = "?" + type(r.jacmin_eval_nums).__name__
    if r.diagnostic_info is None:
        diag = "-"
    else:
        df = r.diagnostic_info
        labels = df.index.tolist()
        cols = []
        for j, name in enumerate(df.columns.tolist()):
            cells = df.iloc[:, j].tolist()
            cols.append(show_key(name) + ":{" + ",".join(show_key(k) + ":" + show_cell(c) for k, c in zip(labels, cells)) + "}")
        diag = "{" + ",".join(cols) + "}"
    return "x=%s;resid=%s;obj=%s;jac=%s;nf=%s;nx=%s;nruns=%s;flag=%s;msg=%s;xen=%s;en=%s;diag=%s" % (
        _vec(r.x), _vec(r.resid), obj, jac, _intlike(r.nf), _intlike(r.nx), _intlike(r.nruns), _intlike(r.flag),
        hexs(r.msg) if isinstance(r.msg, str) else "?" + type(r.msg).__name__, _intlike(r.xmin_eval_num), en, diag)


def encode_request(s, replace):
    """one protocol line for the Lean driver from a real OptimResults object (see JsonDrv.lean)"""
    def arr1(a):
        a = np.asarray(a)
        if a.ndim != 1 or a.dtype != np.float64:
            raise Unencodable("array %s %s" % (a.dtype, a.shape))
        return a.tolist()
    x, resid = arr1(s.x), arr1(s.resid)
    ts = ["j", "1" if replace else "0", "X", str(len(x))] + [fl_tok(v) for v in x]
    ts += ["R", str(len(resid))] + [fl_tok(v) for v in resid]
    ts += ["O", fl_tok(float(s.obj))]
    if s.jacobian is None:
        ts += ["J", "-"]
    else:
        J = np.asarray(s.jacobian)
        if J.ndim != 2 or J.dtype != np.float64:
            raise Unencodable("jacobian %s %s" % (J.dtype, J.shape))
        ts += ["J", str(J.shape[0]), str(J.shape[1])] + [fl_tok(v) for row in J.tolist() for v in row]
    ts += ["C"] + ["%d" % int(v) for v in (s.nf, s.nx, s.nruns, s.flag, s.xmin_eval_num)]
    ts += ["M", hexs(str(s.msg))]
    if s.jacmin_eval_nums is None:
        ts += ["E", "-"]
    else:
        en = np.asarray(s.jacmin_eval_nums)
        if en.ndim != 1 or en.dtype.kind != "i":
            raise Unencodable("jacmin_eval_nums %s %s" % (en.dtype, en.shape))
        ts += ["E", str(len(en))] + ["%d" % v for v in en.tolist()]
    if s.diagnostic_info is None:
        ts += ["D", "-"]
    else:
        df = s.diagnostic_info
        names = df.columns.tolist()
        if len(set(names)) != len(names):
            raise Unencodable("duplicate column names")
        labels = df.index.tolist()
        ts += ["D", str(len(names))]
        for j, name in enumerate(names):
            if not isinstance(name, str):
                raise Unencodable("column name %r" % (name,))
            ts += [hexs(name), str(len(labels))]
            for k, c in zip(labels, df.iloc[:, j].tolist()):
                kt = show_key(k)
                if c is None:
                    ct = "n"
                elif isinstance(c, (bool, np.bool_)):
                    raise Unencodable("bool cell")
                elif is_int(c):
                    ct = "i%d" % c
                elif isinstance(c, float):
                    ct = "f" + fl_tok(c)
                elif isinstance(c, str):
                    ct = hexs(c)
                else:
                    raise Unencodable("cell of type %s in column %s" % (type(c).__name__, name))
                if kt.startswith("?"):
                    raise Unencodable("row label %r" % (k,))
                ts += [kt, ct]
    return " ".join(ts)


_PREFIXES = [
    ("****** DFO-LS Results ******", "header"),
    ("Solution xmin was evaluation point ", "xmin-eval"),
    ("Solution xmin = ", "xmin"),
    ("Residual vector = ", "resid"),
    ("Not showing residual vector because it is too long", "resid-long"),
    ("Objective value f(xmin) = ", "obj"),
    ("Needed ", "evals"),
    ("Did a total of ", "runs"),
    ("Approximate Jacobian formed using evaluation points ", "evalnums"),
    ("Approximate Jacobian not formed using problem information", "evalnums-none"),
    ("Approximate Jacobian = ", "jac"),
    ("No Jacobian returned", "jac-none"),
    ("Not showing approximate Jacobian because it is too long", "jac-long"),
    ("Diagnostic information available", "diag"),
    ("Not showing Jacobian evaluation points because it is too long", "evalnums-long"),
    ("Exit flag = ", "flag"),
]


def str_tags(text):
    """which lines the real __str__ printed (mirrors Lean `strLines` / `Line.tag`)"""
    lines = text.split("\n")
    tags = []
    i = 0
    while i < len(lines):
        ln = lines[i]
        i += 1
        for p, t in _PREFIXES:
            if ln.startswith(p):
                tags.append(t)
                break
        if tags and tags[-1] == "flag":
            break
    # after the flag line: the message (any text), then the footer, then the final newline
    if len(lines) >= 2 and lines[-1] == "" and lines[-2] == "****************************" and i <= len(lines) - 2:
        tags += ["msg", "footer"]
    else:
        tags.append("?tail")
    return ",".join(tags)


# ------------------------------------------------------------------------------------------------
# cases: explicit records -> OptimResults ; real solves -> OptimResults
# ------------------------------------------------------------------------------------------------
def build_from_record(dfols, rec):
    """explicit JSON-able record (floats as tokens) -> a real OptimResults object"""
    import pandas as pd
    from dfols.solver import OptimResults
    fa = lambda l: np.array([tok_fl(t) for t in l], dtype=float)
    jac = None if rec["jac"] is None else np.array([[tok_fl(t) for t in row] for row in rec["jac"]], dtype=float).reshape(
        len(rec["jac"]), len(rec["jac"][0]) if rec["jac"] else 0)
    en = None if rec["en"] is None else np.array(rec["en"], dtype=int)
    obj = tok_fl(rec["obj"])
    if rec.get("numpy_scalars"):
        obj = np.float64(obj)
    ii = (lambda v: np.int64(v)) if rec.get("numpy_scalars") else (lambda v: v)
    s = OptimResults(fa(rec["x"]), fa(rec["resid"]), obj, jac, ii(rec["nf"]), ii(rec["nx"]), ii(rec["nruns"]), rec["flag"],
                     rec["msg"], ii(rec["xen"]), en)
    if rec["diag"] is not None:
        data = {}
        for name, cells in rec["diag"]["columns"]:
            data[name] = [tok_fl(c["f"]) if isinstance(c, dict) else c for c in cells]
        idx = rec["diag"]["index"]
        s.diagnostic_info = pd.DataFrame(data) if idx is None else pd.DataFrame(data, index=idx)
    return s


def rec0(**kw):
    r = {"x": [fl_tok(0.5)], "resid": [fl_tok(1.0)], "obj": fl_tok(1.0), "jac": None, "nf": 1, "nx": 1, "nruns": 1, "flag": 0,
         "msg": "Success: Objective is sufficiently small", "xen": 1, "en": None, "diag": None}
    r.update(kw)
    return r


def corpus_records():
    """stored minimal cases (first in every suite): one per known behaviour class"""
    F = fl_tok
    nan, inf = "nan", "inf"
    return [
        ("minimal", rec0()),
        ("obj-nan", rec0(resid=[nan], obj=nan, flag=-4, msg="Error (function evaluation): NaN received from objective function evaluation")),
        ("obj-inf", rec0(resid=[inf], obj=inf)),
        ("x-resid-jac-nan", rec0(x=[nan, F(1.0)], resid=[F(-0.0), nan], jac=[[nan, F(2.0)], [F(3.0), nan]], en=[1, 2, 3])),
        ("jac-neg-inf", rec0(jac=[["-inf"]], en=[0])),
        ("early-exit-x0", rec0(xen=0, en=[0], obj=F(0.0), resid=[F(0.0)])),
        ("diag-basic", rec0(diag={"index": None, "columns": [["fk", [{"f": F(1.5)}, {"f": nan}]], ["nf", [1, 2]],
                                                             ["iter_type", ["Safety", None]], ["ratio", [None, None]]]})),
        ("diag-empty", rec0(diag={"index": None, "columns": [["fk", []], ["nf", []]]})),
        ("diag-inf-cell", rec0(diag={"index": None, "columns": [["interpolation_condition_number", [{"f": inf}, {"f": F(2.0)}]]]})),
        ("diag-12-rows", rec0(diag={"index": None, "columns": [["iters_total", list(range(12))], ["delta", [{"f": F(0.1 * i)} for i in range(12)]]]})),
        ("flag-4-synthetic", rec0(flag=4, msg="Warning (auto-detect restart): Auto-detected restart", nruns=3, nf=70, nx=70, xen=33)),
        ("flag--2-synthetic", rec0(flag=-2, msg="Error (trust region increase): Trust region step gave model increase")),
        ("numpy-scalars", rec0(numpy_scalars=True, nf=12, nx=12, xen=7)),
        ("msg-odd", rec0(msg="line1\nline2 \"q\" \\ é中\U0001f600 \t end")),
        ("resid-100", rec0(resid=[F(float(i)) for i in range(100)])),
        ("resid-99", rec0(resid=[F(float(i)) for i in range(99)])),
        ("jac-200", rec0(resid=[F(0.0)] * 20, x=[F(0.0)] * 10, jac=[[F(float(i * 10 + j)) for j in range(10)] for i in range(20)], en=list(range(1, 12)))),
        ("jac-198", rec0(resid=[F(0.0)] * 22, x=[F(0.0)] * 9, jac=[[F(float(i * 9 + j)) for j in range(9)] for i in range(22)], en=list(range(1, 11)))),
        ("evalnums-100", rec0(en=list(range(1, 101)))),
        ("evalnums-99", rec0(en=list(range(1, 100)))),
    ]


SPECIAL = [math.nan, math.inf, -math.inf, 0.0, -0.0, 1e308, 5e-324, 1e-310, -1.5, 1.0 / 3.0, 1e22, 123456789.12345679,
           2.0 ** 53 + 2, 1e-5, 0.1, -1e16]
MSGS = ["Success: rho has reached rhoend", "Success: Objective is sufficiently small",
        "Warning (max evals): Objective has been called MAXFUN times", "Warning (slow progress): Maximum slow iterations reached",
        "Error (linear algebra): Singular matrix in mini-model interpolation (main loop)", "", "x", "two\nlines", "tab\tquote\"back\\slash",
        "ünicöde ∇f \U0001f600", "Exit flag = 3", "****************************"]
DIAG_COLS = ["fk", "rho", "delta", "interpolation_error", "interpolation_condition_number", "poisedness", "norm_gk", "nruns", "nf",
             "npt", "iter_type", "ratio", "slow_iter", "odd \"name\"", "é"]
ITER_TYPES = ["Very successful", "Successful", "Acceptable (geom fixed)", "Unsuccessful (geom not fixed)", "Safety"]


def random_record(rng):
    allow_inf = rng.random() < 0.5
    p_special = float(rng.choice([0.0, 0.1, 0.4]))

    def fl():
        if rng.random() < p_special:
            v = SPECIAL[int(rng.integers(len(SPECIAL)))]
            if not allow_inf and v in (math.inf, -math.inf):
                v = math.nan
            return fl_tok(v)
        return fl_tok(float(rng.normal()) * 10.0 ** int(rng.integers(-3, 4)))

    n = int(rng.choice([1, 2, 3, 5]))
    m = int(rng.choice([1, 2, 3, 4, 99, 100, 101], p=[0.2, 0.25, 0.2, 0.2, 0.05, 0.05, 0.05]))
    c = rng.random()
    if c < 0.3:
        jac = None
    elif c < 0.4:
        m, n = [(20, 10), (22, 9), (199, 1), (200, 1), (100, 2), (67, 3)][int(rng.integers(6))]
        jac = [[fl() for _ in range(n)] for _ in range(m)]
    else:
        jac = [[fl() for _ in range(n)] for _ in range(m)]
    c = rng.random()
    if c < 0.3:
        en = None
    elif c < 0.4:
        en = [int(v) for v in rng.integers(0, 500, size=int(rng.choice([99, 100, 101])))]
    elif c < 0.5:
        en = [0]
    else:
        en = [int(v) for v in rng.integers(1, 200, size=n + 1)]
    nf = int(rng.choice([0, 1, 2, 17, 1000, 10 ** 6]))
    rec = {"x": [fl() for _ in range(n)], "resid": [fl() for _ in range(m)], "obj": fl(), "jac": jac, "nf": nf,
           "nx": int(rng.integers(0, nf + 1)), "nruns": int(rng.choice([0, 1, 1, 2, 7])),
           "flag": int(rng.choice([0, 1, 2, 3, 4, 5, -2, -3, -4])), "msg": MSGS[int(rng.integers(len(MSGS)))],
           "xen": int(rng.integers(0, nf + 1)), "en": en, "diag": None, "numpy_scalars": bool(rng.random() < 0.3)}
    if rng.random() < 0.5:
        nrows = int(rng.choice([0, 1, 2, 5, 12, 101], p=[0.1, 0.2, 0.2, 0.25, 0.2, 0.05]))
        ncols = int(rng.integers(1, 7))
        names = [DIAG_COLS[i] for i in rng.permutation(len(DIAG_COLS))[:ncols]]
        cols = []
        for name in names:
            kind = int(rng.integers(0, 5))
            if kind == 0:      # float column, NaN / None / special entries
                cells = [None if rng.random() < 0.15 else {"f": fl()} for _ in range(nrows)]
            elif kind == 1:    # int column
                cells = [int(rng.integers(-5, 1000)) for _ in range(nrows)]
            elif kind == 2:    # str column with missing entries
                cells = [None if rng.random() < 0.2 else ITER_TYPES[int(rng.integers(len(ITER_TYPES)))] for _ in range(nrows)]
            elif kind == 3:    # all None (object column)
                cells = [None] * nrows
            else:              # ints with holes -> pandas makes it a float column
                cells = [None if rng.random() < 0.3 else int(rng.integers(-1, 2)) for _ in range(nrows)]
            cols.append([name, cells])
        c = rng.random()
        if c < 0.75:
            idx = None
        elif c < 0.9:
            idx = [int(v) for v in rng.permutation(3 * nrows + 1)[:nrows]]          # distinct ints, unordered
        else:
            idx = ["r%d" % i for i in range(nrows)]
        rec["diag"] = {"index": idx, "columns": cols}
    return rec


# ---- real solves -------------------------------------------------------------------------------
def _rosen(x):
    return np.array([10.0 * (x[1] - x[0] ** 2), 1.0 - x[0]])


def _linear(m, n, rng):
    A = rng.normal(size=(m, n))
    b = rng.normal(size=m)
    return lambda x: A.dot(x) - b


def _ball(c, r):
    c = np.array(c, dtype=float)

    def proj(x):
        d = x - c
        nn = np.linalg.norm(d)
        return x.copy() if nn <= r else c + d * (r / nn)
    return proj


def _faulty(f, k, value):
    cnt = [0]

    def g(x):
        cnt[0] += 1
        r = f(x)
        return r * value if cnt[0] > k else r
    return g


DIAG_ON = {"logging.save_diagnostic_info": True}


def solve_configs():
    """name -> builder(rng) -> (objfun, x0, kwargs). Every builder draws its variation from rng."""
    x0r = lambda: np.array([-1.2, 1.0])

    def diag(rng, p=0.6, extra=None):
        up = dict(extra or {})
        if rng.random() < p:
            up.update(DIAG_ON)
            if rng.random() < 0.3:
                up["logging.save_poisedness"] = False
        return up

    def noisy(rng, sigma):
        r2 = np.random.default_rng(int(rng.integers(1 << 30)))
        return lambda x: _rosen(x) + sigma * r2.normal(size=2)

    C = {}
    C["maxfun"] = lambda rng: (_rosen, x0r(), dict(maxfun=int(rng.integers(5, 40)), user_params=diag(rng)))
    C["converge"] = lambda rng: (_rosen, x0r() + 0.1 * rng.normal(size=2), dict(user_params=diag(rng)))
    C["rhoend"] = lambda rng: (_linear(4, 2, rng), np.zeros(2), dict(user_params=diag(rng)))
    C["x0-optimal"] = lambda rng: (_rosen, np.array([1.0, 1.0]), dict(user_params=diag(rng)))
    # residual functions returning integer / single-precision arrays, with the exit taken at x0 (warm start at the solution or a
    # loose tolerance): every array of the result must come out as float64 whatever the user's function returns
    C["x0-exit-foreign-dtype"] = lambda rng: (lambda dt: ((lambda x: np.array([round(10 * (x[1] - x[0] ** 2)), round(1 - x[0])]).astype(dt)),
                                                         np.array([1.0, 1.0]) if rng.random() < 0.5 else x0r(),
                                                         dict(user_params=diag(rng, 0.2, {"model.abs_tol": float(rng.choice([1e-12, 1e3]))}))))(
        [np.int64, np.int32, np.float32][int(rng.integers(3))])
    C["budget-in-init"] = lambda rng: (_linear(3, 3, rng), np.zeros(3), dict(maxfun=int(rng.integers(1, 4)), user_params=diag(rng)))
    C["slow"] = lambda rng: (_rosen, x0r(), dict(user_params=diag(rng, extra={"slow.max_slow_iters": int(rng.integers(1, 3)),
                                                                         "slow.thresh_for_slow": 1e10, "slow.history_for_slow": 1})))
    C["nan-at-k"] = lambda rng: (_faulty(_rosen, int(rng.integers(0, 12)), math.nan), x0r(), dict(maxfun=40, user_params=diag(rng)))
    C["nan-from-start"] = lambda rng: (_faulty(_rosen, 0, math.nan), x0r(), dict(maxfun=int(rng.integers(3, 20)), user_params=diag(rng)))
    C["inf-at-k"] = lambda rng: (_faulty(_rosen, int(rng.integers(0, 8)), math.inf), x0r(), dict(maxfun=30, user_params=diag(rng)))
    C["overflow"] = lambda rng: (_faulty(_rosen, int(rng.integers(0, 8)), 1e200), x0r(), dict(maxfun=30, user_params=diag(rng)))
    C["m-threshold"] = lambda rng: (_linear(int(rng.choice([99, 100, 101])), 2, rng), np.zeros(2),
                                    dict(maxfun=int(rng.integers(4, 14)), user_params=diag(rng, 0.3)))
    C["jac-threshold"] = lambda rng: (lambda mn: (_linear(mn[0], mn[1], rng), np.zeros(mn[1]), dict(maxfun=mn[1] + 8, user_params=diag(rng, 0.2))))(
        [(20, 10), (22, 9), (199, 1), (200, 1), (67, 3), (50, 4)][int(rng.integers(6))])
    C["evalnums-threshold"] = lambda rng: (lambda n: (_linear(5, n, rng), np.zeros(n), dict(maxfun=n + 4, rhoend=1e-2, user_params=diag(rng, 0.0))))(
        int(rng.choice([98, 99, 100])))
    C["soft-restarts"] = lambda rng: (noisy(rng, 1e-2), x0r(), dict(maxfun=int(rng.integers(40, 70)), objfun_has_noise=True, user_params=diag(rng, 0.5)))
    C["hard-restarts"] = lambda rng: (noisy(rng, 1e-2), x0r(), dict(maxfun=int(rng.integers(40, 70)), objfun_has_noise=True,
                                                                    user_params=diag(rng, 0.5, {"restarts.use_soft_restarts": False})))
    C["false-success"] = lambda rng: (noisy(rng, 1e-2), x0r(), dict(maxfun=80, objfun_has_noise=True,
                                                                    user_params=diag(rng, 0.3, {"restarts.soft.max_fake_successful_steps": 1})))
    C["unsuccessful-restarts"] = lambda rng: (noisy(rng, 1e-2), x0r(), dict(maxfun=90, objfun_has_noise=True, user_params=diag(
        rng, 0.3, {"restarts.use_soft_restarts": False, "restarts.auto_detect.history": 5, "restarts.max_unsuccessful_restarts": 1})))
    # restarts that really happen (loose rhoend) and grow the interpolation set (points appended to a full model)
    C["soft-restarts-increase-npt"] = lambda rng: (noisy(rng, 1e-2), x0r(), dict(maxfun=int(rng.integers(120, 220)), rhoend=1e-2, objfun_has_noise=True,
                                                                                 user_params=diag(rng, 0.5, {"restarts.increase_npt": True, "restarts.max_npt": 6,
                                                                                                             "restarts.increase_npt_amt": int(rng.integers(1, 3))})))
    C["hard-restarts-increase-npt"] = lambda rng: (noisy(rng, 1e-2), x0r(), dict(maxfun=int(rng.integers(120, 220)), rhoend=1e-2, objfun_has_noise=True,
                                                                                 user_params=diag(rng, 0.5, {"restarts.use_soft_restarts": False, "restarts.increase_npt": True,
                                                                                                             "restarts.max_npt": 6})))
    C["scaled-bounds"] = lambda rng: (_rosen, x0r(), dict(maxfun=int(rng.integers(10, 35)), bounds=(np.array([-5.0, -5.0]), np.array([5.0, 5.0])),
                                                          scaling_within_bounds=True, user_params=diag(rng)))

    def proj(rng):
        c1 = rng.normal(size=2)
        c2 = c1 + 0.5 * rng.normal(size=2)
        return (_rosen, c1.copy(), dict(maxfun=50, projections=[_ball(c1, 1.0), _ball(c2, 1.0)], user_params=diag(rng)))
    C["two-projections"] = proj
    C["nsamples"] = lambda rng: (noisy(rng, 1e-3), x0r(), dict(maxfun=30, objfun_has_noise=True, nsamples=lambda d, r, i, k: 2,
                                                               user_params=diag(rng)))
    # budgets that end in the middle of the samples of a point (any kind of step), and extra regression steps with a loose
    # tolerance: exits taken inside geometry / regression steps hand their point over through other save sites
    C["nsamples-budget-sweep"] = lambda rng: (lambda k: (noisy(rng, 1e-3), x0r(), dict(maxfun=int(rng.integers(20, 80)), objfun_has_noise=True,
                                                                                       nsamples=lambda d, r, i, kk, k=k: k, user_params=diag(rng, 0.3))))(int(rng.integers(2, 4)))
    # results that come from the point saved by an exit taken INSIDE a geometry step (budget ending in the middle of that point's
    # samples): (samples per point, maxfun) pairs found with the tracer on a deterministic problem — the exit route matters, the
    # numbers are not magic (they drift harmlessly if the trajectory ever changes)
    _smooth3 = lambda x: np.array([x[0] - 1.0, x[1] - 2.0, x[2] - 3.0, 0.1 * (x[0] * x[1] + x[2] ** 2)])
    C["geometry-step-exit-is-the-result"] = lambda rng: (lambda p: (_smooth3, np.array([0.3, 0.2, 0.1]),
                                                                    dict(maxfun=p[1], nsamples=lambda d, r, i, k, ns=p[0]: ns,
                                                                         user_params=diag(rng, 0.3))))(
        [(2, 43), (2, 75), (3, 55), (3, 56)][int(rng.integers(4))])
    C["regression-extra-steps-loose-tol"] = lambda rng: (_rosen, x0r(), dict(npt=5, user_params=diag(rng, 0.3, {"regression.num_extra_steps": 2,
                                                                                                          "model.abs_tol": float(rng.choice([0.5, 0.8, 2.0]))})))
    return C


def solve_configs_nonplain():
    """documented limitation (properties.jsonl): save_xk / save_rk put arrays into the table; only used by the search"""
    C = {}
    C["diag-with-xk"] = lambda rng: (_rosen, np.array([-1.2, 1.0]), dict(maxfun=10, user_params={"logging.save_diagnostic_info": True, "logging.save_xk": True}))
    C["diag-with-rk"] = lambda rng: (_rosen, np.array([-1.2, 1.0]), dict(maxfun=10, user_params={"logging.save_diagnostic_info": True, "logging.save_rk": True}))
    return C


def run_solve(dfols, name, seed, table=None):
    """run one configured solve; returns OptimResults or a string naming why there is none"""
    table = table or {**solve_configs(), **solve_configs_nonplain()}
    rng = np.random.default_rng(seed)
    f, x0, kw = table[name](rng)
    prev = logging.root.manager.disable
    logging.disable(logging.CRITICAL)
    try:
        np.random.seed(int(rng.integers(1 << 30)))
        s = core.with_alarm(SOLVE_ALARM_S, dfols.solve, f, x0, **kw)
    except core.Alarm:
        return "alarm"
    except Exception as e:  # input errors raise TypeError in the pinned tree (C07), RuntimeError with projections, ...
        return "raised:" + type(e).__name__
    finally:
        logging.disable(prev)
    if s.flag == s.EXIT_INPUT_ERROR or s.x is None:
        return "input-error"
    return s


def describe(s):
    di = s.diagnostic_info
    # (a result whose resid is not a vector - seen with a seeded change - is described, not crashed on: the round trip /
    # printing comparison below is what judges it)
    return {"flag": int(s.flag), "n": len(s.x), "m": (len(s.resid) if np.ndim(s.resid) >= 1 else "scalar:" + type(s.resid).__name__), "jac": None if s.jacobian is None else list(s.jacobian.shape),
            "evalnums": None if s.jacmin_eval_nums is None else len(s.jacmin_eval_nums), "nruns": int(s.nruns),
            "obj": repr(float(s.obj)), "diag": None if di is None else list(di.shape)}


def gen_cases(dfols, ctx, suite, n_solve_rounds, n_synth, with_nonplain=False):
    """yield (origin, OptimResults). origin is JSON-able and sufficient to rebuild the case (see `rebuild`)."""
    for name, rec in corpus_records():
        yield {"kind": "record", "name": "corpus:" + name, "record": rec}, build_from_record(dfols, rec)
    table = solve_configs()
    if with_nonplain:
        table = {**table, **solve_configs_nonplain()}
    for rnd in range(n_solve_rounds):
        for ci, name in enumerate(sorted(table)):
            seed = [ctx.seed, suite, rnd, ci]
            s = run_solve(dfols, name, seed, table)
            if isinstance(s, str):
                ctx.count("solve_skipped:" + name + ":" + s)
                continue
            if np.ndim(s.resid) != 1 or np.ndim(s.x) != 1:
                # a result object whose x / resid is not a vector cannot be printed or compared field by field (str() raises):
                # that is the failure, reported here instead of crashing the harness further down
                try:
                    printed = str(s)[:60]
                except Exception as exc:
                    printed = "str() raises %s" % type(exc).__name__
                ctx.fail("C20:malformed-result|resid-or-x-not-a-vector|" + name,
                         "solve returned resid of type %s (ndim %d), x ndim %d; %s" % (type(s.resid).__name__, np.ndim(s.resid), np.ndim(s.x), printed),
                         {"name": name, "seed": seed})
                continue
            yield {"kind": "solve", "name": name, "seed": seed, "result": describe(s)}, s
    for i in range(n_synth):
        rng = np.random.default_rng([ctx.seed, suite, 7777, i])
        rec = random_record(rng)
        yield {"kind": "record", "name": "synthetic:%d" % i, "record": rec}, build_from_record(dfols, rec)


def readable_record(rec):
    """the same record with floats written as Python reprs (for the human reading a replay file)"""
    f = lambda t: repr(tok_fl(t))
    out = dict(rec)
    out["x"] = [f(t) for t in rec["x"]]
    out["resid"] = [f(t) for t in rec["resid"]][:12] + (["... %d more" % (len(rec["resid"]) - 12)] if len(rec["resid"]) > 12 else [])
    out["obj"] = f(rec["obj"])
    if rec["jac"] is not None:
        out["jac"] = [[f(t) for t in row] for row in rec["jac"][:6]] + (["... %d more rows" % (len(rec["jac"]) - 6)] if len(rec["jac"]) > 6 else [])
    if rec["diag"] is not None:
        out["diag"] = {"index": rec["diag"]["index"], "columns": [[n, [f(c["f"]) if isinstance(c, dict) else c for c in cells[:12]]]
                                                                  for n, cells in rec["diag"]["columns"]]}
    return out


def replay_payload(origin, replace, sig):
    rp = {"origin": origin, "replace_nan": replace, "signature": sig,
          "how": "build the OptimResults named by origin (props/c20.py: rebuild), then r = OptimResults.from_dict(json.loads("
                 "json.dumps(s.to_dict(replace_nan), allow_nan=False))) and compare r with s field by field and str(r) with str(s)"}
    if origin["kind"] == "record":
        rp["record_readable"] = readable_record(origin["record"])
    return rp


def rebuild(dfols, origin):
    if origin["kind"] == "record":
        return build_from_record(dfols, origin["record"])
    return run_solve(dfols, origin["name"], origin["seed"])


def features(s):
    """coverage tags of a case"""
    t = ["flag=%d" % int(s.flag)]
    fl = np.concatenate([np.ravel(s.x), np.ravel(s.resid), [float(s.obj)]] + ([np.ravel(s.jacobian)] if s.jacobian is not None else []))
    if np.any(np.isnan(fl)):
        t.append("nan-in-arrays-or-obj")
    if float(s.obj) != float(s.obj):
        t.append("obj-nan")
    if np.any(np.isinf(fl)):
        t.append("inf")
    t.append("jac-none" if s.jacobian is None else ("jac>=200" if np.size(s.jacobian) >= 200 else "jac<200"))
    t.append("evalnums-none" if s.jacmin_eval_nums is None else ("evalnums>=100" if len(s.jacmin_eval_nums) >= 100 else "evalnums<100"))
    t.append("m>=100" if len(s.resid) >= 100 else "m<100")
    t.append("nruns>1" if s.nruns > 1 else "nruns<=1")
    if s.diagnostic_info is None:
        t.append("diag-off")
    else:
        nr = s.diagnostic_info.shape[0]
        t.append("diag-rows:" + ("0" if nr == 0 else "1-10" if nr <= 10 else "11-100" if nr <= 100 else ">100"))
    return t


# ------------------------------------------------------------------------------------------------
# correspondence: real code vs Lean model
# ------------------------------------------------------------------------------------------------
def real_renderings(dfols, s, replace):
    """the real pipeline, rendered in the driver's reply format (dict of fields)"""
    from dfols.solver import OptimResults
    out = {}
    d = s.to_dict(replace_nan=replace)
    out["d"] = show_json(d)
    try:
        json.dumps(d, allow_nan=False)
        out["strict"] = "1"
    except ValueError:
        out["strict"] = "0"
    t = json.loads(json.dumps(d))
    out["t"] = show_json(t)
    r = OptimResults.from_dict(t)
    out["loaded"] = show_rec(r)
    out["str"] = str_tags(str(s))
    try:
        out["strloaded"] = str_tags(str(r))
    except TypeError:
        out["strloaded"] = "raise"
    return out


def parse_reply(rep):
    if not rep.startswith("ok "):
        return None
    out = {}
    for part in rep[3:].split(" "):
        k, _, v = part.partition("=")
        out[k] = v
    return out


def short(a, b):
    """first difference of two renderings, for the report"""
    n = min(len(a), len(b))
    i = next((k for k in range(n) if a[k] != b[k]), n)
    return {"at": i, "lean": a[max(0, i - 60):i + 60], "real": b[max(0, i - 60):i + 60]}


def correspondence(ctx):
    dfols = core.import_dfols()
    lines, reals, owners = [], [], []
    feat, unenc, origins = {}, 0, 0
    feat_real = {}
    for origin, s in gen_cases(dfols, ctx, 20, ctx.scale(3, 10), ctx.scale(120, 2500)):
        origins += 1
        for tg in features(s):
            feat[tg] = feat.get(tg, 0) + 1
            if origin["kind"] == "solve":
                feat_real[tg] = feat_real.get(tg, 0) + 1
        for replace in (True, False):
            try:
                line = encode_request(s, replace)
                real = real_renderings(dfols, s, replace)
            except Unencodable as e:
                unenc += 1
                ctx.count("correspondence_unencodable:" + str(e)[:40])
                continue
            except Exception as e:
                ctx.broke("correspondence:real-pipeline-raised", {"case": origin["name"], "replace_nan": replace, "error": repr(e)[:300]})
                continue
            lines.append(line)
            reals.append(real)
            owners.append((origin, replace))
            ctx.seen(("c20corr", line[:4000], len(line)))
            if origin["kind"] == "solve" and replace:
                ctx.add_sample({"kind": "real solve -> to_dict -> json -> from_dict vs Lean model", "case": origin["name"],
                                "result": origin["result"], "protocol_line_head": line[:160], "str_lines": real["str"],
                                "strict_json": real["strict"]}, limit=4)
    replies = core.run_driver(lines, main=MAIN) if lines else []
    nmis, pinned_like = 0, 0
    tagsets = set()
    for (origin, replace), rep, real in zip(owners, replies, reals):
        m = parse_reply(rep)
        if m is None:
            nmis += 1
            ctx.broke("correspondence:driver-rejected-line", {"case": origin["name"], "reply": rep[:200]})
            continue
        tagsets.add(m["str"])
        bad = []
        if m["d"] != real["d"]:
            bad.append(("to_dict", short(m["d"], real["d"])))
        if m["strict"] != real["strict"]:
            bad.append(("strict-json", {"lean": m["strict"], "real": real["strict"]}))
        if m["t"] != real["t"]:
            bad.append(("json-transport", short(m["t"], real["t"])))
        if m["new"] != real["loaded"]:
            if m["old"] == real["loaded"]:
                pinned_like += 1
                bad.append(("from_dict:real-code-matches-pinned-fromDictOld(obj None not mapped to NaN)", short(m["new"], real["loaded"])))
            else:
                bad.append(("from_dict", short(m["new"], real["loaded"])))
        if m["str"] != real["str"]:
            bad.append(("str-lines", {"lean": m["str"], "real": real["str"]}))
        want_strloaded = m["strnew"]
        if want_strloaded != real["strloaded"]:
            if m["strold"] == real["strloaded"]:
                bad.append(("str-reloaded:real-code-matches-pinned(str raises on obj None)", {"lean": want_strloaded, "real": real["strloaded"]}))
            else:
                bad.append(("str-lines-reloaded", {"lean": want_strloaded, "real": real["strloaded"]}))
        if bad:
            nmis += 1
            if len(ctx.broken) < 8:
                for name, detail in bad[:3]:
                    ctx.broke("correspondence:" + name, {"case": origin["name"], "replace_nan": replace, "detail": detail,
                                                         "origin": origin if origin["kind"] == "solve" else origin["name"]})
    ctx.cov["correspondence_json"] = {"cases": origins, "protocol_lines": len(lines), "mismatching_lines": nmis,
                                      "matching_pinned_fromDictOld": pinned_like, "unencodable": unenc,
                                      "case_features": dict(sorted(feat.items())),
                                      "case_features_real_solves_only": dict(sorted(feat_real.items())),
                                      "distinct_str_line_patterns": len(tagsets),
                                      "bytes_sent": sum(len(l) for l in lines)}


# ------------------------------------------------------------------------------------------------
# search: the property, stated directly on the real code
# ------------------------------------------------------------------------------------------------
def _arr_equal(a, b, kind):
    if a is None or b is None:
        return a is None and b is None
    if not (isinstance(a, np.ndarray) and isinstance(b, np.ndarray)):
        return False
    if a.shape != b.shape or a.dtype.kind != kind or b.dtype.kind != kind:
        return False
    return bool(np.array_equal(a, b, equal_nan=(kind == "f")))


def _cell_equal(a, b):
    if isna(a) or isna(b):
        return isna(a) and isna(b)
    if isinstance(a, (bool, np.bool_)) or isinstance(b, (bool, np.bool_)):
        return type(a) is type(b) and a == b
    for T in (str, float):
        if isinstance(a, T) or isinstance(b, T):
            return isinstance(a, T) and isinstance(b, T) and a == b
    if is_int(a) or is_int(b):
        return is_int(a) and is_int(b) and a == b
    return type(a) is type(b) and a == b


def check_property(dfols, s, replace, stats=None):
    """C20 on one result object: list of (signature, what); empty = holds."""
    from dfols.solver import OptimResults
    fails = []
    try:
        s0 = str(s)
    except Exception as e:
        fails.append(("C20:str-raises-original", "str(result) raised %r" % (e,)))
        s0 = None
    try:
        d = s.to_dict(replace_nan=replace)
    except Exception as e:
        return fails + [("C20:to_dict-raises", "to_dict(replace_nan=%s) raised %r" % (replace, e))]
    bad = first_nonplain(d)
    if bad is not None:
        path, tname = bad
        if tname == "ndarray" and path.startswith("/diagnostic_info/") and path.split("/")[2] in ("xk", "rk"):
            return fails + [("C20:diag-xk-rk-arrays-not-json", "to_dict() holds numpy arrays at %s (logging.save_xk / save_rk): "
                             "json.dumps raises TypeError" % path)]
        return fails + [("C20:to_dict-not-plain:" + tname, "to_dict() holds a %s at %s" % (tname, path))]
    if replace:
        try:
            txt = json.dumps(d, allow_nan=False)
        except ValueError:
            kinds = nonfinite_kinds(d)
            if "nan" in kinds:
                fails.append(("C20:nan-not-replaced", "to_dict(replace_nan=True) still contains NaN"))
            if "inf" in kinds:
                fails.append(("C20:inf-not-strict-json", "to_dict(replace_nan=True) contains +-inf: json.dumps(allow_nan=False) "
                              "raises ValueError (Out of range float values are not JSON compliant)"))
            if not kinds:
                fails.append(("C20:dumps-raises", "json.dumps(allow_nan=False) raised without NaN/inf in the data"))
            txt = json.dumps(d)
    else:
        txt = json.dumps(d)
    try:
        r = OptimResults.from_dict(json.loads(txt))
    except Exception as e:
        return fails + [("C20:from_dict-raises", "from_dict raised %r" % (e,))]
    # ---- fields
    for name in ("x", "resid", "jacobian"):
        if not _arr_equal(getattr(s, name), getattr(r, name), "f"):
            fails.append(("C20:field-mismatch:" + name, "%s differs after the round trip: %r -> %r" % (name, getattr(s, name), getattr(r, name))))
    if not _arr_equal(s.jacmin_eval_nums, r.jacmin_eval_nums, "i"):
        fails.append(("C20:field-mismatch:jacmin_eval_nums", "jacmin_eval_nums differs: %r -> %r" % (s.jacmin_eval_nums, r.jacmin_eval_nums)))
    obj_none = False
    if r.obj is None:
        obj_none = True
        fails.append(("C20:obj-none-not-restored", "obj = %r comes back as None (from_dict does not map None to NaN for the scalar obj)" % (s.obj,)))
    elif not (isinstance(r.obj, float) and (r.obj == float(s.obj) or (r.obj != r.obj and float(s.obj) != float(s.obj)))):
        fails.append(("C20:field-mismatch:obj", "obj differs: %r -> %r" % (s.obj, r.obj)))
    for name in ("nf", "nx", "nruns", "flag", "xmin_eval_num"):
        a, b = getattr(s, name), getattr(r, name)
        if not (is_int(b) and int(a) == b):
            fails.append(("C20:field-mismatch:" + name, "%s differs: %r -> %r" % (name, a, b)))
    if not (isinstance(r.msg, str) and r.msg == str(s.msg)):
        fails.append(("C20:field-mismatch:msg", "msg differs: %r -> %r" % (s.msg, r.msg)))
    # ---- diagnostic table
    a, b = s.diagnostic_info, r.diagnostic_info
    if (a is None) != (b is None):
        fails.append(("C20:field-mismatch:diagnostic_info", "diagnostic_info presence differs"))
    elif a is not None:
        if a.columns.tolist() != b.columns.tolist():
            fails.append(("C20:diag-columns", "columns differ: %r -> %r" % (a.columns.tolist(), b.columns.tolist())))
        elif [str(k) for k in a.index.tolist()] != [str(k) for k in b.index.tolist()]:
            fails.append(("C20:diag-index-lost", "row labels differ beyond str(): %r -> %r" % (a.index.tolist()[:12], b.index.tolist()[:12])))
        else:
            if a.index.tolist() != b.index.tolist():
                if stats is not None:
                    stats["diag_index_labels_stringified"] = stats.get("diag_index_labels_stringified", 0) + 1
                if STRICT_INDEX:
                    fails.append(("C20:diag-index-strings", "row labels come back as strings: %r -> %r" % (a.index.tolist()[:4], b.index.tolist()[:4])))
            for j, name in enumerate(a.columns.tolist()):
                ca, cb = a.iloc[:, j].tolist(), b.iloc[:, j].tolist()
                k = next((k for k in range(len(ca)) if not _cell_equal(ca[k], cb[k])), None)
                if k is not None:
                    fails.append(("C20:diag-cell", "column %r row %d: %r -> %r" % (name, k, ca[k], cb[k])))
                    break
    # ---- printing
    try:
        s1 = str(r)
    except Exception as e:
        s1 = None
        if obj_none:
            i = next(i for i, f in enumerate(fails) if f[0] == "C20:obj-none-not-restored")
            fails[i] = (fails[i][0], fails[i][1] + "; str(reloaded) raises %r" % (e,))
        else:
            fails.append(("C20:str-raises-reloaded", "str(reloaded) raised %r" % (e,)))
    if s0 is not None and s1 is not None and s0 != s1:
        fails.append(("C20:str-differs", "str differs:\n%s\n--- reloaded ---\n%s" % (s0[:600], s1[:600])))
    return fails


def search(ctx):
    dfols = core.import_dfols()
    boost = getattr(ctx, "boost", 1)
    stats, flags, feat, feat_real = {}, {}, {}, {}
    reported = set(f.signature for f in ctx.failures)
    counts = {}
    ncases = 0
    for origin, s in gen_cases(dfols, ctx, 2020 + (boost > 1), ctx.scale(3, 20) * boost, ctx.scale(400, 6000) * boost, with_nonplain=True):
        ncases += 1
        if origin["kind"] == "solve":
            flags[int(s.flag)] = flags.get(int(s.flag), 0) + 1
        for tg in features(s):
            feat[tg] = feat.get(tg, 0) + 1
            if origin["kind"] == "solve":
                feat_real[tg] = feat_real.get(tg, 0) + 1
        for replace in (True, False):
            fails = check_property(dfols, s, replace, stats)
            ctx.seen(("c20search", origin["name"], origin.get("seed"), replace, repr(origin.get("record"))[:3000]))
            for sig, what in fails:
                counts[sig] = counts.get(sig, 0) + 1
                if sig not in reported:
                    reported.add(sig)
                    ctx.fail(sig, "%s [case %s, replace_nan=%s]" % (what, origin["name"], replace), replay_payload(origin, replace, sig))
    ctx.cov["search_json"] = {"cases": ncases, "checks": 2 * ncases, "exit_flags_reached_by_real_solves": dict(sorted(flags.items())),
                              "exit_flags_synthetic_only": [f for f in (0, 1, 2, 3, 4, 5, -2, -3, -4) if f not in flags],
                              "case_features": dict(sorted(feat.items())),
                              "case_features_real_solves_only": dict(sorted(feat_real.items())),
                              "failures_by_signature": counts, **stats}


def replay(payload):
    """re-run the case named in a replay file against the current tree"""
    dfols = core.import_dfols()
    rp = payload.get("replay", {})
    if "origin" not in rp:
        print("replay file names a broken obligation, nothing to execute:", payload.get("broken"))
        return 1
    s = rebuild(dfols, rp["origin"])
    if isinstance(s, str):
        print("replay: the case no longer yields a result object (%s)" % s)
        return 1
    fails = check_property(dfols, s, rp["replace_nan"])
    mine = [f for f in fails if f[0] == rp.get("signature", payload.get("signature"))]
    if not fails:
        print("replay: property holds on this input now")
        return 0
    for sig, what in (mine or fails):
        print("replay: still fails:", sig, what)
    return 1
