"""Layer G: the Jacobian un-scaling block at the end of solver.solve (C11), translated from /repo's AST on every run into
lean/DfolsVerif/Gen/Unscale.lean:

    if scaling_changes is not None and jacmin is not None:
        for i in range(n):
            jacmin[:, i] = jacmin[:, i] / scaling_changes[1][i]

as the entry-wise term `jacUnscaleEntry J shift scale r i` (row r, column i; scaling_changes = (shift, scale, ..)), with
the guard and the loop header as text.  Properties/C11.lean proves the term equal to the `unscaleJac` the un-scaling
theorems are about."""
import ast
import os
import core
from gen_exitsites import q


class Unsupported(Exception):
    pass


def is_col(e, var):
    return (isinstance(e, ast.Subscript) and isinstance(e.value, ast.Name) and e.value.id == "jacmin" and isinstance(e.slice, ast.Tuple)
            and len(e.slice.elts) == 2 and isinstance(e.slice.elts[0], ast.Slice) and e.slice.elts[0].lower is None
            and e.slice.elts[0].upper is None and e.slice.elts[0].step is None and isinstance(e.slice.elts[1], ast.Name) and e.slice.elts[1].id == var)


def expr(e, var):
    if is_col(e, var):
        return "J r i"
    if (isinstance(e, ast.Subscript) and isinstance(e.slice, ast.Name) and e.slice.id == var and isinstance(e.value, ast.Subscript)
            and isinstance(e.value.value, ast.Name) and e.value.value.id == "scaling_changes" and isinstance(e.value.slice, ast.Constant)):
        k = e.value.slice.value
        if k == 0:
            return "shift i"
        if k == 1:
            return "scale i"
        raise Unsupported("scaling_changes[%r]" % (k,))
    if isinstance(e, ast.BinOp) and isinstance(e.op, (ast.Add, ast.Sub, ast.Mult, ast.Div)):
        op = {ast.Add: "+", ast.Sub: "-", ast.Mult: "*", ast.Div: "/"}[type(e.op)]
        return "(%s %s %s)" % (expr(e.left, var), op, expr(e.right, var))
    raise Unsupported("expression " + ast.unparse(e))


def translate():
    tree = ast.parse(open(os.path.join(core.REPO, "dfols", "solver.py")).read())
    solve = [n for n in tree.body if isinstance(n, ast.FunctionDef) and n.name == "solve"][0]
    # every statement of solve() that stores into jacmin
    stores = []
    for n in ast.walk(solve):
        if isinstance(n, (ast.Assign, ast.AugAssign)):
            tg = n.targets if isinstance(n, ast.Assign) else [n.target]
            for t in tg:
                b = t
                while isinstance(b, (ast.Subscript, ast.Attribute)):
                    b = b.value
                if isinstance(t, (ast.Subscript, ast.Attribute)) and isinstance(b, ast.Name) and b.id == "jacmin":
                    stores.append(n)
    if len(stores) != 1:
        raise Unsupported("expected exactly one store into jacmin in solve(), found %d" % len(stores))
    st = stores[0]
    # locate it: top-level `if` of solve containing exactly `for i in range(n): <store>`
    for top in solve.body:
        if isinstance(top, ast.If) and any(st is x for x in ast.walk(top)):
            if top.orelse or len(top.body) != 1 or not isinstance(top.body[0], ast.For):
                raise Unsupported("shape of the un-scaling block changed")
            loop = top.body[0]
            if loop.orelse or len(loop.body) != 1 or loop.body[0] is not st or not isinstance(loop.target, ast.Name):
                raise Unsupported("shape of the un-scaling loop changed")
            var = loop.target.id
            if not (isinstance(st, ast.Assign) and len(st.targets) == 1 and is_col(st.targets[0], var)):
                raise Unsupported("store is not jacmin[:, %s] = ..." % var)
            # statements of solve() AFTER the block that (re)bind jacmin or call solve_main: a Jacobian adopted later would not be un-scaled
            later = []
            idx = solve.body.index(top)
            for after in solve.body[idx + 1:]:
                for n in ast.walk(after):
                    if isinstance(n, ast.Name) and n.id == "jacmin" and isinstance(n.ctx, ast.Store):
                        later.append("binds jacmin: " + ast.unparse(after)[:60])
                    if isinstance(n, ast.Call) and ast.unparse(n.func) == "solve_main":
                        later.append("calls solve_main: " + ast.unparse(after)[:60])
            return {"guard": ast.unparse(top.test), "loop": "for %s in %s" % (var, ast.unparse(loop.iter)), "entry": expr(st.value, var),
                    "stmt": ast.unparse(st), "later": sorted(set(later))}
    raise Unsupported("the store into jacmin is not inside a top-level if of solve()")


def regenerate(ctx=None):
    path = os.path.join(core.LEAN_DIR, "DfolsVerif", "Gen", "Unscale.lean")
    info = {}
    try:
        info = translate()
        defs = ["/-- `%s` — entry (r, i) of the returned Jacobian -/" % info["stmt"],
                "def jacUnscaleEntry {K : Type u} {μ : Type v} {ν : Type w} [Add K] [Sub K] [Mul K] [Div K] (J : μ → ν → K) (shift scale : ν → K) (r : μ) (i : ν) : K :=",
                "  " + info["entry"], "",
                "def jacUnscaleGuard : String := " + q(info["guard"]),
                "def jacUnscaleLoop : String := " + q(info["loop"]),
                "/-- statements of `solve` after the un-scaling block that bind `jacmin` again or start another run -/",
                "def jacBoundAfterUnscale : List String := [%s]" % ", ".join(q(x) for x in info["later"]), ""]
    except Exception as exc:
        if ctx is not None:
            ctx.broke("gen:unscale-translator", repr(exc))
        defs = ["-- TRANSLATION FAILED: %s" % repr(exc).replace("\n", " ")]
    content = "\n".join(["/- GENERATED by harness/gen_unscale.py from /repo's solver.py on every run — do not edit. -/",
                         "set_option linter.unusedVariables false", "universe u v w", "namespace Dfols.Gen", ""] + defs + ["end Dfols.Gen", ""])
    old = open(path).read() if os.path.exists(path) else None
    if old != content:
        open(path, "w").write(content)
    if ctx is not None:
        ctx.cov["jacobian_unscaling_block"] = info
    return info


if __name__ == "__main__":
    print(regenerate())
