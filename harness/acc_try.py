import numpy as np, core, trace, problems, collections, sys
dfols = core.import_dfols()
N=int(sys.argv[1]) if len(sys.argv)>1 else 100
lines=[]; meta=[]
for i in range(N):
    rng = np.random.default_rng([0, 99, i])
    prob = problems.rand_problem(rng)
    kw, d = problems.rand_config(rng, prob)
    t = trace.traced_solve(dfols, prob["f"], prob["x0"], alarm=5, **kw)
    lines.append("begin %d 0" % kw["maxfun"])
    for e in t.events: lines.append(trace.render(e))
    lines.append("end")
    meta.append((i,d,t))
out = core.run_driver(lines, main="AcceptMain.lean")
reps=[o for o in out if o]
cnt=collections.Counter()
for (i,d,t),r in zip(meta,reps):
    import re
    key=re.sub(r"nf=\d+ nx=\d+ groups=\d+","",r); key=re.sub(r"best=\S+","",key); key=re.sub(r"@\d+","",key); key=re.sub(r"runs=\d+","",key)
    cnt[key]+=1
    if "rej" in r and cnt[key]<=2: print(i, d, "\n   ", r, "exc=",t.exception)
for k,c in cnt.most_common(): print(c,k)
