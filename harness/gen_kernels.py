"""Layer G, real translation (not a hash): the scalar decision code of the trust-region radius / ratio logic is
translated from /repo's Python AST into Lean definitions over the operations record `RadOps F`
(lean/DfolsVerif/Gen/KernelFns.lean, regenerated on every run).  `Properties/C18.lean` / `C04.lean` prove by `rfl` that
the generated functions ARE the hand-written kernels the theorems are about, so the theorems are re-checked
against what the code says now; a harmless rewrite (renamed local, reordered independent lets that unfold to the
same term) keeps `rfl`, a changed constant / comparison / branch breaks it.

Translated sites
  controller.py  Controller.reduce_rho                      -> Gen.reduceRho
  controller.py  Controller.calculate_ratio (decision tail)  -> Gen.calcRatio
  controller.py  check_and_fix_geometry: self.delta = ...    -> Gen.geomDelta
  solver.py      safety-step reduction: control.delta = ...  -> Gen.safetyDelta
  solver.py      the delta update after calculate_ratio      -> Gen.trUpdate
  solver.py      the test guarding skip_kopt=False           -> Gen.mayReplaceKopt, Gen.skipKoptFalseGuards

The Python subset: assignments to locals and to self./control. {delta, rho}; if/elif/else; float literals;
* / ; < <= > >= on floats; min/max (two arguments); sqrt; params("...") for the names in PARAMS; None;
ExitInformation(EXIT_X, "...") (-> some <value of EXIT_X>); len(self.model.projections) (-> nproj).
Statements that assign neither a local nor a tracked attribute (logging, diagnostic_info.update_*, self.diffs,
self.last_successful_iter) are side effects outside the modelled state: they are dropped and listed in a comment.
Anything else makes the translation fail, which is reported as a broken obligation.
"""
import ast
import decimal
import os
import core

PARAMS = {"tr_radius.alpha1": "p.alpha1", "tr_radius.alpha2": "p.alpha2", "tr_radius.eta1": "p.eta1", "tr_radius.eta2": "p.eta2",
          "tr_radius.gamma_dec": "p.gammaDec", "growing.gamma_dec": "growGammaDec", "tr_radius.gamma_inc": "p.gammaInc",
          "tr_radius.gamma_inc_overline": "p.gammaIncOverline"}
TRACKED_ATTRS = {"delta", "rho", "rhoend"}
LEAN_KEYWORDS = {"at", "from", "end", "end_", "fun", "in", "let", "do", "then", "else", "if", "open", "def", "show", "have", "by", "with"}


class Unsupported(Exception):
    pass


def lean_name(n):
    return n + "_" if n in LEAN_KEYWORDS else n


def lit(v):
    d = decimal.Decimal(repr(float(v)))
    sign, digits, exp = d.as_tuple()
    if sign:
        raise Unsupported("negative literal %r" % v)
    m = int("".join(map(str, digits)))
    while exp < 0 and m % 10 == 0 and m != 0:
        m //= 10
        exp += 1
    if m == 0:
        return "(o.lit 0 0)"
    if exp >= 0:
        return "(o.lit %d 0)" % (m * 10 ** exp)
    return "(o.lit %d %d)" % (m, -exp)


class Tr:
    def __init__(self, consts, bools=()):
        self.consts = consts        # EXIT_* -> int
        self.bools = set(bools)     # names that are Python booleans (finished_growing)
        self.dropped = []

    # ---- expressions ---------------------------------------------------------------------------
    def var(self, node):
        if isinstance(node, ast.Name):
            return lean_name(node.id)
        if isinstance(node, ast.Attribute) and isinstance(node.value, ast.Name) and node.value.id in ("self", "control") and node.attr in TRACKED_ATTRS:
            return node.attr
        return None

    def expr(self, e):
        v = self.var(e)
        if v is not None:
            return v
        if isinstance(e, ast.Constant):
            if e.value is None:
                return "none"
            if isinstance(e.value, bool):
                raise Unsupported("bool literal")
            if isinstance(e.value, (int, float)):
                return lit(e.value)
            raise Unsupported("constant %r" % (e.value,))
        if isinstance(e, ast.BinOp):
            a, b = self.expr(e.left), self.expr(e.right)
            if isinstance(e.op, ast.Mult):
                return "(o.mul %s %s)" % (a, b)
            if isinstance(e.op, ast.Div):
                return "(o.div %s %s)" % (a, b)
            raise Unsupported("operator %s" % type(e.op).__name__)
        if isinstance(e, ast.Call):
            f = ast.unparse(e.func)
            if f == "params" and len(e.args) == 1 and isinstance(e.args[0], ast.Constant) and e.args[0].value in PARAMS:
                return PARAMS[e.args[0].value]
            if f in ("min", "max") and len(e.args) == 2 and not e.keywords:
                return "(o.%s %s %s)" % (f, self.expr(e.args[0]), self.expr(e.args[1]))
            if f == "sqrt" and len(e.args) == 1:
                return "(o.sqrt %s)" % self.expr(e.args[0])
            if f == "ExitInformation" and len(e.args) == 2 and isinstance(e.args[0], ast.Name) and e.args[0].id in self.consts:
                c = self.consts[e.args[0].id]
                return "(some %s)" % (str(c) if c >= 0 else "(%d)" % c)
            raise Unsupported("call %s" % ast.unparse(e))
        raise Unsupported("expression %s" % ast.unparse(e))

    def cond(self, t):
        if isinstance(t, ast.Name) and t.id in self.bools:
            return lean_name(t.id)
        if isinstance(t, ast.Compare) and len(t.ops) == 1:
            l, r, op = t.left, t.comparators[0], t.ops[0]
            if ast.unparse(l) == "len(self.model.projections)" and isinstance(r, ast.Constant) and isinstance(r.value, int):
                if isinstance(op, ast.Gt):
                    return "%d < nproj" % r.value
                raise Unsupported("projection-count test %s" % ast.unparse(t))
            a, b = self.expr(l), self.expr(r)
            if isinstance(op, ast.Lt):
                return "o.lt %s %s" % (a, b)
            if isinstance(op, ast.LtE):
                return "o.le %s %s" % (a, b)
            if isinstance(op, ast.Gt):
                return "o.lt %s %s" % (b, a)
            if isinstance(op, ast.GtE):
                return "o.le %s %s" % (b, a)
        raise Unsupported("condition %s" % ast.unparse(t))

    # ---- statements ----------------------------------------------------------------------------
    def assigned(self, stmts):
        """ordered list of modelled variables assigned anywhere in stmts"""
        out = []
        for s in stmts:
            if isinstance(s, ast.Assign):
                for t in s.targets:
                    v = self.var(t)
                    if v is not None and v not in out:
                        out.append(v)
            elif isinstance(s, ast.If):
                for v in self.assigned(s.body) + self.assigned(s.orelse):
                    if v not in out:
                        out.append(v)
        return out

    def relevant(self, s):
        if isinstance(s, ast.Assign):
            if len(s.targets) != 1:
                raise Unsupported("multiple targets: %s" % ast.unparse(s))
            return self.var(s.targets[0]) is not None
        if isinstance(s, ast.If):
            return bool(self.assigned([s]))
        if isinstance(s, (ast.Expr, ast.Return)):
            return False
        raise Unsupported("statement %s" % type(s).__name__)

    def block_value(self, stmts, outs, indent):
        """Lean expression computing the tuple `outs` after running stmts (a let-chain)"""
        lines = self.lets(stmts, indent)
        tup = outs[0] if len(outs) == 1 else "(" + ", ".join(outs) + ")"
        if not lines:
            return tup
        return "\n".join(lines) + "\n" + indent + tup

    def lets(self, stmts, indent):
        lines = []
        for s in stmts:
            if not self.relevant(s):
                if not isinstance(s, ast.Return):
                    self.dropped.append(ast.unparse(s).split("\n")[0][:120])
                continue
            if isinstance(s, ast.Assign):
                lines.append("%slet %s := %s" % (indent, self.var(s.targets[0]), self.expr(s.value)))
            else:
                outs = self.assigned([s])
                pat = outs[0] if len(outs) == 1 else "(" + ", ".join(outs) + ")"
                lines.append("%slet %s :=\n%s" % (indent, pat, self.ifexpr(s, outs, indent + "  ")))
        return lines

    def branch(self, stmts, outs, indent):
        rel = [s for s in stmts if self.relevant(s)]
        for s in stmts:
            if s not in rel and not isinstance(s, ast.Return):
                self.dropped.append(ast.unparse(s).split("\n")[0][:120])
        if len(rel) == 1 and isinstance(rel[0], ast.Assign) and len(outs) == 1:
            return indent + self.expr(rel[0].value)
        if len(rel) == 1 and isinstance(rel[0], ast.If) and self.assigned(rel) == outs:
            return self.ifexpr(rel[0], outs, indent)
        if not rel:
            return indent + (outs[0] if len(outs) == 1 else "(" + ", ".join(outs) + ")")
        return indent + "(\n" + self.block_value(rel, outs, indent + "  ") + ")"

    def ifexpr(self, s, outs, indent):
        c = self.cond(s.test)
        a = self.branch(s.body, outs, indent + "  ")
        b = self.branch(s.orelse, outs, indent + "  ")
        return "%sif %s then\n%s\n%selse\n%s" % (indent, c, a, indent, b)


def find_func(tree, name):
    for node in ast.walk(tree):
        if isinstance(node, ast.FunctionDef) and node.name == name:
            return node
    raise Unsupported("function %s not found" % name)


def stmt_lists(node):
    for n in ast.walk(node):
        for f in ("body", "orelse", "finalbody"):
            l = getattr(n, f, None)
            if isinstance(l, list) and l and isinstance(l[0], ast.stmt):
                yield l


def translate():
    """-> (list of (name, lean source) , dropped statements, guards)"""
    ctl = ast.parse(open(os.path.join(core.REPO, "dfols", "controller.py")).read())
    sol = ast.parse(open(os.path.join(core.REPO, "dfols", "solver.py")).read())
    consts = {}
    for node in ctl.body:
        if isinstance(node, ast.Assign) and len(node.targets) == 1 and isinstance(node.targets[0], ast.Name) and node.targets[0].id.startswith("EXIT_"):
            try:
                consts[node.targets[0].id] = int(ast.literal_eval(node.value))
            except Exception:
                pass
    defs, dropped = [], {}

    def emit(name, sig, ret, body_fn):
        tr = Tr(consts, bools=("finished_growing",))
        try:
            body = body_fn(tr)
            defs.append((name, "def %s %s : %s :=\n%s\n" % (name, sig, ret, body)))
        except Unsupported as exc:
            defs.append((name, "-- TRANSLATION FAILED for %s: %s\n" % (name, exc)))
        dropped[name] = tr.dropped

    # 1. reduce_rho
    def f1(tr):
        fn = find_func(ctl, "reduce_rho")
        return tr.block_value(fn.body, ["delta", "rho"], "  ")
    emit("reduceRho", "(p : TRParams F) (delta rho rhoend : F)", "F × F", f1)

    # 2. calculate_ratio: from the statement after `actual_reduction = ...` to the return
    def f2(tr):
        fn = find_func(ctl, "calculate_ratio")
        idx = [i for i, s in enumerate(fn.body) if isinstance(s, ast.Assign) and ast.unparse(s.targets[0]) == "actual_reduction"]
        if len(idx) != 1:
            raise Unsupported("actual_reduction assignment not found once")
        first = fn.body[0]
        if not (isinstance(first, ast.Assign) and ast.unparse(first) == "exit_info = None"):
            raise Unsupported("calculate_ratio does not start with exit_info = None")
        ret = fn.body[-1]
        if not (isinstance(ret, ast.Return) and ast.unparse(ret.value) == "(ratio, exit_info)"):
            raise Unsupported("calculate_ratio does not end with return ratio, exit_info")
        for s in fn.body[1:idx[0]]:
            # the prefix defines obj / pred_reduction / actual_reduction (inputs of the decision); it must not touch exit_info
            if "exit_info" in ast.unparse(s):
                raise Unsupported("exit_info assigned before the decision")
        tail = fn.body[idx[0] + 1:]
        return "  let exit_info : Option Int := none\n" + tr.block_value(tail, ["ratio", "exit_info"], "  ")
    emit("calcRatio", "(pred_reduction actual_reduction : F) (nproj : Nat)", "F × Option Int", f2)

    # 3./4. the two geometry reductions of delta (single assignments max(min(0.1*delta, 0.5*..), 1.5*rho))
    def single_assign(tree, fname, pred):
        hits = []
        for node in ast.walk(find_func(tree, fname)):
            if isinstance(node, ast.Assign) and pred(ast.unparse(node)):
                hits.append(node)
        if len(hits) != 1:
            raise Unsupported("%d candidate assignments in %s" % (len(hits), fname))
        return hits[0]

    def f3(tr):
        s = single_assign(ctl, "check_and_fix_geometry", lambda u: u.startswith("self.delta = "))
        return tr.block_value([s], ["delta"], "  ")
    emit("geomDelta", "(delta rho dist : F)", "F", f3)

    def f4(tr):
        s = single_assign(sol, "solve_main", lambda u: u.startswith("control.delta = ") and "distsq" in u)
        return tr.block_value([s], ["delta"], "  ")
    emit("safetyDelta", "(delta rho distsq : F)", "F", f4)

    # 5. delta update after calculate_ratio: statements from `if ratio < params('tr_radius.eta1')` up to `if ratio > 0.0`
    guards = []

    def f5(tr):
        main = find_func(sol, "solve_main")
        for l in stmt_lists(main):
            for i, s in enumerate(l):
                if isinstance(s, ast.If) and ast.unparse(s.test) == "ratio < params('tr_radius.eta1')":
                    j = i
                    while j < len(l) and not (isinstance(l[j], ast.If) and "ratio >" in ast.unparse(l[j].test) and "skip_kopt=False" in ast.unparse(l[j])):
                        j += 1
                    if j == len(l):
                        raise Unsupported("no `if ratio > ...` block with skip_kopt=False after the delta update")
                    guards.append(l[j].test)
                    return tr.block_value(l[i:j], ["delta"], "  ")
        raise Unsupported("delta update block not found")
    emit("trUpdate", "(p : TRParams F) (growGammaDec : F) (finished_growing : Bool) (ratio dnorm tau delta rho : F)", "F", f5)

    # 6. the gate in front of skip_kopt=False
    def f6(tr):
        if not guards:
            raise Unsupported("gate not found")
        return "  " + tr.cond(guards[0])
    emit("mayReplaceKopt", "(ratio : F)", "Bool", f6)

    # every call with skip_kopt=False and the tests that enclose it inside the main loop
    sites = []

    class W(ast.NodeVisitor):
        def __init__(self):
            self.tests = []

        def visit_If(self, node):
            self.tests.append(ast.unparse(node.test))
            for s in node.body:
                self.visit(s)
            self.tests.pop()
            for s in node.orelse:
                self.visit(s)

        def visit_Call(self, node):
            if any(k.arg == "skip_kopt" and ast.unparse(k.value) == "False" for k in node.keywords):
                sites.append((ast.unparse(node.func), [t for t in self.tests if "ratio" in t]))
            self.generic_visit(node)
    for tree in (ctl, sol):
        W().visit(tree)
    return defs, dropped, sites


def render(defs, dropped, sites):
    out = ["/- GENERATED by harness/gen_kernels.py from /repo's AST on every run — do not edit.",
           "   Python scalar decision code translated statement by statement into `RadOps F` terms. -/",
           "import DfolsVerif.Kernels.Radius", "namespace Dfols.Gen", "variable {F : Type} (o : RadOps F)", ""]
    for name, src in defs:
        for dline in dropped.get(name, []):
            out.append("-- dropped (no modelled state assigned): " + dline)
        out.append(src)
    out.append("/-- every call passing `skip_kopt=False`, with the enclosing tests that mention the ratio -/")
    out.append("def skipKoptFalseGuards : List (String × List String) := [" + ", ".join(
        '("%s", [%s])' % (f, ", ".join('"%s"' % t.replace('"', "'") for t in ts)) for f, ts in sites) + "]")
    out.append("\nend Dfols.Gen\n")
    return "\n".join(out)


def regenerate(ctx=None):
    path = os.path.join(core.LEAN_DIR, "DfolsVerif", "Gen", "KernelFns.lean")
    try:
        defs, dropped, sites = translate()
        content = render(defs, dropped, sites)
        failed = [n for n, s in defs if s.startswith("-- TRANSLATION FAILED")]
        if failed and ctx is not None:
            ctx.broke("gen:kernel-translator", {"untranslatable": failed, "detail": [s for n, s in defs if n in failed]})
    except Exception as exc:
        if ctx is not None:
            ctx.broke("gen:kernel-translator", repr(exc))
        content = "/- GENERATED: translation failed: %r -/\nimport DfolsVerif.Kernels.Radius\nnamespace Dfols.Gen\nend Dfols.Gen\n" % (exc,)
        defs = []
    old = open(path).read() if os.path.exists(path) else None
    if old != content:
        open(path, "w").write(content)
    return [n for n, _ in defs]


# ================================================================================================
# Model decisions (model.py): the four comparisons that decide which point is kept
# ================================================================================================
VAL_ATOMS = {"self.objval[k]": "objk", "self.objopt()": "objopt", "obj": "obj", "self.objsave": "objsave",
             "allow_kopt_update": "allow", "objmin": "objmin", "objmin2": "objmin2"}


def val_cond(e):
    """Python boolean expression over objective values -> Lean Bool over `Val` (IEEE comparisons, NaN-aware)"""
    u = ast.unparse(e)
    if isinstance(e, ast.Name) and u in VAL_ATOMS:
        return VAL_ATOMS[u]
    if isinstance(e, ast.BoolOp):
        vals = list(e.values)
        if isinstance(e.op, ast.Or) and isinstance(vals[0], ast.Compare) and len(vals[0].ops) == 1 and isinstance(vals[0].ops[0], ast.Is) \
                and ast.unparse(vals[0].comparators[0]) == "None" and ast.unparse(vals[0].left) in VAL_ATOMS and len(vals) > 1:
            v = VAL_ATOMS[ast.unparse(vals[0].left)]
            rest = " || ".join(val_cond(x) for x in vals[1:])
            return "(match %s with | none => true | some %s => (%s))" % (v, v, rest)
        op = " || " if isinstance(e.op, ast.Or) else " && "
        return "(" + op.join(val_cond(x) for x in vals) + ")"
    if isinstance(e, ast.UnaryOp) and isinstance(e.op, ast.Not):
        return "!" + val_cond(e.operand)
    if isinstance(e, ast.Compare) and len(e.ops) == 1:
        a, b = ast.unparse(e.left), ast.unparse(e.comparators[0])
        if a in VAL_ATOMS and b in VAL_ATOMS:
            if isinstance(e.ops[0], ast.Lt):
                return "Val.lt %s %s" % (VAL_ATOMS[a], VAL_ATOMS[b])
            if isinstance(e.ops[0], ast.LtE):
                return "Val.le %s %s" % (VAL_ATOMS[a], VAL_ATOMS[b])
            if isinstance(e.ops[0], ast.Gt):
                return "Val.lt %s %s" % (VAL_ATOMS[b], VAL_ATOMS[a])
            if isinstance(e.ops[0], ast.GtE):
                return "Val.le %s %s" % (VAL_ATOMS[b], VAL_ATOMS[a])
    if isinstance(e, ast.Call) and ast.unparse(e.func) == "np.isnan" and len(e.args) == 1 and ast.unparse(e.args[0]) in VAL_ATOMS:
        return "%s.isNaN" % VAL_ATOMS[ast.unparse(e.args[0])]
    raise Unsupported("objective-value condition %s" % u)


def translate_model():
    mod = ast.parse(open(os.path.join(core.REPO, "dfols", "model.py")).read())
    sol = ast.parse(open(os.path.join(core.REPO, "dfols", "solver.py")).read())
    out = []

    def the_if(fname, pred, tree=None):
        fn = find_func(tree or mod, fname)
        hits = [n for n in ast.walk(fn) if isinstance(n, ast.If) and pred(n)]
        if len(hits) != 1:
            raise Unsupported("%d candidate tests in %s" % (len(hits), fname))
        return hits[0]

    def emit(name, sig, get):
        try:
            node = get()
            out.append((name, "-- %s\ndef %s %s : Bool :=\n  %s\n" % (ast.unparse(node.test)[:200], name, sig, val_cond(node.test))))
        except Unsupported as exc:
            out.append((name, "-- TRANSLATION FAILED for %s: %s\n" % (name, exc)))

    sets_kopt = lambda n: any(isinstance(s, ast.Assign) and ast.unparse(s.targets[0]) == "self.kopt" for s in n.body)
    emit("changePointUpdatesKopt", "(allow : Bool) (objk objopt : Val)", lambda: the_if("change_point", sets_kopt))
    emit("addPointUpdatesKopt", "(obj objopt : Val)", lambda: the_if("add_new_point", sets_kopt))
    emit("savePointAccepts", "(objsave : Option Val) (obj : Val)",
         lambda: the_if("save_point", lambda n: any(isinstance(s, ast.Return) and ast.unparse(s.value) == "True" for s in n.body)))
    emit("finalPrefersCurrent", "(objsave : Option Val) (objopt : Val)",
         lambda: the_if("get_final_results", lambda n: any(isinstance(s, ast.Return) for s in n.body) and "objsave" in ast.unparse(n.test)))
    # solve(): which run's result survives a hard restart
    emit("restartMergeTakesNew", "(objmin2 objmin : Val)",
         lambda: the_if("solve", lambda n: "objmin2" in ast.unparse(n.test) and any("xmin2" in ast.unparse(s) for s in n.body), tree=sol))
    return out


def regenerate_model(ctx=None):
    path = os.path.join(core.LEAN_DIR, "DfolsVerif", "Gen", "ModelDecisions.lean")
    try:
        defs = translate_model()
        failed = [n for n, s in defs if s.startswith("-- TRANSLATION FAILED")]
        if failed and ctx is not None:
            ctx.broke("gen:model-decisions-translator", {"untranslatable": failed, "detail": [s for n, s in defs if n in failed]})
    except Exception as exc:
        if ctx is not None:
            ctx.broke("gen:model-decisions-translator", repr(exc))
        defs = []
    content = "\n".join(["/- GENERATED by harness/gen_kernels.py from /repo's dfols/model.py on every run — do not edit.",
                         "   The tests deciding which point Model keeps, as Bool functions over `Val` (IEEE/NaN-aware comparisons). -/",
                         "import DfolsVerif.Val", "namespace Dfols.Gen", ""] + [s for _, s in defs] + ["end Dfols.Gen", ""])
    old = open(path).read() if os.path.exists(path) else None
    if old != content:
        open(path, "w").write(content)
    return [n for n, _ in defs]


# ================================================================================================
# Elementwise NumPy code that produces evaluation points (C01): ClipOps terms
# ================================================================================================
CLIP_ATOMS = {"self.xl": "xl", "self.xu": "xu", "self.xbase": "xbase", "self.sl": "sl", "self.su": "su", "x": "x",
              "self.points[k, :]": "x", "self.points[k, :].copy()": "x", "shift": "shift", "scale": "scale", "x_scaled": "x",
              "x_raw": "x_raw", "scaling_changes[2]": "xl", "scaling_changes[3]": "xu", "x0": "x0", "xl": "xl", "xu": "xu"}


def clip_expr(e):
    u = ast.unparse(e)
    if u in CLIP_ATOMS:
        return CLIP_ATOMS[u]
    if isinstance(e, ast.Call) and ast.unparse(e.func) in ("np.minimum", "np.maximum") and len(e.args) == 2 and not e.keywords:
        return "(o.%s %s %s)" % ("min" if ast.unparse(e.func) == "np.minimum" else "max", clip_expr(e.args[0]), clip_expr(e.args[1]))
    if isinstance(e, ast.BinOp) and isinstance(e.op, ast.Add):
        return "(o.add %s %s)" % (clip_expr(e.left), clip_expr(e.right))
    if isinstance(e, ast.BinOp) and isinstance(e.op, ast.Mult):
        return "(o.mul %s %s)" % (clip_expr(e.left), clip_expr(e.right))
    raise Unsupported("elementwise expression %s" % u)


def translate_clip():
    mod = ast.parse(open(os.path.join(core.REPO, "dfols", "model.py")).read())
    utl = ast.parse(open(os.path.join(core.REPO, "dfols", "util.py")).read())
    sol = ast.parse(open(os.path.join(core.REPO, "dfols", "solver.py")).read())
    out = []

    def emit(name, sig, fn):
        try:
            out.append((name, "def %s %s : F :=\n%s\n" % (name, sig, fn())))
        except Unsupported as exc:
            out.append((name, "-- TRANSLATION FAILED for %s: %s\n" % (name, exc)))

    def last_return(fn):
        r = fn.body[-1]
        if not isinstance(r, ast.Return):
            raise Unsupported("%s does not end with a return" % fn.name)
        return r.value

    # Model.as_absolute_coordinates: `if self.projections: return dykstra(...)` then the bound-constrained return
    def f_asabs():
        fn = find_func(mod, "as_absolute_coordinates")
        stm = [s for s in fn.body if not (isinstance(s, ast.Expr) and isinstance(s.value, ast.Constant))]
        if not (len(stm) == 2 and isinstance(stm[0], ast.If) and ast.unparse(stm[0].test) == "self.projections"
                and len(stm[0].body) == 1 and isinstance(stm[0].body[0], ast.Return) and "dykstra(" in ast.unparse(stm[0].body[0]) and not stm[0].orelse):
            raise Unsupported("as_absolute_coordinates: unexpected shape")
        return "  " + clip_expr(last_return(fn))
    emit("asAbs", "(xl xu xbase sl su x : F)", f_asabs)

    # Model.xpt: both branches
    def xpt_parts():
        fn = find_func(mod, "xpt")
        ifs = [s for s in fn.body if isinstance(s, ast.If)]
        if len(ifs) != 1 or ast.unparse(ifs[0].test) != "not abs_coordinates":
            raise Unsupported("xpt: unexpected shape")
        rel = ifs[0].body
        ab = ifs[0].orelse
        if not (len(rel) == 1 and isinstance(rel[0], ast.Return)):
            raise Unsupported("xpt: relative branch")
        ab = [s for s in ab if not (isinstance(s, ast.Expr) and isinstance(s.value, ast.Constant))]
        if not (len(ab) == 2 and isinstance(ab[0], ast.If) and ast.unparse(ab[0].test) == "self.projections" and isinstance(ab[1], ast.Return)):
            raise Unsupported("xpt: absolute branch")
        return rel[0].value, ab[1].value
    emit("xptRel", "(sl su x : F)", lambda: "  " + clip_expr(xpt_parts()[0]))
    emit("xptAbs", "(xl xu xbase sl su x : F)", lambda: "  " + clip_expr(xpt_parts()[1]))

    # util.remove_scaling with the 4-tuple (shift, scale, xl, xu) that solve() builds
    def f_rs():
        fn = find_func(utl, "remove_scaling")
        b = fn.body
        if not (isinstance(b[0], ast.If) and ast.unparse(b[0].test) == "scaling_changes is None"
                and ast.unparse(b[1]) == "shift, scale = (scaling_changes[0], scaling_changes[1])"
                and isinstance(b[2], ast.Assign) and ast.unparse(b[2].targets[0]) == "x_raw"
                and isinstance(b[3], ast.If) and ast.unparse(b[3].test) == "len(scaling_changes) > 2" and len(b[3].body) == 1
                and isinstance(b[3].body[0], ast.Assign) and ast.unparse(b[3].body[0].targets[0]) == "x_raw" and not b[3].orelse
                and isinstance(b[4], ast.Return) and ast.unparse(b[4].value) == "x_raw"):
            raise Unsupported("remove_scaling: unexpected shape")
        return "  let x_raw := %s\n  let x_raw := %s\n  x_raw" % (clip_expr(b[2].value), clip_expr(b[3].body[0].value))
    emit("removeScaling", "(shift scale xl xu x : F)", f_rs)

    # solve(): x0 pushed into the box by two masked assignments
    def f_clamp():
        fn = find_func(sol, "solve")
        b = fn.body
        lines = []
        for i, s in enumerate(b):
            if isinstance(s, ast.Assign) and ast.unparse(s.targets[0]) == "idx" and isinstance(s.value, ast.Compare) and len(s.value.ops) == 1:
                # idx = (A op B) ... x0[idx] = S[idx]
                nxt = [t for t in b[i + 1:i + 4] if isinstance(t, ast.Assign) and ast.unparse(t.targets[0]) == "x0[idx]"]
                if len(nxt) != 1:
                    raise Unsupported("masked assignment after %s" % ast.unparse(s))
                src = ast.unparse(nxt[0].value)
                if not src.endswith("[idx]") or src[:-5] not in CLIP_ATOMS:
                    raise Unsupported("masked source %s" % src)
                a, c = clip_expr(s.value.left), clip_expr(s.value.comparators[0])
                if isinstance(s.value.ops[0], ast.Lt):
                    cond = "o.lt %s %s" % (a, c)
                elif isinstance(s.value.ops[0], ast.Gt):
                    cond = "o.lt %s %s" % (c, a)
                else:
                    raise Unsupported("mask %s" % ast.unparse(s.value))
                lines.append("  let x0 := if %s then %s else x0" % (cond, CLIP_ATOMS[src[:-5]]))
        if len(lines) != 2:
            raise Unsupported("%d masked assignments to x0 in solve()" % len(lines))
        return "\n".join(lines) + "\n  x0"
    emit("clampX0", "(xl xu x0 : F)", f_clamp)

    # solve(): how the scaling tuple handed to remove_scaling is built (text), and apply_scaling
    try:
        fn = find_func(sol, "solve")
        def guarded_by_flag(t):     # `scaling_within_bounds` alone, or a conjunction that starts with it
            return ast.unparse(t) == "scaling_within_bounds" or (
                isinstance(t, ast.BoolOp) and isinstance(t.op, ast.And) and ast.unparse(t.values[0]) == "scaling_within_bounds")
        blk = [st for st in fn.body if isinstance(st, ast.If) and guarded_by_flag(st.test) and not st.orelse
               and any("scaling_changes" in ast.unparse(b) for b in st.body)]
        if len(blk) != 1:
            raise Unsupported("%d `if scaling_within_bounds:` blocks building scaling_changes" % len(blk))
        i = fn.body.index(blk[0])
        lines = ["if %s:" % ast.unparse(blk[0].test)] + [ast.unparse(b) for b in blk[0].body]
        for st in fn.body[i + 1:i + 4]:
            lines.append(ast.unparse(st))
        ap = find_func(utl, "apply_scaling")
        lines.append("apply_scaling: " + " ; ".join(ast.unparse(b).replace("\n", " ") for b in ap.body))
        out.append(("scalingSetup", "/-- the statements of solve() that build `scaling_changes` and scale x0 / the bounds, and apply_scaling -/\ndef scalingSetup : List String := [%s]\n"
                    % ", ".join('"%s"' % t.replace('"', "'") for t in lines)))
    except Unsupported as exc:
        out.append(("scalingSetup", "-- TRANSLATION FAILED for scalingSetup: %s\n" % exc))
    return out


def regenerate_clip(ctx=None):
    path = os.path.join(core.LEAN_DIR, "DfolsVerif", "Gen", "ClipFns.lean")
    try:
        defs = translate_clip()
        failed = [n for n, s in defs if s.startswith("-- TRANSLATION FAILED")]
        if failed and ctx is not None:
            ctx.broke("gen:clip-translator", {"untranslatable": failed, "detail": [s for n, s in defs if n in failed]})
    except Exception as exc:
        if ctx is not None:
            ctx.broke("gen:clip-translator", repr(exc))
        defs = []
    content = "\n".join(["/- GENERATED by harness/gen_kernels.py from /repo's model.py / util.py / solver.py on every run — do not edit.",
                         "   Elementwise NumPy code that produces the points handed to the objective, as `ClipOps F` terms. -/",
                         "import DfolsVerif.Kernels.Clip", "namespace Dfols.Gen", "variable {F : Type} (o : ClipOps F)", ""]
                        + [s for _, s in defs] + ["end Dfols.Gen", ""])
    old = open(path).read() if os.path.exists(path) else None
    if old != content:
        open(path, "w").write(content)
    return [n for n, _ in defs]


# ================================================================================================
# util.dykstra / pball / pbox (C09, C15): loop body as Dykstra.Ops terms, loop skeleton as text
# ================================================================================================
def translate_dykstra():
    utl = ast.parse(open(os.path.join(core.REPO, "dfols", "util.py")).read())
    out = []
    fn = find_func(utl, "dykstra")
    wh = [s for s in fn.body if isinstance(s, ast.While)]
    if len(wh) != 1:
        raise Unsupported("dykstra: expected one while loop")
    fors = [s for s in wh[0].body if isinstance(s, ast.For)]
    if len(fors) != 1:
        raise Unsupported("dykstra: expected one for loop in the while body")
    f = fors[0]
    if ast.unparse(f.target) != "i" or ast.unparse(f.iter) not in ("range(0, p)", "range(p)"):
        raise Unsupported("dykstra: for header %s" % ast.unparse(f.iter))
    atoms = {"x": "x", "prev_x": "prev_x", "prev_y": "prev_y", "y[i, :]": "y", "x.copy()": "x", "y[i, :].copy()": "y"}

    def vexpr(e):
        u = ast.unparse(e)
        if u in atoms:
            return atoms[u]
        if isinstance(e, ast.BinOp) and isinstance(e.op, ast.Sub):
            return "(o.sub %s %s)" % (vexpr(e.left), vexpr(e.right))
        if isinstance(e, ast.Call) and ast.unparse(e.func) == "P[i]" and len(e.args) == 1:
            return "(P %s)" % vexpr(e.args[0])
        raise Unsupported("dykstra body expression %s" % u)
    lines, term = [], None
    for st in f.body:
        if isinstance(st, ast.Assign) and len(st.targets) == 1 and ast.unparse(st.targets[0]) in ("x", "prev_x", "prev_y", "y[i, :]"):
            lines.append("  let %s := %s" % (atoms[ast.unparse(st.targets[0])], vexpr(st.value)))
        elif isinstance(st, ast.AugAssign) and ast.unparse(st.target) == "cI" and isinstance(st.op, ast.Add):
            v = st.value
            if not (isinstance(v, ast.BinOp) and isinstance(v.op, ast.Pow) and ast.unparse(v.right) == "2" and isinstance(v.left, ast.Call)
                    and ast.unparse(v.left.func) == "np.linalg.norm" and len(v.left.args) == 1 and term is None):
                raise Unsupported("dykstra: stop-condition term %s" % ast.unparse(st))
            term = "(o.normSq %s)" % vexpr(v.left.args[0])
        else:
            raise Unsupported("dykstra body statement %s" % ast.unparse(st))
    if term is None:
        raise Unsupported("dykstra: no cI update")
    out.append(("dykstraBody", "def dykstraBody {V S : Type} (o : Dykstra.Ops V S) (P : V → V) (x y : V) : V × V × S :=\n%s\n  (x, y, %s)\n" % ("\n".join(lines), term)))
    # the skeleton around the body
    skel = []
    for st in fn.body:
        if isinstance(st, ast.While):
            skel.append("while " + ast.unparse(st.test))
            for t in st.body:
                skel.append("  for i in %s: <body>" % ast.unparse(t.iter) if isinstance(t, ast.For) else "  " + ast.unparse(t))
        else:
            skel.append(ast.unparse(st))
    skel.append("signature " + ast.unparse(fn.args))
    out.append(("dykstraSkeleton", "def dykstraSkeleton : List String := [%s]\n" % ", ".join('"%s"' % t.replace('"', "'") for t in skel)))
    # pball / pbox
    pb = find_func(utl, "pball")
    e = pb.body[-1].value
    batoms = {"x": "x", "c": "c", "r": "r"}

    def bexpr(e):
        u = ast.unparse(e)
        if u in batoms:
            return batoms[u]
        if isinstance(e, ast.BinOp) and isinstance(e.op, ast.Add):
            return "(b.add %s %s)" % (bexpr(e.left), bexpr(e.right))
        if isinstance(e, ast.BinOp) and isinstance(e.op, ast.Sub):
            return "(b.sub %s %s)" % (bexpr(e.left), bexpr(e.right))
        if isinstance(e, ast.BinOp) and isinstance(e.op, ast.Mult):
            return "(b.smul %s %s)" % (bexpr(e.left), bexpr(e.right))
        if isinstance(e, ast.BinOp) and isinstance(e.op, ast.Div):
            return "(b.div %s %s)" % (bexpr(e.left), bexpr(e.right))
        if isinstance(e, ast.Call) and ast.unparse(e.func) == "np.linalg.norm" and len(e.args) == 1:
            return "(b.norm %s)" % bexpr(e.args[0])
        if isinstance(e, ast.Call) and ast.unparse(e.func) == "np.max" and len(e.args) == 1 and isinstance(e.args[0], ast.List) and len(e.args[0].elts) == 2:
            return "(b.max %s %s)" % (bexpr(e.args[0].elts[0]), bexpr(e.args[0].elts[1]))
        raise Unsupported("pball expression %s" % u)
    try:
        out.append(("pball", "def pball {V S : Type} (b : Dykstra.BallOps V S) (x c : V) (r : S) : V :=\n  %s\n" % bexpr(e)))
    except Unsupported as exc:
        out.append(("pball", "-- TRANSLATION FAILED for pball: %s\n" % exc))
    px = find_func(utl, "pbox")
    u = ast.unparse(px.body[-1].value)
    out.append(("pboxSrc", 'def pboxSrc : String := "%s"\n' % u))
    return out


def regenerate_dykstra(ctx=None):
    path = os.path.join(core.LEAN_DIR, "DfolsVerif", "Gen", "DykstraFns.lean")
    try:
        defs = translate_dykstra()
        failed = [n for n, s in defs if s.startswith("-- TRANSLATION FAILED")]
        if failed and ctx is not None:
            ctx.broke("gen:dykstra-translator", {"untranslatable": failed})
    except Exception as exc:
        if ctx is not None:
            ctx.broke("gen:dykstra-translator", repr(exc))
        defs = [("failed", "-- TRANSLATION FAILED: %r\n" % (exc,))]
    content = "\n".join(["/- GENERATED by harness/gen_kernels.py from /repo's dfols/util.py on every run — do not edit. -/",
                         "import DfolsVerif.Kernels.Dykstra", "namespace Dfols.Gen", ""] + [s for _, s in defs] + ["end Dfols.Gen", ""])
    old = open(path).read() if os.path.exists(path) else None
    if old != content:
        open(path, "w").write(content)
    return [n for n, _ in defs]


# ================================================================================================
# The two sampling loops (C02): loop bodies and preludes as EvalLoop.LoopSt transformers
# ================================================================================================
LOOP_FIELDS = {"self.nf": "nf", "nf": "nf", "self.nx": "nx", "nx": "nx", "num_samples_run": "runs", "incremented_nx": "incremented"}
LOOP_PARAMS = {"self.maxfun": "maxfun", "maxfun": "maxfun", "nf_so_far": "nfSoFar", "nx_so_far": "nxSoFar"}


def _nat_expr(e, cur):
    """Nat expression over loop fields (read from the current state variable `cur`) and parameters"""
    u = ast.unparse(e)
    if u in LOOP_FIELDS:
        return "%s.%s" % (cur, LOOP_FIELDS[u]) if cur else LOOP_FIELDS[u]
    if u in LOOP_PARAMS:
        return LOOP_PARAMS[u]
    if isinstance(e, ast.Constant) and isinstance(e.value, int) and not isinstance(e.value, bool):
        return str(e.value)
    if isinstance(e, ast.BinOp) and isinstance(e.op, ast.Add):
        return "%s + %s" % (_nat_expr(e.left, cur), _nat_expr(e.right, cur))
    raise Unsupported("integer expression %s" % u)


def _is_eval_call(st):
    return (isinstance(st, ast.Assign) and isinstance(st.value, ast.Call)
            and ast.unparse(st.value.func) == "eval_least_squares_with_regularisation")


def _eval_call_fields(st, consts):
    kws = {k.arg: k.value for k in st.value.keywords}
    if "eval_num" not in kws or "pt_num" not in kws:
        raise Unsupported("evaluation call without eval_num/pt_num")
    return kws["eval_num"], kws["pt_num"], ast.unparse(st.value.args[1]) if len(st.value.args) > 1 else "?"


def _loop_body(stmts, consts):
    """-> Lean term (LoopSt -> LoopSt x Bool), and the list of point-argument texts of the evaluation calls"""
    pts = []

    def go(sts, indent):
        if not sts:
            return indent + "(s, false)"
        st, rest = sts[0], sts[1:]
        if isinstance(st, ast.If) and st.body and isinstance(st.body[-1], ast.Break) and not st.orelse:
            t = st.test
            if not (isinstance(t, ast.Compare) and len(t.ops) == 1 and isinstance(t.ops[0], ast.GtE)):
                raise Unsupported("break guard %s" % ast.unparse(t))
            a, b = _nat_expr(t.left, "s"), _nat_expr(t.comparators[0], "s")
            assigns = st.body[:-1]
            if not (len(assigns) == 1 and isinstance(assigns[0], ast.Assign) and ast.unparse(assigns[0].targets[0]) == "exit_info"
                    and isinstance(assigns[0].value, ast.Call) and ast.unparse(assigns[0].value.func) == "ExitInformation"
                    and ast.unparse(assigns[0].value.args[0]) in consts):
                raise Unsupported("break branch %s" % ast.unparse(st))
            flag = consts[ast.unparse(assigns[0].value.args[0])]
            return "%sif %s ≥ %s then\n%s  ({ s with exit := some %s }, true)\n%selse\n%s" % (
                indent, a, b, indent, flag if flag >= 0 else "(%d)" % flag, indent, go(rest, indent + "  "))
        if isinstance(st, ast.AugAssign) and isinstance(st.op, ast.Add) and ast.unparse(st.target) in LOOP_FIELDS:
            f = LOOP_FIELDS[ast.unparse(st.target)]
            return "%slet s := { s with %s := s.%s + %s }\n%s" % (indent, f, f, _nat_expr(st.value, "s"), go(rest, indent))
        if isinstance(st, ast.If) and isinstance(st.test, ast.UnaryOp) and isinstance(st.test.op, ast.Not) \
                and ast.unparse(st.test.operand) in LOOP_FIELDS and not st.orelse:
            fl = LOOP_FIELDS[ast.unparse(st.test.operand)]
            ups = []
            for b in st.body:
                if isinstance(b, ast.AugAssign) and isinstance(b.op, ast.Add) and ast.unparse(b.target) in LOOP_FIELDS:
                    f = LOOP_FIELDS[ast.unparse(b.target)]
                    ups.append("%s := s.%s + %s" % (f, f, _nat_expr(b.value, "s")))
                elif isinstance(b, ast.Assign) and ast.unparse(b.targets[0]) in LOOP_FIELDS and ast.unparse(b.value) in ("True", "False"):
                    ups.append("%s := %s" % (LOOP_FIELDS[ast.unparse(b.targets[0])], ast.unparse(b.value).lower()))
                else:
                    raise Unsupported("statement under `if not %s`: %s" % (fl, ast.unparse(b)))
            return "%slet s := if !s.%s then { s with %s } else s\n%s" % (indent, fl, ", ".join(ups), go(rest, indent))
        if _is_eval_call(st):
            en, pn, pt = _eval_call_fields(st, consts)
            pts.append(pt)
            return "%slet s := { s with calls := s.calls ++ [(%s, %s)] }\n%s" % (indent, _nat_expr(en, "s"), _nat_expr(pn, "s"), go(rest, indent))
        raise Unsupported("loop statement %s" % ast.unparse(st).split("\n")[0])
    return go(stmts, "  "), pts


def translate_loops():
    ctl = ast.parse(open(os.path.join(core.REPO, "dfols", "controller.py")).read())
    sol = ast.parse(open(os.path.join(core.REPO, "dfols", "solver.py")).read())
    consts = {}
    for node in ctl.body:
        if isinstance(node, ast.Assign) and len(node.targets) == 1 and isinstance(node.targets[0], ast.Name) and node.targets[0].id.startswith("EXIT_"):
            try:
                consts[node.targets[0].id] = int(ast.literal_eval(node.value))
            except Exception:
                pass
    out, pts_all = [], {}

    def emit(name, fn):
        try:
            out.append((name, fn()))
        except Unsupported as exc:
            out.append((name, "-- TRANSLATION FAILED for %s: %s\n" % (name, exc)))

    # evaluate_objective
    eo = find_func(ctl, "evaluate_objective")
    fors = [s for s in eo.body if isinstance(s, ast.For)]

    def f_eo():
        if len(fors) != 1 or ast.unparse(fors[0].iter) != "range(number_of_samples)":
            raise Unsupported("evaluate_objective: loop header")
        body, pts = _loop_body(fors[0].body, consts)
        pts_all["evalObj"] = pts
        return "def evalObjBody (maxfun : Nat) (s : EvalLoop.LoopSt) : EvalLoop.LoopSt × Bool :=\n%s\n" % body
    emit("evalObjBody", f_eo)

    def f_eo_init():
        pre = eo.body[:eo.body.index(fors[0])]
        vals = {"runs": None, "incremented": None, "exit": None}
        for st in pre:
            if isinstance(st, ast.Assign) and len(st.targets) == 1:
                t, v = ast.unparse(st.targets[0]), ast.unparse(st.value)
                if t == "num_samples_run":
                    vals["runs"] = _nat_expr(st.value, None)
                elif t == "incremented_nx" and v in ("True", "False"):
                    vals["incremented"] = v.lower()
                elif t == "exit_info" and v == "None":
                    vals["exit"] = "none"
                elif t in ("rvec_list", "obj_list"):
                    continue
                else:
                    raise Unsupported("evaluate_objective prelude %s" % ast.unparse(st))
            elif isinstance(st, ast.Expr) and isinstance(st.value, ast.Constant):
                continue
            else:
                raise Unsupported("evaluate_objective prelude %s" % ast.unparse(st))
        if None in vals.values():
            raise Unsupported("evaluate_objective prelude incomplete: %s" % vals)
        return ("def evalObjInit (nf nx : Nat) : EvalLoop.LoopSt :=\n  { nf := nf, nx := nx, incremented := %s, runs := %s, exit := %s, calls := [] }\n"
                % (vals["incremented"], vals["runs"], vals["exit"]))
    emit("evalObjInit", f_eo_init)

    # the block at x0 in solve_main
    sm = find_func(sol, "solve_main")
    top = [s for s in sm.body if isinstance(s, ast.If) and ast.unparse(s.test) == "r0_avg_old is None"]

    def x0_parts():
        if len(top) != 1:
            raise Unsupported("solve_main: `if r0_avg_old is None` block")
        blk = top[0].body
        f = [s for s in blk if isinstance(s, ast.For)]
        if len(f) != 1 or ast.unparse(f[0].iter) != "range(1, number_of_samples)":
            raise Unsupported("solve_main: x0 loop header")
        return blk, f[0]

    def f_x0():
        blk, f = x0_parts()
        body, pts = _loop_body(f.body, consts)
        pts_all["x0"] = pts
        return "def x0Body (maxfun : Nat) (s : EvalLoop.LoopSt) : EvalLoop.LoopSt × Bool :=\n%s\n" % body
    emit("x0Body", f_x0)

    def f_x0_init():
        blk, f = x0_parts()
        pre = blk[:blk.index(f)]
        vals = {}
        calls = []
        for st in pre:
            if _is_eval_call(st):
                en, pn, pt = _eval_call_fields(st, consts)
                calls.append("(%s, %s)" % (vals.get(LOOP_FIELDS.get(ast.unparse(en), "?"), "?"), vals.get(LOOP_FIELDS.get(ast.unparse(pn), "?"), "?")))
                pts_all.setdefault("x0", []).append(pt)
            elif isinstance(st, ast.Assign) and len(st.targets) == 1:
                t = ast.unparse(st.targets[0])
                if t in LOOP_FIELDS:
                    vals[LOOP_FIELDS[t]] = _nat_expr(st.value, None)
                elif t == "exit_info" and ast.unparse(st.value) == "None":
                    vals["exit"] = "none"
                elif t in ("number_of_samples", "m", "rvec_list", "obj_list", "rvec_list[0, :]", "obj_list[0]"):
                    continue
                else:
                    raise Unsupported("x0 prelude %s" % ast.unparse(st))
            else:
                raise Unsupported("x0 prelude %s" % ast.unparse(st).split("\n")[0])
        need = ("nf", "nx", "runs", "exit")
        if any(k not in vals for k in need) or len(calls) != 1:
            raise Unsupported("x0 prelude incomplete: %s / %d calls" % (vals, len(calls)))
        return ("def x0Init (nfSoFar nxSoFar : Nat) : EvalLoop.LoopSt :=\n  { nf := %s, nx := %s, incremented := true, runs := %s, exit := %s, calls := [%s] }\n"
                % (vals["nf"], vals["nx"], vals["runs"], vals["exit"], calls[0]))
    emit("x0Init", f_x0_init)
    out.append(("samplePointArgs", "/-- the point argument of every evaluation call of the two blocks (the same expression on every pass) -/\ndef samplePointArgs : List (String × List String) := [%s]\n"
                % ", ".join('("%s", [%s])' % (k, ", ".join('"%s"' % p for p in v)) for k, v in sorted(pts_all.items()))))
    return out


def regenerate_loops(ctx=None):
    path = os.path.join(core.LEAN_DIR, "DfolsVerif", "Gen", "EvalLoopFns.lean")
    try:
        defs = translate_loops()
        failed = [n for n, s in defs if s.startswith("-- TRANSLATION FAILED")]
        if failed and ctx is not None:
            ctx.broke("gen:loop-translator", {"untranslatable": failed, "detail": [s for n, s in defs if n in failed]})
    except Exception as exc:
        if ctx is not None:
            ctx.broke("gen:loop-translator", repr(exc))
        defs = [("failed", "-- TRANSLATION FAILED: %r\n" % (exc,))]
    content = "\n".join(["/- GENERATED by harness/gen_kernels.py from /repo's controller.py / solver.py on every run — do not edit.",
                         "   The two sampling loops that spend the evaluation budget, as transformers of EvalLoop.LoopSt. -/",
                         "import DfolsVerif.Kernels.EvalLoop", "namespace Dfols.Gen", ""] + [s for _, s in defs] + ["end Dfols.Gen", ""])
    old = open(path).read() if os.path.exists(path) else None
    if old != content:
        open(path, "w").write(content)
    return [n for n, _ in defs]


# ================================================================================================
# Restart guards (C02, C10): integer / boolean decisions as Lean functions over Int and Bool
# ================================================================================================
GUARD_INTS = {"nruns_so_far": "nrunsSoFar", "self.last_successful_run": "lastSuccessfulRun", "self.nf": "nf", "self.maxfun": "maxfun",
              "nf": "nf", "maxfun": "maxfun", "nruns": "nruns", "last_successful_run": "lastSuccessfulRun",
              "params('restarts.max_unsuccessful_restarts')": "maxUnsucc", "m": "m", "len(x0)": "n"}
GUARD_BOOLS = {"params('restarts.use_restarts')": "useRestarts", "params('restarts.use_soft_restarts')": "useSoft",
               "exit_info.able_to_do_restart()": "able", "ok_to_do_restart": "okToDoRestart"}


def _gint(e):
    u = ast.unparse(e)
    if u in GUARD_INTS:
        return GUARD_INTS[u]
    if isinstance(e, ast.BinOp) and isinstance(e.op, ast.Sub):
        return "(%s - %s)" % (_gint(e.left), _gint(e.right))
    if isinstance(e, ast.BinOp) and isinstance(e.op, ast.Add):
        return "(%s + %s)" % (_gint(e.left), _gint(e.right))
    if isinstance(e, ast.Constant) and isinstance(e.value, int) and not isinstance(e.value, bool):
        return "%d" % e.value
    raise Unsupported("integer expression %s" % u)


def _gbool(e):
    u = ast.unparse(e)
    if u in GUARD_BOOLS:
        return GUARD_BOOLS[u]
    if isinstance(e, ast.BoolOp):
        op = " && " if isinstance(e.op, ast.And) else " || "
        return "(" + op.join(_gbool(v) for v in e.values) + ")"
    if isinstance(e, ast.UnaryOp) and isinstance(e.op, ast.Not):
        return "!" + _gbool(e.operand)
    if isinstance(e, ast.Compare) and len(e.ops) == 1:
        a, b = _gint(e.left), _gint(e.comparators[0])
        o = e.ops[0]
        if isinstance(o, ast.Lt):
            return "decide (%s < %s)" % (a, b)
        if isinstance(o, ast.LtE):
            return "decide (%s ≤ %s)" % (a, b)
        if isinstance(o, ast.Gt):
            return "decide (%s < %s)" % (b, a)
        if isinstance(o, ast.GtE):
            return "decide (%s ≤ %s)" % (b, a)
    raise Unsupported("boolean expression %s" % u)


def translate_guards():
    ctl = ast.parse(open(os.path.join(core.REPO, "dfols", "controller.py")).read())
    sol = ast.parse(open(os.path.join(core.REPO, "dfols", "solver.py")).read())
    consts = {}
    for node in ctl.body:
        if isinstance(node, ast.Assign) and len(node.targets) == 1 and isinstance(node.targets[0], ast.Name) and node.targets[0].id.startswith("EXIT_"):
            try:
                consts[node.targets[0].id] = int(ast.literal_eval(node.value))
            except Exception:
                pass
    out = []

    def emit(name, fn):
        try:
            out.append((name, fn()))
        except Unsupported as exc:
            out.append((name, "-- TRANSLATION FAILED for %s: %s\n" % (name, exc)))

    def exit_of(call):
        if not (isinstance(call, ast.Call) and ast.unparse(call.func) == "ExitInformation" and ast.unparse(call.args[0]) in consts
                and isinstance(call.args[1], ast.Constant)):
            raise Unsupported("exit construction %s" % ast.unparse(call))
        c = consts[ast.unparse(call.args[0])]
        return '(%s, "%s")' % (str(c) if c >= 0 else "(%d)" % c, call.args[1].value)

    # soft_restart: the refusal block
    def f_soft():
        fn = find_func(ctl, "soft_restart")
        idx = [i for i, st in enumerate(fn.body) if isinstance(st, ast.Assign) and ast.unparse(st.targets[0]) == "ok_to_do_restart"]
        if len(idx) != 1:
            raise Unsupported("ok_to_do_restart assignment")
        okdef = _gbool(fn.body[idx[0]].value)
        blk = fn.body[idx[0] + 1]
        if not (isinstance(blk, ast.If) and ast.unparse(blk.test) == "not ok_to_do_restart" and not blk.orelse and len(blk.body) == 3
                and isinstance(blk.body[0], ast.Assign) and ast.unparse(blk.body[0].targets[0]) == "exit_info"
                and isinstance(blk.body[1], ast.If) and not blk.body[1].orelse and len(blk.body[1].body) == 1
                and isinstance(blk.body[1].body[0], ast.Assign) and ast.unparse(blk.body[1].body[0].targets[0]) == "exit_info"
                and isinstance(blk.body[2], ast.Return) and ast.unparse(blk.body[2].value) == "exit_info"):
            raise Unsupported("soft_restart refusal block has an unexpected shape")
        # nothing between the function head and the refusal may return or evaluate
        for st in fn.body[:idx[0]]:
            for n in ast.walk(st):
                if isinstance(n, ast.Return) or (isinstance(n, ast.Call) and "evaluate_objective" in ast.unparse(n.func)):
                    raise Unsupported("soft_restart returns/evaluates before the admission test")
        e1 = exit_of(blk.body[0].value)
        c2 = _gbool(blk.body[1].test)
        e2 = exit_of(blk.body[1].body[0].value)
        return ("def softRestartRefusal (nrunsSoFar lastSuccessfulRun maxUnsucc nf maxfun : Int) : Option (Int × String) :=\n"
                "  let okToDoRestart := %s\n  if !okToDoRestart then\n    let exit_info := %s\n    let exit_info := if %s then %s else exit_info\n"
                "    some exit_info\n  else none\n" % (okdef, e1, c2, e2))
    emit("softRestartRefusal", f_soft)

    # solve(): the guard of the hard-restart loop
    def f_hard():
        fn = find_func(sol, "solve")
        wh = [st for st in fn.body if isinstance(st, ast.While)]
        if len(wh) != 1:
            raise Unsupported("%d while loops in solve()" % len(wh))
        return ("def hardRestartGuard (useRestarts useSoft able : Bool) (nf maxfun nruns lastSuccessfulRun maxUnsucc : Int) : Bool :=\n  %s\n"
                % _gbool(wh[0].test))
    emit("hardRestartGuard", f_hard)

    # solve_main: when the default growing method is switched to the (random) perturbation of the trust-region step
    def f_grow():
        fn = find_func(sol, "solve_main")
        hits = [n for n in ast.walk(fn) if isinstance(n, ast.If)
                and any("growing.perturb_trust_region_step" in ast.unparse(b) and "new_value=True" in ast.unparse(b) for b in n.body)
                and "default_growing_method_set_by_user" not in ast.unparse(n.test)]
        if len(hits) != 1:
            raise Unsupported("%d candidate tests for the growing-method switch" % len(hits))
        return "def growingSwitchToPerturb (m n : Int) : Bool :=\n  %s\n" % _gbool(hits[0].test)
    emit("growingSwitchToPerturb", f_grow)
    return out


def regenerate_guards(ctx=None):
    path = os.path.join(core.LEAN_DIR, "DfolsVerif", "Gen", "RestartGuards.lean")
    try:
        defs = translate_guards()
        failed = [n for n, s in defs if s.startswith("-- TRANSLATION FAILED")]
        if failed and ctx is not None:
            ctx.broke("gen:restart-guards-translator", {"untranslatable": failed, "detail": [s for n, s in defs if n in failed]})
    except Exception as exc:
        if ctx is not None:
            ctx.broke("gen:restart-guards-translator", repr(exc))
        defs = [("failed", "-- TRANSLATION FAILED: %r\n" % (exc,))]
    content = "\n".join(["/- GENERATED by harness/gen_kernels.py from /repo's controller.py / solver.py on every run — do not edit.",
                         "   The admission test of soft restarts and the guard of the hard-restart loop, over Python ints (Int) and bools. -/",
                         "namespace Dfols.Gen", ""] + [s for _, s in defs] + ["end Dfols.Gen", ""])
    old = open(path).read() if os.path.exists(path) else None
    if old != content:
        open(path, "w").write(content)
    return [n for n, _ in defs]


# ================================================================================================
# trust_region.py: where the trust-region ball stands in the list handed to Dykstra (C13)
# ================================================================================================
def regenerate_trproj(ctx=None):
    """for every function of trust_region.py that defines `trproj`: the definition of trproj and every statement that builds or
    changes the list P, as canonical text (the ball must be the LAST projector of a sweep: the result of dykstra lies exactly in
    the last set — C15_last_in — which is what bounds the step by Delta)"""
    path = os.path.join(core.LEAN_DIR, "DfolsVerif", "Gen", "TrProj.lean")
    rows = []
    try:
        tree = ast.parse(open(os.path.join(core.REPO, "dfols", "trust_region.py")).read())
        for fn in [n for n in tree.body if isinstance(n, ast.FunctionDef)]:
            stm = []
            for n in ast.walk(fn):
                if isinstance(n, ast.Assign) and len(n.targets) == 1 and ast.unparse(n.targets[0]) in ("trproj", "P"):
                    stm.append((n.lineno, ast.unparse(n)))
                elif isinstance(n, ast.AugAssign) and ast.unparse(n.target) == "P":
                    stm.append((n.lineno, ast.unparse(n)))
                elif isinstance(n, ast.Expr) and isinstance(n.value, ast.Call) and isinstance(n.value.func, ast.Attribute) \
                        and ast.unparse(n.value.func.value) == "P":
                    stm.append((n.lineno, ast.unparse(n)))
            if any(t.startswith("trproj") for _, t in stm):
                rows.append((fn.name, [t for _, t in sorted(stm)]))
    except Exception as exc:
        if ctx is not None:
            ctx.broke("gen:trproj", repr(exc))
    # every call of util.dykstra in the package: (file:function, list argument, point argument, max_iter=, tol=); "" = not passed
    calls = []
    sig = ""
    try:
        for fname in ("util.py", "model.py", "controller.py", "trust_region.py", "solver.py"):
            t2 = ast.parse(open(os.path.join(core.REPO, "dfols", fname)).read())
            funcs = [n for n in ast.walk(t2) if isinstance(n, ast.FunctionDef)]
            for fn in funcs:
                if fname == "util.py" and fn.name == "dykstra":
                    sig = ast.unparse(fn.args)
                inner = [g for g in ast.walk(fn) if isinstance(g, ast.FunctionDef) and g is not fn]
                for n in ast.walk(fn):
                    if isinstance(n, ast.Call) and ast.unparse(n.func) == "dykstra" and not any(n in list(ast.walk(g)) for g in inner):
                        kw = {k.arg: ast.unparse(k.value) for k in n.keywords}
                        pos = [ast.unparse(a) for a in n.args]
                        calls.append((n.lineno, "%s:%s" % (fname, fn.name), pos[0] if pos else "", pos[1] if len(pos) > 1 else "",
                                      kw.get("max_iter", pos[2] if len(pos) > 2 else ""), kw.get("tol", pos[3] if len(pos) > 3 else ""),
                                      len(pos), sorted(kw)))
    except Exception as exc:
        if ctx is not None:
            ctx.broke("gen:dykstra-calls", repr(exc))
    qq = lambda t: '"%s"' % t.replace('"', "'")
    content = "\n".join(["/- GENERATED by harness/gen_kernels.py from /repo's dfols/trust_region.py on every run — do not edit. -/",
                         "namespace Dfols.Gen", "",
                         "/-- parameters of util.dykstra -/", "def dykstraSignature : String := %s" % qq(sig), "",
                         "/-- every call of `dykstra` in the package: (file:function, list, point, max_iter, tol) — \"\" = left to the default -/",
                         "def dykstraCalls : List (String × String × String × String × String) := [",
                         ",\n".join("  (%s, %s, %s, %s, %s)" % (qq(f), qq(a), qq(b), qq(mi), qq(tl)) for _l, f, a, b, mi, tl, _np, _kw in sorted(calls)),
                         "]", "",
                         "/-- (function, statements defining `trproj` and building the projector list `P`, in source order) -/",
                         "def trprojPlacement : List (String × List String) := [",
                         ",\n".join('  ("%s", [%s])' % (f, ", ".join('"%s"' % t.replace('"', "'") for t in ts)) for f, ts in rows),
                         "]", "", "end Dfols.Gen", ""])
    old = open(path).read() if os.path.exists(path) else None
    if old != content:
        open(path, "w").write(content)
    return [f for f, _ in rows]


if __name__ == "__main__":
    print(regenerate_trproj())
    print(open(os.path.join(core.LEAN_DIR, "DfolsVerif", "Gen", "TrProj.lean")).read())
    regenerate_guards()
    print(open(os.path.join(core.LEAN_DIR, "DfolsVerif", "Gen", "RestartGuards.lean")).read())
    regenerate_loops()
    print(open(os.path.join(core.LEAN_DIR, "DfolsVerif", "Gen", "EvalLoopFns.lean")).read())
    regenerate_dykstra()
    print(open(os.path.join(core.LEAN_DIR, "DfolsVerif", "Gen", "DykstraFns.lean")).read())
    regenerate_clip()
    print(open(os.path.join(core.LEAN_DIR, "DfolsVerif", "Gen", "ClipFns.lean")).read())
    regenerate_model()
    print(open(os.path.join(core.LEAN_DIR, "DfolsVerif", "Gen", "ModelDecisions.lean")).read())
    regenerate()
    print(open(os.path.join(core.LEAN_DIR, "DfolsVerif", "Gen", "KernelFns.lean")).read())
