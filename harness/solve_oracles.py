"""Failing-input search oracles for the solve-level properties, stated directly on a traced real run.

Each oracle takes a trace.Trace (+ the configuration) and returns a list of (signature, what).
A signature = clause + context tags of the run (exit route / restart mode / options), never the random input.
"""
from __future__ import annotations

import math
import numpy as np
import trace as tr


def context_tags(t: tr.Trace, d: dict) -> str:
    tags = []
    nrst = sum(1 for e in t.events if e[0] == "rst")
    nsoft = sum(1 for e in t.events if e[0] == "sre" and e[1] == 0)
    if nsoft:
        tags.append("soft-restart")
    if nrst > 1:
        tags.append("hard-restart")
    rends = [e for e in t.events if e[0] == "rend"]
    if rends and rends[-1][10] == 0:
        tags.append("exit-at-x0")
    if d.get("avg"):
        tags.append("avg")
    if d.get("proj"):
        tags.append("proj")
    if d.get("scaling"):
        tags.append("scaling")
    up = d.get("user_params", {})
    if up.get("init.run_in_parallel"):
        tags.append("parallel-init")
    if up.get("restarts.increase_npt"):
        tags.append("increase-npt")
    if d.get("regu"):
        tags.append("regu")
    if d.get("growing"):
        tags.append("growing")
    return ",".join(tags) if tags else "plain"


def exit_route(t: tr.Trace) -> str:
    if t.result is None:
        return "none"
    return "flag%d:%s" % (t.result.flag, tr.msg_class(str(t.result.msg)))


# ------------------------------------------------------------------------------------------------
def c02(t: tr.Trace, d: dict, maxfun: int, ns_requested=None):
    out = []
    ctxt = context_tags(t, d)
    ncalls = len(t.calls)
    if ncalls > maxfun:
        out.append(("C02:budget-exceeded|" + ctxt, "objfun called %d times with maxfun=%d" % (ncalls, maxfun)))
    r = t.result
    if r is not None and r.x is not None:
        if int(r.nf) != ncalls:
            out.append(("C02:nf-wrong|" + ctxt, "soln.nf=%d but objfun was called %d times" % (r.nf, ncalls)))
    objs = [e for e in t.events if e[0] == "obj"]
    last_pt = 0
    pt_x = {}
    for idx, e in enumerate(objs):
        _, i, evno, ptno, xid, _v, nc = e
        if nc != 1:
            out.append(("C02:eval-not-one-call|" + ctxt, "evaluation %d made %d objfun calls" % (evno, nc)))
        if evno != idx + 1 or i != idx + 1:
            out.append(("C02:eval-numbering|" + ctxt, "call #%d was numbered eval %d (independent count %d)" % (idx + 1, evno, i)))
            break
        if ptno not in (last_pt, last_pt + 1) or ptno < 1:
            out.append(("C02:point-numbering-gap|" + ctxt, "point number went %d -> %d at eval %d" % (last_pt, ptno, evno)))
            break
        if ptno in pt_x and pt_x[ptno] != xid:
            out.append(("C02:same-point-different-x|" + ctxt, "point %d evaluated at two different x (eval %d)" % (ptno, evno)))
            break
        pt_x[ptno] = xid
        last_pt = ptno
    if r is not None and r.x is not None and objs and int(r.nx) != last_pt:
        out.append(("C02:nx-wrong|" + ctxt, "soln.nx=%d but last point number is %d" % (r.nx, last_pt)))
    # sample counts per evaluate_objective group: exactly max(k,1) of the most recent nsamples() answer unless budget ran out
    lastns = None
    nf = 0
    for e in t.events:
        if e[0] == "ns":
            lastns = max(int(e[1]), 1)
        elif e[0] == "obj":
            nf += 1
        elif e[0] == "evb":
            nf_start = nf
            want_ns = e[1]
            if lastns is not None and want_ns != lastns:
                out.append(("C02:samples-requested|" + ctxt, "evaluate_objective asked for %d samples, nsamples() said %d" % (want_ns, lastns)))
        elif e[0] == "eve":
            k = e[1]
            want = min(want_ns, maxfun - nf_start)
            if k != want:
                out.append(("C02:sample-count|" + ctxt, "point got %d samples, expected min(%d, budget left %d)" % (k, want_ns, maxfun - nf_start)))
    return out


# ------------------------------------------------------------------------------------------------
def _point_calls(t: tr.Trace):
    """independent map point number -> list of call records, from the obj events' code numbering validated by c02"""
    m = {}
    for e in t.events:
        if e[0] == "obj":
            _, i, evno, ptno, xid, _v, nc = e
            if 1 <= i <= len(t.calls):
                m.setdefault(ptno, []).append(t.calls[i - 1])
    return m


def c03(t: tr.Trace, d: dict, h=None, argsh=()):
    out = []
    r = t.result
    if r is None or r.x is None:
        return out
    ctxt = context_tags(t, d) + "|" + exit_route(t)
    pts = _point_calls(t)
    lab = r.xmin_eval_num
    if lab is None or int(lab) not in pts:
        out.append(("C03:label-not-an-evaluation|" + ctxt, "xmin_eval_num=%r is not the number of an evaluated point (points 1..%d)" % (lab, len(pts))))
        return out
    recs = pts[int(lab)]
    x = np.asarray(r.x, dtype=float)
    xc = recs[0]["x"]
    tol = 1e-9 * (1.0 + np.abs(xc)) + 1e-12
    if x.shape == xc.shape and d.get("proj") and np.any(np.abs(x - xc) > tol) and np.all(np.abs(x - xc) <= 1e-4 * (1.0 + np.abs(xc))):
        # with projections the model reports a stored point as dykstra(xbase + s); for the starting point of a run
        # (s = 0, evaluated as it is) this re-projection moves the point by up to ~sqrt(tol): not rounding
        out.append(("C03:reprojection-drift-of-run-start-point|proj",
                    "soln.x=%s is the Dykstra re-projection of evaluation point %d = %s (max rel. diff %.2e)"
                    % (x, lab, xc, float(np.max(np.abs(x - xc) / (1 + np.abs(xc)))))))
        return out
    if x.shape != xc.shape or np.any(np.abs(x - xc) > tol):
        # is it some other evaluated point?
        other = [p for p, rs in pts.items() if rs[0]["x"].shape == x.shape and np.all(np.abs(x - rs[0]["x"]) <= tol)]
        out.append(("C03:x-is-not-the-labelled-point|" + ctxt,
                    "soln.x=%s but evaluation point %d was %s (x matches points %s)" % (x, lab, xc, other[:5])))
        return out
    rs = [c["r"] for c in recs if c["r"] is not None]
    if rs:
        mean = np.mean(np.array(rs), axis=0)
        res = np.asarray(r.resid, dtype=float)
        fin = np.isfinite(mean) & np.isfinite(res)
        if res.shape != mean.shape or not np.array_equal(np.isnan(mean), np.isnan(res)) or \
                np.any(np.abs(mean[fin] - res[fin]) > 1e-9 * (1 + np.abs(mean[fin]))):
            # maybe it is the mean of a prefix (budget ran out mid-point is still all samples taken)
            out.append(("C03:resid-not-mean-of-samples|" + ctxt,
                        "soln.resid=%s but the %d samples at point %d average to %s" % (res, len(rs), lab, mean)))
        want = float(np.dot(res, res))
        if h is not None:
            want += h(x, *argsh)
        have = float(r.obj)
        if not (have == want or (have != have and want != want) or abs(have - want) <= 1e-9 * (1 + abs(want))):
            out.append(("C03:obj-not-sumsq-plus-h|" + ctxt, "soln.obj=%r but sum(resid^2)+h(x)=%r" % (have, want)))
    for w in getattr(t, "warnings", []):
        if isinstance(w, tuple) and w and w[0] == "stored-objective-not-at-evaluated-point":
            out.append(("C03:stored-objective-not-at-evaluated-point|" + context_tags(t, d),
                        "evaluation point %d: the model stored objective %r but sum(r^2)+h at the point the objective received is %r" % (w[1], w[2], w[3])))
            break
    return out


# ------------------------------------------------------------------------------------------------
def c04(t: tr.Trace, d: dict, h=None):
    """deterministic objective, no averaging: soln.obj <= objective at every evaluated point"""
    out = []
    r = t.result
    if r is None or r.x is None or d.get("avg"):
        return out
    ctxt = context_tags(t, d) + "|" + exit_route(t)
    vals = [(c["i"], c["v"]) for c in t.calls if c["r"] is not None and c["v"] == c["v"]]
    if not vals:
        return out
    ibest, vbest = min(vals, key=lambda p: p[1])
    have = float(r.obj)
    tol = 0.0 if h is None else 1e-9 * (1 + abs(vbest))
    if have != have or have > vbest + tol:
        # which event consumed (or dropped) the best evaluation?
        how = "unknown"
        for e in t.events:
            if e[0] in ("chg", "smp", "adp") and e[-2] == ibest:
                how = e[0]
        out.append(("C04:best-point-lost|" + ctxt, "soln.obj=%r but evaluation %d had objective %r (stored by: %s)" % (have, ibest, vbest, how)))
    return out


# ------------------------------------------------------------------------------------------------
def c10(t: tr.Trace, d: dict, maxfun: int, abs_tol=1e-12, rel_tol=1e-20, max_unsucc=10, rhoend=None, rhoend_scale=1.0):
    out = []
    r = t.result
    if r is None or r.x is None:
        return out
    ctxt = context_tags(t, d)
    cls = tr.msg_class(str(r.msg))
    flag = int(r.flag)
    obj = float(r.obj)
    if flag == 0 and cls == "small":
        f0 = t.calls[0]["v"] if t.calls else float("nan")
        thr = max(abs_tol, rel_tol * f0) if f0 == f0 else abs_tol
        if d.get("avg"):
            # averaged x0: f(x0) is the objective of the MEAN of the x0 samples = objval[0] of the first model (first ctrl event);
            # the documented threshold is max(abs_tol, rel_tol * that); an exit straight at x0 tests abs_tol alone
            import core as _core
            ctrl = [e for e in t.events if e[0] == "ctrl"]
            f0m = _core.key2f(ctrl[0][3]) if ctrl else float("nan")
            thr = max(abs_tol, rel_tol * f0m) if (f0m == f0m and abs(f0m) != float("inf")) else abs_tol
        if not (obj <= thr * (1 + 1e-12)):
            # f(x0) not finite (a fault at the very first evaluation): the documented threshold degenerates to abs_tol; a
            # hard-restarted run measures rel_tol against the objective at ITS starting point instead — named separately
            x0tag = "" if (f0 == f0 and abs(f0) != float("inf")) else "x0-nonfinite|"
            out.append(("C10:small-but-not-small|" + x0tag + ctxt, "flag 0 'sufficiently small' but obj=%r > max(abs_tol, rel_tol*f(x0))=%r (f(x0)=%r)" % (obj, thr, f0)))
    if flag == 0 and cls == "rhoend":
        exts = [e for e in t.events if e[0] == "ext" and e[2] == "rhoend"]
        if exts:
            e = exts[-1]
            if e[3] != "-" and e[3] != e[4]:
                out.append(("C10:rhoend-but-rho-differs|" + ctxt, "flag 0 'rho has reached rhoend' but rho key %s != rhoend key %s" % (e[3], e[4])))
    if flag == 1 and int(r.nf) != maxfun:
        out.append(("C10:maxfun-flag-but-budget-left|" + ctxt, "max-evaluations warning with nf=%d, maxfun=%d" % (r.nf, maxfun)))
    if flag == 0 and cls == "restarts" and int(r.nruns) < max_unsucc:
        out.append(("C10:max-restarts-but-fewer-runs|" + ctxt, "'maximum number of unsuccessful restarts' (%d) with nruns=%d" % (max_unsucc, r.nruns)))
    nrst = sum(1 for e in t.events if e[0] == "rst")
    nsoft = sum(1 for e in t.events if e[0] == "sre" and e[1] == 0)
    restarts = (nrst - 1) + nsoft
    if int(r.nruns) != 1 + restarts:
        out.append(("C10:nruns-wrong|" + ctxt + "|" + exit_route(t), "soln.nruns=%d but %d restarts were performed (%d hard, %d soft)" % (r.nruns, restarts, nrst - 1, nsoft)))
    if flag == 0 and not math.isfinite(obj):
        out.append(("C10:success-with-nonfinite-objective|" + ctxt + "|" + cls, "success flag with obj=%r (%s)" % (obj, r.msg)))
    return out


# ------------------------------------------------------------------------------------------------
def c01(t: tr.Trace, xl, xu):
    """every evaluated point and the returned x inside [xl, xu] exactly"""
    out = []
    lo = -np.inf if xl is None else np.asarray(xl, dtype=float)
    hi = np.inf if xu is None else np.asarray(xu, dtype=float)
    for c in t.calls:
        x = c["x"]
        if np.any(x < lo) or np.any(x > hi) or np.any(np.isnan(x)):
            j = int(np.argmax((x < lo) | (x > hi) | np.isnan(x)))
            out.append(("eval", c["i"], j, float(x[j])))
            break
    r = t.result
    if r is not None and r.x is not None:
        x = np.asarray(r.x, dtype=float)
        if np.any(x < lo) or np.any(x > hi) or np.any(np.isnan(x)):
            j = int(np.argmax((x < lo) | (x > hi) | np.isnan(x)))
            out.append(("result", 0, j, float(x[j])))
    return out
