"""Layer G: the CONTROL-FLOW SKELETON of solve_main's main loop (`while True:` body), translated from /repo's AST on every run into
lean/DfolsVerif/Gen/MainLoop.lean as a term of `Dfols.Skel.Prog` (Kernels/Skeleton.lean):

    done | cont | brk | raise | act a k | ite c t e k | rep a k

* `act a k`     — one *significant* action (table ACTS below: bookkeeping calls, evaluations, restarts, counter updates, exit
                  objects), then the rest `k`; the statements that contain none are dropped (logging, diagnostics updates, pure numerics);
* `ite c t e k` — `if c: t else: e`, then `k` when the branch falls through; the branch taken is also recorded as the first action
                  of the branch (`T:<c>` / `F:<c>`, canonical `ast.unparse` text), so a monitor may look at the tests it needs;
                  an `if` whose two branches contain no action and no jump is dropped;
* `rep a k`     — an inner `for` loop whose body is the single action `a` (zero or more times);
* `cont`/`brk`/`raise` — `continue`, `break`, `raise`; falling off the end of the body is `done` (= next iteration).

Anything the translator cannot express (an inner loop with jumps or several actions, `return`, `try` with actions inside, `with`, a
lambda or comprehension containing an action) raises — the checks that own theorems over the skeleton report the broken obligation.
The theorems (Proofs/Skeleton.lean, Properties C10 / C18 / C04) are about EVERY syntactic path of this skeleton: every outcome of
every test, every number of repetitions of the inner loop — a superset of what any objective function can make the loop do."""
import ast
import os
import re
import core
from gen_exitsites import q

# (regex on the canonical text of a call's function expression or of a whole statement) -> action name
CALL_ACTS = [
    (r"^(?:control|self)\.evaluate_objective$", "eval"),
    (r"^(?:control|self)\.model\.change_point$", "chg"),
    (r"^(?:control|self)\.model\.save_point$", "sav"),
    (r"^(?:control|self)\.model\.add_new_sample$", "smp"),
    (r"^(?:control|self)\.model\.add_new_point$", "adp"),
    (r"^(?:control|self)\.soft_restart$", "soft"),
    (r"^(?:control|self)\.reduce_rho$", "rho"),
    (r"^(?:control|self)\.check_and_fix_geometry$", "geom"),
    (r"^(?:control|self)\.add_new_direction_while_growing$", "grow"),
    (r"^(?:control|self)\.move_furthest_points$", "move"),
    (r"^(?:control|self)\.move_furthest_points_momentum$", "move"),
    (r"^(?:control|self)\.trust_region_step$", "trs"),
    (r"^(?:control|self)\.calculate_ratio$", "ratio"),
    (r"^(?:control|self)\.choose_point_to_replace$", "choose"),
    (r"^(?:control|self)\.model\.interpolate_mini_models_svd$", "itp"),
    (r"^(?:control|self)\.model\.shift_base$", "shift"),
    (r"^diagnostic_info\.save_info_from_control$", "diag"),
    (r"^(?:control|self)\.geometry_step$", "geomstep"),
    (r"^(?:control|self)\.model\.get_final_results$", "final"),
    (r"^solve_main$", "run"),
    (r"^OptimResults$", "optim"),
    (r"^(?:control|self)\.terminate_from_slow_iterations$", "slowtest"),
]


def stmt_acts(st):
    """significant actions of one simple statement, in evaluation order (inner calls end first)"""
    found = []
    for n in ast.walk(st):
        if isinstance(n, (ast.Lambda, ast.ListComp, ast.GeneratorExp, ast.DictComp, ast.SetComp)):
            for m in ast.walk(n):
                if isinstance(m, ast.Call) and any(re.match(rx, ast.unparse(m.func)) for rx, _ in CALL_ACTS):
                    raise ValueError("action inside a lambda/comprehension at line %d" % n.lineno)
        if isinstance(n, ast.Call):
            f = ast.unparse(n.func)
            for rx, name in CALL_ACTS:
                if re.match(rx, f):
                    found.append(((n.end_lineno, n.end_col_offset), name))
            if f == "ExitInformation" and n.args:
                found.append(((n.end_lineno, n.end_col_offset), "exit:" + ast.unparse(n.args[0])))
    acts = [a for _p, a in sorted(found)]
    text = ast.unparse(st)
    if isinstance(st, ast.AugAssign) and text == "nruns_so_far += 1":
        acts.append("nruns")
    elif isinstance(st, ast.AugAssign) and text == "current_iter += 1":
        acts.append("iter+")
    elif isinstance(st, (ast.Assign, ast.AugAssign)):
        tgt = ast.unparse(st.targets[0]) if isinstance(st, ast.Assign) else ast.unparse(st.target)
        if tgt == "nruns_so_far":
            acts.append("nruns:other")          # any other write to the run counter: no monitor accepts it
        elif tgt == "current_iter":
            acts.append("iter0" if text == "current_iter = -1" else "iter:other")
        elif tgt == "rhoend":
            acts.append("rhoend" if text == "rhoend = params('restarts.rhoend_scale') * rhoend" else "rhoend:other")
        elif tgt == "exit_info" and not acts:
            acts.append("exitinfo:other" if text != "exit_info = None" else "exitinfo:none")
        elif tgt == "control.delta":
            acts.append("delta")
        elif tgt == "control.rho":
            acts.append("rhoset")
    return acts


class P:
    """tiny Prog builder"""
    def __init__(self, kind, *a):
        self.kind, self.a = kind, a

    def lean(self):
        k = self.kind
        if k in ("done", "cont", "brk", "raise", "ret"):
            return "." + k
        if k == "loop":
            return "(.loop\n %s\n %s)" % (self.a[0].lean(), self.a[1].lean())
        if k == "act":
            return "(.act %s %s)" % (q(self.a[0]), self.a[1].lean())
        if k == "rep":
            return "(.rep %s %s)" % (q(self.a[0]), self.a[1].lean())
        if k == "ite":
            return "(.ite %s\n %s\n %s\n %s)" % (q(self.a[0]), self.a[1].lean(), self.a[2].lean(), self.a[3].lean())
        raise ValueError(k)

    def trivial(self):
        return self.kind == "done"

    def size(self):
        return 1 + sum(x.size() for x in self.a if isinstance(x, P))


DONE = P("done")


def block(stmts, k, general=False):
    """translate a statement list followed by continuation k; general=True: function bodies (return, general loops, try/except
    around action-free code) into SkelL.Prog"""
    if not stmts:
        return k
    st, rest = stmts[0], stmts[1:]
    if general:
        return block_general(st, rest, k)
    if isinstance(st, ast.Continue):
        return P("cont")
    if isinstance(st, ast.Break):
        return P("brk")
    if isinstance(st, ast.Raise):
        return P("raise")
    if isinstance(st, ast.Return):
        raise ValueError("return inside the main loop at line %d" % st.lineno)
    if isinstance(st, ast.If):
        for n in ast.walk(st.test):
            if isinstance(n, ast.Call) and any(re.match(rx, ast.unparse(n.func)) for rx, _ in CALL_ACTS):
                raise ValueError("action inside a test at line %d" % st.lineno)
        t = block(st.body, DONE)
        e = block(st.orelse, DONE)
        kk = block(rest, k)
        if t.trivial() and e.trivial():
            return kk
        c = ast.unparse(st.test)
        return P("ite", c, P("act", "T:" + c, t), P("act", "F:" + c, e), kk)
    if isinstance(st, (ast.For, ast.While)):
        inner = []
        for s in st.body + st.orelse:
            if not isinstance(s, (ast.Expr, ast.Assign, ast.AugAssign)):
                raise ValueError("inner loop with control flow at line %d" % st.lineno)
            inner += stmt_acts(s)
        kk = block(rest, k)
        if not inner:
            return kk
        if len(inner) != 1:
            raise ValueError("inner loop with several actions at line %d" % st.lineno)
        return P("rep", inner[0], kk)
    if isinstance(st, ast.Try):
        for s in ast.walk(st):
            if isinstance(s, (ast.Continue, ast.Break, ast.Return, ast.Raise)):
                raise ValueError("try with a jump at line %d" % st.lineno)
            if isinstance(s, (ast.Expr, ast.Assign, ast.AugAssign)) and stmt_acts(s):
                raise ValueError("try with an action at line %d" % st.lineno)
        return block(rest, k)
    if isinstance(st, (ast.Expr, ast.Assign, ast.AugAssign, ast.Pass, ast.Assert)):
        acts = stmt_acts(st) if not isinstance(st, (ast.Pass, ast.Assert)) else []
        kk = block(rest, k)
        for a in reversed(acts):
            kk = P("act", a, kk)
        return kk
    raise ValueError("statement %s at line %d not expressible" % (type(st).__name__, st.lineno))


def block_general(st, rest, k):
    B = lambda ss, kk: block(ss, kk, True)
    if isinstance(st, ast.Continue):
        return P("cont")
    if isinstance(st, ast.Break):
        return P("brk")
    if isinstance(st, ast.Raise):
        return P("raise")
    if isinstance(st, ast.Return):
        acts = stmt_acts(st) if st.value is not None else []
        out = P("act", "ret:" + (ast.unparse(st.value) if st.value is not None else "None"), P("ret"))
        for a in reversed(acts):
            out = P("act", a, out)
        return out
    if isinstance(st, ast.If):
        for n in ast.walk(st.test):
            if isinstance(n, ast.Call) and any(re.match(rx, ast.unparse(n.func)) for rx, _ in CALL_ACTS):
                raise ValueError("action inside a test at line %d" % st.lineno)
        t, e, kk = B(st.body, DONE), B(st.orelse, DONE), B(rest, k)
        if t.trivial() and e.trivial():
            return kk
        c = ast.unparse(st.test)
        return P("ite", c, P("act", "T:" + c, t), P("act", "F:" + c, e), kk)
    if isinstance(st, (ast.For, ast.While)):
        if st.orelse:
            raise ValueError("loop with else at line %d" % st.lineno)
        body, kk = B(st.body, DONE), B(rest, k)
        if body.trivial():
            return kk
        if isinstance(st, ast.While) and ast.unparse(st.test) == "True":
            # `while True:` is left by `break` only.  SkelL's `loop` also allows leaving at a loop head (exhaustion); so that a
            # monitor can tell the two apart, every `break` of THIS loop is preceded by the action "brk:while-True" and the code
            # after the loop by "after:while-True" (seen without the former = a path Python cannot take)
            def mark(p):
                if p.kind == "brk":
                    return P("act", "brk:while-True", P("brk"))
                if p.kind == "act":
                    return P("act", p.a[0], mark(p.a[1]))
                if p.kind == "ite":
                    return P("ite", p.a[0], mark(p.a[1]), mark(p.a[2]), mark(p.a[3]))
                if p.kind == "loop":
                    return P("loop", p.a[0], mark(p.a[1]))       # a nested loop's own breaks stay unmarked
                return p
            return P("loop", mark(body), P("act", "after:while-True", kk))
        return P("loop", body, kk)
    if isinstance(st, ast.Try):
        if st.orelse or st.finalbody:
            raise ValueError("try with else/finally at line %d" % st.lineno)
        for s in st.body:
            for n in ast.walk(s):
                if isinstance(n, (ast.Continue, ast.Break, ast.Return, ast.Raise)):
                    raise ValueError("try body with a jump at line %d" % st.lineno)
                if isinstance(n, (ast.Expr, ast.Assign, ast.AugAssign)) and stmt_acts(n):
                    raise ValueError("try body with an action at line %d" % st.lineno)
        kk = B(rest, k)
        out = kk
        for hd in reversed(st.handlers):
            c = "except " + (ast.unparse(hd.type) if hd.type is not None else "")
            hb = B(hd.body, DONE)
            out_h = P("ite", c, P("act", "T:" + c, hb), P("act", "F:" + c, DONE), kk)
            out = out_h if out is kk else P("ite", c, P("act", "T:" + c, hb), P("act", "F:" + c, DONE), out)
        return out
    if isinstance(st, (ast.Expr, ast.Assign, ast.AugAssign, ast.Pass, ast.Assert)):
        acts = stmt_acts(st) if not isinstance(st, (ast.Pass, ast.Assert)) else []
        kk = B(rest, k)
        for a in reversed(acts):
            kk = P("act", a, kk)
        return kk
    raise ValueError("statement %s at line %d not expressible" % (type(st).__name__, st.lineno))


CTRL_METHODS = ["add_new_direction_while_growing", "geometry_step", "check_and_fix_geometry", "move_furthest_points",
                "move_furthest_points_momentum", "soft_restart", "initialise_coordinate_directions", "initialise_random_directions"]


def collect_ctrl():
    tree = ast.parse(open(os.path.join(core.REPO, "dfols", "controller.py")).read())
    cls = [n for n in tree.body if isinstance(n, ast.ClassDef) and n.name == "Controller"][0]
    fns = {n.name: n for n in cls.body if isinstance(n, ast.FunctionDef)}
    out = []
    for name in CTRL_METHODS:
        try:
            body = list(fns[name].body)
            # falling off the end of a function is `return None`
            prog = block(body, P("act", "ret:None", P("ret")), True)
            out.append((name, prog, None))
        except Exception as exc:
            out.append((name, None, repr(exc)))
    return out


def collect_solve_main():
    """the WHOLE body of solve_main as a SkelL.Prog (the main loop is a `loop`, its `break` leads to the final statements)"""
    tree = ast.parse(open(os.path.join(core.REPO, "dfols", "solver.py")).read())
    sm = [n for n in tree.body if isinstance(n, ast.FunctionDef) and n.name == "solve_main"][0]
    return block(list(sm.body), P("act", "ret:None", P("ret")), True)


def collect_solve():
    """the WHOLE body of solve (defaults, validation, first run, hard-restart loop, packaging) as a SkelL.Prog"""
    tree = ast.parse(open(os.path.join(core.REPO, "dfols", "solver.py")).read())
    sol = [n for n in tree.body if isinstance(n, ast.FunctionDef) and n.name == "solve"][0]
    return block(list(sol.body), P("act", "ret:None", P("ret")), True)


def regenerate_solve_main(ctx=None):
    path = os.path.join(core.LEAN_DIR, "DfolsVerif", "Gen", "SolveMainSkel.lean")
    info = {}
    try:
        prog = collect_solve_main()
        L = ["/-- the whole body of solve_main (prelude, main loop, final statements) -/", "def solveMainBody : SkelL.Prog :=\n %s\n" % prog.lean()]
        info = {"nodes": prog.size()}
        try:
            sp = collect_solve()
            L += ["/-- the whole body of solve -/", "def solveBody : SkelL.Prog :=\n %s\n" % sp.lean()]
            info["solve_nodes"] = sp.size()
        except Exception as exc2:
            if ctx is not None:
                ctx.broke("gen:solve-skeleton", repr(exc2))
            L += ["-- TRANSLATION FAILED for solve: %s" % repr(exc2).replace("\n", " ")]
    except Exception as exc:
        if ctx is not None:
            ctx.broke("gen:solve-main-skeleton", repr(exc))
        L = ["-- TRANSLATION FAILED: %s" % repr(exc).replace("\n", " ")]
    content = "\n".join(["/- GENERATED by harness/gen_skeleton.py from /repo's solver.py on every run — do not edit. -/",
                         "import DfolsVerif.Kernels.SkeletonL", "namespace Dfols.Gen", ""] + L + ["end Dfols.Gen", ""])
    old = open(path).read() if os.path.exists(path) else None
    if old != content:
        open(path, "w").write(content)
    if ctx is not None:
        ctx.cov["solve_main_skeleton"] = info
    return info


def regenerate_ctrl(ctx=None):
    path = os.path.join(core.LEAN_DIR, "DfolsVerif", "Gen", "CtrlSkel.lean")
    info = {}
    L = []
    for name, prog, err in collect_ctrl():
        lname = "".join(w.capitalize() for w in name.split("_"))
        lname = lname[0].lower() + lname[1:]
        if prog is None:
            if ctx is not None:
                ctx.broke("gen:controller-skeleton:" + name, err)
            L.append("-- TRANSLATION FAILED for %s: %s\n" % (name, err.replace("\n", " ")))
        else:
            L.append("/-- Controller.%s -/\ndef %s : SkelL.Prog :=\n %s\n" % (name, lname, prog.lean()))
            info[name] = prog.size()
    content = "\n".join(["/- GENERATED by harness/gen_skeleton.py from /repo's controller.py on every run — do not edit. -/",
                         "import DfolsVerif.Kernels.SkeletonL", "namespace Dfols.Gen.Ctrl", ""] + L + ["end Dfols.Gen.Ctrl", ""])
    old = open(path).read() if os.path.exists(path) else None
    if old != content:
        open(path, "w").write(content)
    if ctx is not None:
        ctx.cov["controller_skeletons"] = info
    return info


def collect():
    tree = ast.parse(open(os.path.join(core.REPO, "dfols", "solver.py")).read())
    sm = [n for n in tree.body if isinstance(n, ast.FunctionDef) and n.name == "solve_main"][0]
    loops = [n for n in sm.body if isinstance(n, ast.While)]
    if len(loops) != 1 or ast.unparse(loops[0].test) != "True" or loops[0].orelse:
        raise ValueError("solve_main: expected exactly one top-level `while True:` loop")
    prog = block(loops[0].body, DONE)
    # what follows the loop (reached by `break` only): the statements up to the return, as action names
    after = []
    idx = sm.body.index(loops[0])
    for s in sm.body[idx + 1:]:
        if isinstance(s, ast.Return):
            after.append("return:" + ast.unparse(s.value))
        elif isinstance(s, (ast.Assign, ast.Expr, ast.AugAssign)):
            after += stmt_acts(s)          # (`get_final_results` is the action "final")
    return prog, after


def regenerate(ctx=None):
    path = os.path.join(core.LEAN_DIR, "DfolsVerif", "Gen", "MainLoop.lean")
    info = {}
    try:
        prog, after = collect()
        L = ["/-- the body of solve_main's `while True:` loop -/", "def mainLoop : Skel.Prog :=\n %s\n" % prog.lean(),
             "/-- what stands between the loop and the end of solve_main (reached by `break`) -/",
             "def afterLoop : List String := [%s]\n" % ", ".join(q(a) for a in after)]
        info = {"nodes": prog.size()}
    except Exception as exc:
        if ctx is not None:
            ctx.broke("gen:main-loop-skeleton", repr(exc))
        L = ["-- TRANSLATION FAILED: %s" % repr(exc).replace("\n", " ")]
    content = "\n".join(["/- GENERATED by harness/gen_skeleton.py from /repo's solver.py on every run — do not edit. -/",
                         "import DfolsVerif.Kernels.Skeleton", "namespace Dfols.Gen", ""] + L + ["end Dfols.Gen", ""])
    old = open(path).read() if os.path.exists(path) else None
    if old != content:
        open(path, "w").write(content)
    if ctx is not None:
        ctx.cov["main_loop_skeleton"] = info
    return info


if __name__ == "__main__":
    prog, after = collect()
    print(prog.size(), after)
    print(regenerate())
    print(regenerate_ctrl())
    print(regenerate_solve_main())
