"""Regenerate EVERY generated Lean file (lean/DfolsVerif/Gen/*.lean) from the tree under test.  run.py calls this at the start
of every check, whatever the property, so that no check ever builds against a table generated from a different tree (a
previous run with another $DFOLS_REPO, or /repo before/after a change).  Failures of a generator are not reported here: the
property modules that depend on a table regenerate it again in their `pre_build(ctx)` and record what broke."""
import core


def regenerate_all():
    done = []
    import gen
    import gen_callsites
    import gen_radius
    import gen_booksites
    import gen_bookcalls
    import gen_exitsites
    import gen_rngsites
    import gen_snapshots
    import gen_kernels
    import gen_hcalls
    import gen_sfista
    import gen_ownership
    import gen_unscale
    import gen_trsclip
    import gen_json
    import gen_diag
    import gen_scaling
    import gen_mainccalls
    import gen_skeleton
    import gen_trysites
    import gen_rowwrites
    steps = [("tables", lambda: gen.regenerate(None)), ("callsites", lambda: gen_callsites.regenerate(None)),
             ("radius", lambda: gen_radius.regenerate(None)), ("booksites", lambda: gen_booksites.regenerate(None)),
             ("bookcalls", lambda: gen_bookcalls.regenerate(None)), ("exitsites", lambda: gen_exitsites.regenerate(None)),
             ("rngsites", lambda: gen_rngsites.regenerate(None)), ("snapshots", lambda: gen_snapshots.regenerate(None)),
             ("kernels", lambda: gen_kernels.regenerate(None)), ("model-decisions", lambda: gen_kernels.regenerate_model(None)),
             ("clip", lambda: gen_kernels.regenerate_clip(None)), ("dykstra", lambda: gen_kernels.regenerate_dykstra(None)),
             ("loops", lambda: gen_kernels.regenerate_loops(None)), ("guards", lambda: gen_kernels.regenerate_guards(None)),
             ("trproj", lambda: gen_kernels.regenerate_trproj(None)), ("hcalls", lambda: gen_hcalls.regenerate(None)),
             ("sfista", lambda: gen_sfista.regenerate(None)), ("ownership", lambda: gen_ownership.regenerate(None)),
             ("unscale", lambda: gen_unscale.regenerate(None)), ("trsclip", lambda: gen_trsclip.regenerate(None)),
             ("json", lambda: gen_json.regenerate(None)), ("diag", lambda: gen_diag.regenerate(None)),
             ("scaling", lambda: gen_scaling.regenerate(None)),
             ("solve-main-calls", lambda: gen_mainccalls.regenerate(None)),
             ("main-loop-skeleton", lambda: gen_skeleton.regenerate(None)),
             ("controller-skeletons", lambda: gen_skeleton.regenerate_ctrl(None)),
             ("solve-main-skeleton", lambda: gen_skeleton.regenerate_solve_main(None)),
             ("try-sites", lambda: gen_trysites.regenerate(None)),
             ("row-writes", lambda: gen_rowwrites.regenerate(None))]
    for name, fn in steps:
        try:
            fn()
            done.append(name)
        except Exception as exc:      # the dependent property module reports it (its own pre_build)
            done.append("%s:FAILED:%s" % (name, type(exc).__name__))
    return done


if __name__ == "__main__":
    for d in regenerate_all():
        print(d)
