"""Random small problems and solver configurations (structured, mostly valid), all from one rng."""
from __future__ import annotations

import numpy as np


def rand_problem(rng, nmax=3, mmax=5):
    n = int(rng.integers(1, nmax + 1))
    m = int(rng.integers(1, mmax + 1))
    A = rng.normal(size=(m, n))
    b = rng.normal(size=m)
    kind = int(rng.integers(0, 4))
    if kind == 3:
        # Rosenbrock-like (needs n >= 2)
        n = max(n, 2)
        def f(x):
            return np.concatenate([10.0 * (x[1:] - x[:-1] ** 2), 1.0 - x[:-1]])
        x0 = np.round(rng.normal(size=n), 2)
        return {"n": n, "m": 2 * (n - 1), "f": f, "x0": x0, "kind": "rosen", "A": None, "b": None}
    def f(x, A=A, b=b, kind=kind):
        r = A @ x - b
        if kind == 1:
            r = r + 0.3 * np.sin(3 * x).sum()
        elif kind == 2:
            r = r + 0.1 * (x ** 2).sum()
        return r
    x0 = np.round(rng.normal(size=n), 2)
    if kind == 0 and m > n and rng.random() < 0.25:
        # warm start AT the minimiser of an inconsistent linear system: non-zero residual that no run can improve on
        x0 = np.linalg.lstsq(A, b, rcond=None)[0]
        return {"n": n, "m": m, "f": f, "x0": x0, "kind": "lin-warm", "A": A, "b": b}
    return {"n": n, "m": m, "f": f, "x0": x0, "kind": ["lin", "sin", "quad"][kind], "A": A, "b": b}


def pball(x, c, r):
    return c + (r / np.max([np.linalg.norm(x - c), r])) * (x - c)


def pbox(x, l, u):
    return np.minimum(np.maximum(x, l), u)


def rand_config(rng, prob, allow=("bounds", "scaling", "proj", "avg", "soft", "hard", "npt", "growing", "regression", "regu", "noise", "diag", "randinit")):
    """returns (kwargs for solve, description dict). Only options documented as supported."""
    n = prob["n"]
    x0 = prob["x0"]
    kw = {}
    d = {"n": n, "kind": prob["kind"]}
    up = {}
    rhobeg = float(rng.choice([0.05, 0.1, 0.3, 1.0]))
    kw["rhobeg"] = rhobeg
    kw["rhoend"] = float(rng.choice([1e-8, 1e-6, 1e-4, 1e-2])) if rhobeg > 1e-2 else 1e-4
    d["rhobeg"], d["rhoend"] = kw["rhobeg"], kw["rhoend"]
    mf = int(rng.choice([1, 2, 3, n + 1, n + 2, 2 * n + 3, 15, 30, 60, 100]))
    kw["maxfun"] = mf
    d["maxfun"] = mf
    has_bounds = "bounds" in allow and rng.random() < 0.5
    has_proj = (not has_bounds) and "proj" in allow and rng.random() < 0.25
    if has_bounds:
        gap = 2 * rhobeg * (1 + rng.random(n) * 3)
        pos = rng.random(n)                     # where x0 sits in the box (may be outside / on a bound)
        choice = rng.integers(0, 5, size=n)
        xl = x0 - pos * gap
        xu = xl + gap
        for j in range(n):
            if choice[j] == 0:
                xl[j] = x0[j]; xu[j] = xl[j] + gap[j]            # exactly on lower
            elif choice[j] == 1:
                xu[j] = x0[j]; xl[j] = xu[j] - gap[j]            # exactly on upper
            elif choice[j] == 2:
                xl[j] = x0[j] + 0.3 * gap[j]; xu[j] = xl[j] + gap[j]   # x0 outside (below)
        onesided = rng.random() < 0.15
        if onesided:
            kw["bounds"] = (xl, None) if rng.random() < 0.5 else (None, xu)
            d["bounds"] = "one-sided"
        else:
            kw["bounds"] = (xl, xu)
            d["bounds"] = "box"
            if "scaling" in allow and rng.random() < 0.4:
                kw["scaling_within_bounds"] = True
                kw["rhobeg"] = min(0.1, 0.45)
                d["scaling"] = True
    if has_bounds and "proj" in allow and d.get("bounds") == "box" and "scaling_within_bounds" not in kw and rng.random() < 0.12:
        # bounds AND projections: solve() appends the box as the last projector
        xl_, xu_ = kw["bounds"]
        mid = 0.5 * (xl_ + xu_)
        a = rng.normal(size=n)
        a = a / np.linalg.norm(a)
        bb = float(a @ mid - 0.2 * rng.random())
        kw["projections"] = [lambda x, a=a, bb=bb: x if a @ x >= bb else x + (bb - a @ x) * a]
        d["proj"] = 1
        d["bounds"] = "box+proj"
    if has_proj:
        c = x0 + rng.normal(size=n) * 0.5
        P = [lambda x, c=c: pball(x, c, 1.0)]
        if rng.random() < 0.6:
            lo, hi = x0 - 0.7, x0 + 0.7
            P.append(lambda x, lo=lo, hi=hi: pbox(x, lo, hi))
        kw["projections"] = P
        d["proj"] = len(P)
    if "regu" in allow and rng.random() < 0.12 and not kw.get("scaling_within_bounds"):
        lam = float(10 ** rng.uniform(-2, 0))
        kw["h"] = lambda x, lam=lam: lam * float(np.sum(np.abs(x)))
        kw["lh"] = lam * float(np.sqrt(n))
        kw["prox_uh"] = lambda x, u, lam=lam: np.sign(x) * np.maximum(np.abs(x) - lam * u, 0.0)
        kw["maxfun"] = min(kw["maxfun"], 40)
        d["maxfun"] = kw["maxfun"]
        d["regu"] = lam
    if "avg" in allow and rng.random() < 0.25:
        kk = int(rng.integers(1, 4))
        mode = int(rng.integers(0, 3))
        if mode == 0:
            kw["nsamples"] = lambda delta, rho, it, nruns, kk=kk: kk
        elif mode == 1:
            kw["nsamples"] = lambda delta, rho, it, nruns, kk=kk: 1 + (it % kk)
        else:
            kw["nsamples"] = lambda delta, rho, it, nruns, kk=kk: kk - 1     # may return 0 (code uses max(k,1))
        d["avg"] = (kk, mode)
    r = rng.random()
    if "soft" in allow and r < 0.25:
        up["restarts.use_restarts"] = True
        up["restarts.use_soft_restarts"] = True
        if rng.random() < 0.5:
            up["restarts.soft.move_xk"] = bool(rng.random() < 0.5)
        if rng.random() < 0.3:
            up["restarts.increase_npt"] = True
            up["restarts.max_npt"] = None  # filled below
        if rng.random() < 0.4:
            up["restarts.max_unsuccessful_restarts"] = int(rng.integers(1, 4))
        d["restarts"] = "soft"
    elif "hard" in allow and r < 0.45:
        up["restarts.use_restarts"] = True
        up["restarts.use_soft_restarts"] = False
        if rng.random() < 0.5:
            up["restarts.hard.use_old_rk"] = bool(rng.random() < 0.5)
        if rng.random() < 0.3:
            up["restarts.increase_npt"] = True
            up["restarts.max_npt"] = None
        if rng.random() < 0.4:
            up["restarts.max_unsuccessful_restarts"] = int(rng.integers(1, 4))
        d["restarts"] = "hard"
    if "restarts.use_restarts" in up and rng.random() < 0.3:
        up["restarts.rhoend_scale"] = float(rng.choice([0.1, 0.5, 1.0]))
    npt = n + 1
    if "npt" in allow and rng.random() < 0.35 and not has_proj:
        npt = int(rng.integers(n + 1, 2 * n + 2))
        kw["npt"] = npt
        d["npt"] = npt
    if up.get("restarts.max_npt", 0) is None:
        up["restarts.max_npt"] = npt + int(rng.integers(1, 4))
    if "growing" in allow and rng.random() < 0.15 and not has_proj and npt >= 3:
        up["growing.ndirs_initial"] = int(rng.integers(1, npt))
        if rng.random() < 0.5:
            up["growing.num_new_dirns_each_iter"] = int(rng.integers(0, 3))
        d["growing"] = up["growing.ndirs_initial"]
    if "randinit" in allow and rng.random() < 0.12 and not has_proj:
        up["init.random_initial_directions"] = True
        if rng.random() < 0.5:
            up["init.random_directions_make_orthogonal"] = False
        if "parallel" in allow and rng.random() < 0.3:
            up["init.run_in_parallel"] = True
        d["randinit"] = True
    if "regression" in allow and npt > n + 1 and rng.random() < 0.4:
        up["regression.num_extra_steps"] = int(rng.integers(1, 3))
        if rng.random() < 0.3:
            up["regression.momentum_extra_steps"] = True
        d["regression"] = up["regression.num_extra_steps"]
    if "noise" in allow and rng.random() < 0.1:
        kw["objfun_has_noise"] = True
        d["noise"] = True
    if "noise" in allow and rng.random() < 0.12:
        # user-supplied noise level: exercises the 'all points within noise level' exit / restart route
        up["noise.quit_on_noise_level"] = True
        if rng.random() < 0.7:
            up["noise.additive_noise_level"] = float(10 ** rng.uniform(-3, 1))
        else:
            up["noise.multiplicative_noise_level"] = float(10 ** rng.uniform(-3, 0))
        d["noiselevel"] = True
    if rng.random() < 0.12:
        # tightened slow-progress parameters: exercises the slow-iteration exit / restart route
        up["slow.max_slow_iters"] = int(rng.integers(1, 5))
        up["slow.thresh_for_slow"] = float(rng.choice([1e-2, 0.1, 1.0]))
        up["slow.history_for_slow"] = int(rng.integers(1, 4))
        d["slow"] = True
    if "diag" in allow and rng.random() < 0.3:
        up["logging.save_diagnostic_info"] = True
        if rng.random() < 0.5:
            up["logging.save_poisedness"] = False
        d["diag"] = True
    if rng.random() < 0.2:
        up["model.abs_tol"] = float(rng.choice([1e-12, 1e-3, 1e-1, 1.0]))
        up["model.rel_tol"] = float(rng.choice([1e-20, 1e-3, 0.5]))
        d["tol"] = (up["model.abs_tol"], up["model.rel_tol"])
    if up:
        kw["user_params"] = up
    d["user_params"] = {k: v for k, v in up.items()}
    return kw, d


def faulty(f, k, kind):
    """objective that misbehaves at its k-th call (1-based); kind in nan, inf, -inf, huge, raise"""
    state = {"i": 0}

    class Boom(Exception):
        pass

    def g(x, *a):
        state["i"] += 1
        r = np.array(f(x, *a), dtype=float)
        if state["i"] == k or k == 0:
            if kind == "nan":
                r[0] = np.nan
            elif kind == "inf":
                r[0] = np.inf
            elif kind == "-inf":
                r[0] = -np.inf
            elif kind == "huge":
                r[0] = 1e200
            elif kind == "zero":              # not a fault: the residual vanishes at this one call (a planted solution)
                r[:] = 0.0
            elif kind == "raise":
                state["exc"] = Boom("fault injected at call %d" % state["i"])
                raise state["exc"]
            elif kind == "raise-linalg":      # an exception type dfols itself catches around its linear algebra
                state["exc"] = np.linalg.LinAlgError("fault injected at call %d" % state["i"])
                raise state["exc"]
            elif kind == "raise-value":
                state["exc"] = ValueError("fault injected at call %d" % state["i"])
                raise state["exc"]
            elif kind == "raise-overflow":
                state["exc"] = OverflowError("fault injected at call %d" % state["i"])
                raise state["exc"]
        return r
    g.Boom = Boom
    g.state = state
    return g
