"""Entry point: /verif/check <ID> [--tier quick|thorough] [--replay file]"""
import argparse
import importlib
import json
import os
import sys
import time
import traceback
import warnings

sys.path.insert(0, os.path.dirname(os.path.abspath(__file__)))
import core  # noqa: E402


def guarded(ctx, phase, fn):
    """an exception raised INSIDE the code under test (a frame in the dfols package) while the harness drives it with inputs
    the model accepts is a broken correspondence, not a failure of the tool; anything else propagates (exit 2)"""
    try:
        fn(ctx)
    except Exception as exc:
        root = os.path.join(os.path.realpath(core.REPO), "dfols") + os.sep
        frames = [f for f in traceback.extract_tb(exc.__traceback__) if os.path.realpath(f.filename).startswith(root)]
        if not frames:
            raise
        last = frames[-1]
        ctx.broke("%s:code-under-test-raised" % phase, {"exception": type(exc).__name__, "message": str(exc)[:200],
                                                        "where": "%s:%d %s" % (os.path.relpath(last.filename, root), last.lineno, last.name),
                                                        "harness_frame": next(("%s:%d" % (os.path.basename(f.filename), f.lineno)
                                                                               for f in reversed(traceback.extract_tb(exc.__traceback__))
                                                                               if "harness" in f.filename), "?")})


def main():
    ap = argparse.ArgumentParser()
    ap.add_argument("prop")
    ap.add_argument("--tier", default=os.environ.get("VERIF_TIER", "quick"))
    ap.add_argument("--replay", default=None)
    args = ap.parse_args()
    prop = args.prop.upper()
    tier = args.tier if args.tier in ("quick", "thorough") else "quick"
    seed = int(os.environ.get("VERIF_SEED", "0") or 0)
    warnings.simplefilter("ignore")
    mod = importlib.import_module("props." + prop.lower())
    if args.replay:
        payload = json.load(open(args.replay))
        rc = mod.replay(payload)
        sys.exit(rc)
    ctx = core.Ctx(prop, tier, seed)
    try:
        import gen_all
        ctx.cov["generated_files_refreshed"] = gen_all.regenerate_all()     # never build against tables of another tree
        import gen
        gen.regenerate(ctx)
        if hasattr(mod, "pre_build"):
            mod.pre_build(ctx)
        # build only what this property needs (its theorem module + the driver modules its Main imports)
        build = core.lake_build(tuple([mod.MODULE] + list(getattr(mod, "BUILD_TARGETS", []))))
        audit = core.audit_axioms(prop, mod.MODULE, mod.THEOREMS) if build.ok else None
        if tier == "thorough" and build.ok:
            core.leanchecker(ctx, mod.MODULE)
        ctx.boost = 1
        guarded(ctx, "correspondence", mod.correspondence)
        guarded(ctx, "search", mod.search)
        if (ctx.broken or not build.ok) and not ctx.failures:
            # a proof obligation / correspondence no longer checks: enlarge the failing-input search
            ctx.boost = 5
            ctx.notes.append("enlarged failing-input search because an obligation/correspondence broke")
            guarded(ctx, "search", mod.search)
        rc = core.finish(ctx, mod.MODULE, mod.THEOREMS, build, audit, level=getattr(mod, "LEVEL", "proof"),
                         trusted_extra=getattr(mod, "TRUSTED_EXTRA", ()), explanation=getattr(mod, "EXPLANATION", ""))
    except Exception:
        traceback.print_exc()
        print("%s: TOOL-FAILURE (exit 2)" % prop)
        sys.exit(2)
    sys.exit(rc)


if __name__ == "__main__":
    main()
