"""Entry point: /verif/check <ID> [--tier quick|thorough] [--replay file]"""
import argparse
import importlib
import json
import os
import sys
import time
import traceback
import warnings

sys.path.insert(0, os.path.dirname(os.path.abspath(__file__)))
import core  # noqa: E402


def main():
    ap = argparse.ArgumentParser()
    ap.add_argument("prop")
    ap.add_argument("--tier", default=os.environ.get("VERIF_TIER", "quick"))
    ap.add_argument("--replay", default=None)
    args = ap.parse_args()
    prop = args.prop.upper()
    tier = args.tier if args.tier in ("quick", "thorough") else "quick"
    seed = int(os.environ.get("VERIF_SEED", "0") or 0)
    warnings.simplefilter("ignore")
    mod = importlib.import_module("props." + prop.lower())
    if args.replay:
        payload = json.load(open(args.replay))
        rc = mod.replay(payload)
        sys.exit(rc)
    ctx = core.Ctx(prop, tier, seed)
    try:
        import gen
        gen.regenerate(ctx)
        if hasattr(mod, "pre_build"):
            mod.pre_build(ctx)
        # build only what this property needs (its theorem module + the driver modules its Main imports)
        build = core.lake_build(tuple([mod.MODULE] + list(getattr(mod, "BUILD_TARGETS", []))))
        audit = core.audit_axioms(prop, mod.MODULE, mod.THEOREMS) if build.ok else None
        if tier == "thorough" and build.ok:
            core.leanchecker(ctx, mod.MODULE)
        ctx.boost = 1
        mod.correspondence(ctx)
        mod.search(ctx)
        if (ctx.broken or not build.ok) and not ctx.failures:
            # a proof obligation / correspondence no longer checks: enlarge the failing-input search
            ctx.boost = 5
            ctx.notes.append("enlarged failing-input search because an obligation/correspondence broke")
            mod.search(ctx)
        rc = core.finish(ctx, mod.MODULE, mod.THEOREMS, build, audit, level=getattr(mod, "LEVEL", "proof"),
                         trusted_extra=getattr(mod, "TRUSTED_EXTRA", ()), explanation=getattr(mod, "EXPLANATION", ""))
    except Exception:
        traceback.print_exc()
        print("%s: TOOL-FAILURE (exit 2)" % prop)
        sys.exit(2)
    sys.exit(rc)


if __name__ == "__main__":
    main()
