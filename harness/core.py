"""Core of the check pipeline: build + axiom audit, Lean driver, evidence, verdict.

Every property check is   regenerate tables -> lake build -> audit axioms -> correspondence
-> failing-input search -> verdict  (DESIGN.md section 1).
"""
from __future__ import annotations

import fcntl
import hashlib
import json
import os
import re
import struct
import subprocess
import sys
import time
import traceback

VERIF = os.path.dirname(os.path.dirname(os.path.abspath(__file__)))
LEAN_DIR = os.path.join(VERIF, "lean")
REPO = os.environ.get("DFOLS_REPO", "/repo")
EVIDENCE_DIR = os.path.join(VERIF, "evidence")
REPLAY_DIR = os.path.join(VERIF, "out", "replay")
KNOWN_FINDINGS = os.path.join(VERIF, "known_findings.json")
ALLOWED_AXIOMS = {"propext", "Classical.choice", "Quot.sound"}
FORBIDDEN = re.compile(r"\bsorry\b|\badmit\b|^axiom |native_decide|bv_decide|implemented_by|unsafe |maxHeartbeats 0", re.M)

TRUSTED_BASE_COMMON = [
    "Lean 4.33.0 kernel (+ leanchecker re-check in the thorough tier)",
    "axioms allowed: propext, Classical.choice, Quot.sound (audited with #print axioms on every run)",
    "hand-written Lean model tied to /repo by the correspondence suites run in this check (differential, sampled)",
    "IEEE-754: non-NaN doubles are linearly ordered, comparisons with NaN are false; order-key encoding of doubles is an order embedding",
    "harness: wrappers, generators, comparators and search oracles (Python/NumPy)",
]


# ----------------------------------------------------------------------------------------------
# repo import (always from /repo's working tree, never a cached copy)
# ----------------------------------------------------------------------------------------------
def import_dfols():
    if REPO not in sys.path:
        sys.path.insert(0, REPO)
    for m in [m for m in sys.modules if m == "dfols" or m.startswith("dfols.")]:
        del sys.modules[m]
    os.environ.setdefault("DFOLS_VERIF", "1")
    import dfols  # noqa
    path = os.path.dirname(os.path.abspath(dfols.__file__))
    assert path.startswith(os.path.abspath(REPO)), "dfols imported from %s, not %s" % (path, REPO)
    return dfols


# ----------------------------------------------------------------------------------------------
# float <-> bits / order keys
# ----------------------------------------------------------------------------------------------
def f2bits(x: float) -> int:
    return struct.unpack("<Q", struct.pack("<d", float(x)))[0]


def bits2f(b: int) -> float:
    return struct.unpack("<d", struct.pack("<Q", b))[0]


def fkey(x) -> str:
    """order key of a double: 'n' for NaN, else signed-magnitude integer (-0.0 -> 0)."""
    x = float(x)
    if x != x:
        return "n"
    b = f2bits(x)
    if b >> 63:
        return str(-(b & ((1 << 63) - 1)))
    return str(b)


def key2f(k: str) -> float:
    """inverse of fkey"""
    if k == "n":
        return float("nan")
    v = int(k)
    return bits2f(v) if v >= 0 else -bits2f(-v)


def fbits(x) -> str:
    x = float(x)
    return "nan" if x != x else str(f2bits(x))


def fbits_raw(x) -> str:
    return str(f2bits(float(x)))


# ----------------------------------------------------------------------------------------------
# Lean: build, audit, driver
# ----------------------------------------------------------------------------------------------
class LeanBuild:
    ok = False
    log = ""
    wall = 0.0


def _lock():
    os.makedirs(os.path.join(LEAN_DIR, ".lake"), exist_ok=True)
    f = open(os.path.join(LEAN_DIR, ".lake", "verif.lock"), "w")
    fcntl.flock(f, fcntl.LOCK_EX)
    return f


def lake_build(targets=("DfolsVerif",)) -> LeanBuild:
    res = LeanBuild()
    t0 = time.time()
    lk = _lock()
    try:
        p = subprocess.run(["lake", "build", *targets], cwd=LEAN_DIR, capture_output=True, text=True, timeout=3000)
        res.ok = p.returncode == 0
        res.log = p.stdout + p.stderr
    except subprocess.TimeoutExpired:
        res.ok = False
        res.log = "lake build timed out"
    finally:
        lk.close()
    res.wall = time.time() - t0
    return res


def audit_axioms(prop: str, module: str, theorems: list[str]) -> dict:
    """#print axioms for each theorem; returns {theorem: [axioms]} or raises."""
    d = os.path.join(LEAN_DIR, ".lake", "audit")
    os.makedirs(d, exist_ok=True)
    path = os.path.join(d, prop + ".lean")
    with open(path, "w") as f:
        f.write("import %s\n" % module)
        for t in theorems:
            f.write("#print axioms %s\n" % t)
    p = subprocess.run(["lake", "env", "lean", path], cwd=LEAN_DIR, capture_output=True, text=True, timeout=1800)
    out = p.stdout + p.stderr
    res = {}
    # outputs: "'name' depends on axioms: [a, b]" or "'name' does not depend on any axioms"
    for m in re.finditer(r"'([^']+)' depends on axioms: \[([^\]]*)\]", out, re.S):
        res[m.group(1)] = [a.strip() for a in m.group(2).replace("\n", " ").split(",") if a.strip()]
    for m in re.finditer(r"'([^']+)' does not depend on any axioms", out):
        res[m.group(1)] = []
    return {"ok": p.returncode == 0, "axioms": res, "raw": out}


def grep_forbidden() -> list[str]:
    hits = []
    for root, _dirs, files in os.walk(LEAN_DIR):
        if ".lake" in root:
            continue
        for fn in files:
            if not fn.endswith(".lean"):
                continue
            p = os.path.join(root, fn)
            txt = open(p).read()
            # strip comments (block and line) before grepping
            txt2 = re.sub(r"/-.*?-/", lambda m: "\n" * m.group(0).count("\n"), txt, flags=re.S)
            txt2 = re.sub(r"--.*", "", txt2)
            for m in FORBIDDEN.finditer(txt2):
                line = txt2.count("\n", 0, m.start()) + 1
                hits.append("%s:%d:%s" % (os.path.relpath(p, LEAN_DIR), line, m.group(0)))
    return hits


def run_driver(lines: list[str], timeout=600, main="Main.lean") -> list[str]:
    """Pipe protocol lines through a Lean driver (lean/<main>), return one reply per line."""
    inp = "\n".join(lines) + "\n"
    p = subprocess.run(["lake", "env", "lean", "--run", main], cwd=LEAN_DIR, input=inp,
                       capture_output=True, text=True, timeout=timeout)
    if p.returncode != 0:
        raise RuntimeError("Lean driver failed: " + p.stderr[-2000:] + p.stdout[-500:])
    out = p.stdout.split("\n")
    if out and out[-1] == "":
        out.pop()
    if len(out) != len(lines):
        raise RuntimeError("Lean driver returned %d replies for %d lines" % (len(out), len(lines)))
    return out


# ----------------------------------------------------------------------------------------------
# known findings
# ----------------------------------------------------------------------------------------------
def load_known():
    if not os.path.exists(KNOWN_FINDINGS):
        return {"known": [], "fixed": []}
    return json.load(open(KNOWN_FINDINGS))


# ----------------------------------------------------------------------------------------------
# check context
# ----------------------------------------------------------------------------------------------
class Failure:
    """A concrete input on which the property fails on the real code."""

    def __init__(self, signature: str, what: str, replay: dict):
        self.signature = signature      # stable id of the failing call site / input class
        self.what = what                # one-line description
        self.replay = replay            # JSON-able, enough to re-run


class Ctx:
    def __init__(self, prop: str, tier: str, seed: int):
        self.prop = prop
        self.tier = tier
        self.seed = seed
        self.t0 = time.time()
        self.cov = {}                   # coverage dict for evidence
        self.samples = []
        self.assumptions = []
        self.broken = []                # broken proof obligations / correspondences (names + detail)
        self.failures: list[Failure] = []
        self.notes = []
        self.evaluations = 0
        self.distinct = set()

    def thorough(self) -> bool:
        return self.tier == "thorough"

    def scale(self, quick: int, thorough: int) -> int:
        return thorough if self.thorough() else quick

    def add_sample(self, s, limit=6):
        if len(self.samples) < limit:
            self.samples.append(s)

    def count(self, key: str, n: int = 1):
        self.cov[key] = self.cov.get(key, 0) + n

    def seen(self, obj):
        """count a distinct non-trivial case"""
        self.evaluations += 1
        h = hashlib.sha1(repr(obj).encode()).hexdigest()[:16]
        self.distinct.add(h)

    def broke(self, name: str, detail):
        self.broken.append({"name": name, "detail": detail})

    def fail(self, signature: str, what: str, replay: dict):
        self.failures.append(Failure(signature, what, replay))


def write_replay(prop: str, payload: dict) -> str:
    os.makedirs(REPLAY_DIR, exist_ok=True)
    h = hashlib.sha1(json.dumps(payload, sort_keys=True, default=str).encode()).hexdigest()[:10]
    path = os.path.join(REPLAY_DIR, "%s_%s.json" % (prop, h))
    with open(path, "w") as f:
        json.dump(payload, f, indent=1, default=str)
    return path


def finish(ctx: Ctx, module: str, theorems: list[str], build: LeanBuild, audit: dict | None, level="proof",
           trusted_extra=(), explanation=""):
    """Compute verdict, write evidence, print VIOLATION / KNOWN-FINDING lines, return exit code."""
    known = load_known()
    known_list = [k for k in known.get("known", []) if k["property"] == ctx.prop]

    class _Known(dict):
        """lookup by exact signature or by the entry's signature_regex (full match)"""

        def find(self, sig):
            for k in known_list:
                if k.get("signature") == sig or ("signature_regex" in k and re.fullmatch(k["signature_regex"], sig)):
                    return k
            return None

        def __contains__(self, sig):
            return self.find(sig) is not None

        def __getitem__(self, sig):
            return self.find(sig)

    known_sigs = _Known()
    discharged = 0
    obligations = len(theorems)
    ax_report = {}
    if build.ok and audit is not None:
        for t in theorems:
            ax = audit["axioms"].get(t)
            if ax is None:
                ctx.broke("theorem:" + t, "not found / not checked by #print axioms")
            elif not set(ax) <= ALLOWED_AXIOMS:
                ctx.broke("theorem:" + t, "depends on disallowed axioms %s" % ax)
            else:
                discharged += 1
                ax_report[t] = ax
    elif not build.ok:
        ctx.broke("lake build", build.log[-3000:])
    forb = grep_forbidden()
    if forb:
        ctx.broke("forbidden-token", forb)

    lines = []
    exit_code = 0
    nviol = 0
    seen_known = set()
    for f in ctx.failures:
        if f.signature in known_sigs:
            kid = known_sigs[f.signature].get("signature") or known_sigs[f.signature].get("signature_regex")
            if kid not in seen_known:
                seen_known.add(kid)
                lines.append("KNOWN-FINDING: property=%s %s [%s]" % (ctx.prop, known_sigs[f.signature]["what"], f.signature))
            continue
        nviol += 1
        path = write_replay(ctx.prop, {"property": ctx.prop, "kind": "failing-input", "signature": f.signature,
                                       "what": f.what, "seed": ctx.seed, "tier": ctx.tier, "replay": f.replay})
        lines.append("VIOLATION property=%s replay=%s" % (ctx.prop, path))
        exit_code = 1
    if ctx.broken and nviol == 0:
        # a proof obligation or correspondence no longer checks and no concrete failing input was found
        path = write_replay(ctx.prop, {"property": ctx.prop, "kind": "broken-obligation", "seed": ctx.seed,
                                       "tier": ctx.tier, "broken": ctx.broken,
                                       "note": "the theorem / correspondence named here no longer checks; "
                                               "the failing-input search on the real code found nothing"})
        lines.append("VIOLATION property=%s replay=%s no-failing-input-found" % (ctx.prop, path))
        exit_code = 1
        nviol += 1

    cov = dict(ctx.cov)
    cov.update({
        "obligations": obligations,
        "discharged": discharged,
        "checker_cmd": "cd /verif/lean && lake build && lake env lean .lake/audit/%s.lean  (#print axioms of: %s)" % (ctx.prop, ", ".join(theorems)),
        "trusted_base": TRUSTED_BASE_COMMON + list(trusted_extra),
        "axioms_per_theorem": ax_report,
        "lean_module": module,
        "lake_build_ok": build.ok,
        "lake_build_wall_s": round(build.wall, 2),
        "evaluations": ctx.evaluations,
        "distinct_nontrivial": len(ctx.distinct),
        "samples": ctx.samples if ctx.samples else ["(no samples recorded)"],
        "broken_obligations": ctx.broken,
        "known_findings_replayed": sorted(seen_known),
        "failures_found": [{"signature": f.signature, "what": f.what} for f in ctx.failures][:20],
        "notes": ctx.notes,
    })
    if explanation:
        cov["explanation"] = explanation
    ev = {
        "property_id": ctx.prop,
        "tier": ctx.tier,
        "seed": ctx.seed,
        "level": level,
        "coverage": cov,
        "assumptions": ctx.assumptions,
        "wall_s": round(time.time() - ctx.t0, 2),
        "violations": nviol,
    }
    os.makedirs(EVIDENCE_DIR, exist_ok=True)
    with open(os.path.join(EVIDENCE_DIR, ctx.prop + ".json"), "w") as f:
        json.dump(ev, f, indent=1, default=str)
    for b in ctx.broken[:6]:
        print("BROKEN-OBLIGATION %s: %s" % (b["name"], json.dumps(b["detail"], default=str)[:700]))
    for ln in lines:
        print(ln)
    print("%s: %s tier=%s seed=%d theorems=%d/%d evaluations=%d failures=%d broken=%d wall=%.1fs" % (
        ctx.prop, "OK" if exit_code == 0 else "FAIL", ctx.tier, ctx.seed, discharged, obligations,
        ctx.evaluations, len(ctx.failures), len(ctx.broken), time.time() - ctx.t0))
    return exit_code


class Alarm(Exception):
    pass


def with_alarm(seconds, fn, *a, **k):
    """run fn under an alarm (some dfols configurations never terminate).  The budget is CPU time of this process
    (ITIMER_PROF), so that a loaded machine does not turn a slow run into a 'non-termination'; a wall-clock backstop
    of 20x the budget guards against a blocked process."""
    import signal

    def h(_s, _f):
        raise Alarm()

    old_p = signal.signal(signal.SIGPROF, h)
    old_r = signal.signal(signal.SIGALRM, h)
    signal.setitimer(signal.ITIMER_PROF, seconds)
    signal.setitimer(signal.ITIMER_REAL, 20.0 * seconds)
    try:
        return fn(*a, **k)
    finally:
        signal.setitimer(signal.ITIMER_PROF, 0)
        signal.setitimer(signal.ITIMER_REAL, 0)
        signal.signal(signal.SIGPROF, old_p)
        signal.signal(signal.SIGALRM, old_r)


def leanchecker(ctx, module):
    """thorough tier: independent re-check of the compiled .olean files"""
    try:
        p = subprocess.run(["lake", "env", "leanchecker", module], cwd=LEAN_DIR, capture_output=True, text=True, timeout=3000)
        ok = p.returncode == 0
        ctx.cov["leanchecker"] = {"module": module, "ok": ok, "tail": (p.stdout + p.stderr)[-300:]}
        if not ok:
            ctx.broke("leanchecker:" + module, (p.stdout + p.stderr)[-2000:])
    except Exception as e:  # tool problem, not a violation
        ctx.cov["leanchecker"] = {"module": module, "ok": None, "error": str(e)}
