"""Regenerate /verif/MANIFEST.json from the table below (run after adding a property check)."""
import json
import os

VERIF = os.path.dirname(os.path.dirname(os.path.abspath(__file__)))
ALL = ["C%02d" % i for i in range(1, 21)]

# id -> (technique, level text, level_note, design_ref)
CHECKS = {
    "C17": ("Lean 4 theorems (induction over all operation sequences of the Model state machine) + op-sequence correspondence with the real Model",
            "Proof: for every operation list and every value pattern (NaN/inf/ties) the Lean state machine keeps labels, sample counts, "
            "running means, stored objectives, the incumbent's minimality (guarded) and get_final_results' choice correct; the real "
            "dfols.model.Model is tied to it by comparing the full abstract state after every operation of random sequences.",
            "Trusted: Lean kernel; axioms propext/Classical.choice/Quot.sound; correspondence is sampled (differential); coordinates and "
            "LAPACK are not modelled; the arithmetic-mean theorem is exact arithmetic (float recurrence compared bit-for-bit).",
            "6/C17"),
    "C02": ("Lean 4 theorems (invariant by induction over all event lists accepted by the counting acceptor) + trace correspondence with real dfols.solve runs",
            "Proof: for every event list accepted by CountAcc (mirror of the x0 sampling block, evaluate_objective and the nf/nx threading): "
            "evaluations <= maxfun, nf = number of evaluations, numbers 1..nf, point numbers gap-free, same point number => identical x, "
            "samples per point = min(requested, budget left), soln.nf/nx exact. Real traces (monkey-patched wrappers) must be accepted.",
            "Trusted: Lean kernel; standard axioms; the acceptor is a hand-written mirror of the code tied by sampled trace inclusion; wrappers report events faithfully.",
            "6/C02"),
    "C20": ("Lean 4 theorems about a model of to_dict/replace_nan_with_none/json transport/from_dict/__str__ + differential correspondence on real and synthetic results",
            "Proof: for every result record (NaN/None/inf fields, optional Jacobian/labels/diagnostic table) fromDict(dumpsLoads(toDict r)) agrees with r field by field "
            "(NaN=NaN, table cells/columns/row order), the replaced dict has no NaN, None is mapped back to NaN (obj included), equal fields print equally; "
            "the real to_dict/json/from_dict/str is compared with the model on results of real solves (most exit flags) and synthetic objects.",
            "Trusted: Lean kernel; standard axioms; json.dumps/loads and pandas modelled as the identity on JSON-representable data (keys stringified); printing reduced to field equality; "
            "known limitations listed in known_findings.json (inf not strict JSON; save_xk/save_rk arrays).",
            "6/C20"),
}

PENDING_REASON = "check not built yet in this round (planned: see DESIGN.md section 6); not claimed until its theorem, correspondence and search exist"


def main():
    checks = []
    for pid in ALL:
        if pid not in CHECKS:
            continue
        tech, text, note, ref = CHECKS[pid]
        checks.append({
            "property_id": pid,
            "quick_cmd": "./check %s --tier quick" % pid,
            "thorough_cmd": "./check %s --tier thorough" % pid,
            "evidence_file": "evidence/%s.json" % pid,
            "replay_cmd_template": "./check %s --replay {path}" % pid,
            "engine": "lean4-model+correspondence",
            "level_claimed": {"category": "proof", "text": text, "design_ref": "DESIGN.md " + ref},
            "level_note": note,
            "technique": tech,
        })
    na_path = os.path.join(VERIF, "harness", "not_applicable.json")
    na_extra = json.load(open(na_path)) if os.path.exists(na_path) else {}
    na = [{"property_id": p, "reason": na_extra.get(p, PENDING_REASON)} for p in ALL if p not in CHECKS]
    man = {
        "version": 1,
        "setup_cmd": "cd /verif/lean && lake build",
        "hooks": {
            "guard": "DFOLS_VERIF",
            "enable": "no source hooks: instrumentation is monkey-patched wrappers installed by the harness at run time (DFOLS_VERIF=1 is set by the harness for symmetry only)",
            "baseline_off_cmd": "cd /repo && env -u DFOLS_VERIF /venv/bin/python -m pytest -ra -q -p no:cacheprovider --timeout=900 --continue-on-collection-errors",
            "source_commits": [],
            "add_only": True,
        },
        "engines": [{
            "name": "lean4-model+correspondence",
            "path": "lean/ (Lean 4 model + theorems), harness/ (correspondence, search), check (entry point)",
            "serves_properties": sorted(CHECKS),
            "kind_free_text": "machine-checked proof in Lean 4 about a hand-written model; model tied to /repo by differential correspondence on every run; failing-input search on the real code",
        }],
        "checks": checks,
        "not_applicable": na,
        "notes": "Every check: regenerate tables from /repo -> lake build -> #print axioms audit -> correspondence -> failing-input search. "
                 "Exit 2 = tool failure/timeout (never 1). known_findings.json lists recorded defects and fix: commits.",
    }
    with open(os.path.join(VERIF, "MANIFEST.json"), "w") as f:
        json.dump(man, f, indent=1)
    print("MANIFEST.json: %d checks, %d not_applicable" % (len(checks), len(na)))


if __name__ == "__main__":
    main()
