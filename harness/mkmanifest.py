"""Regenerate /verif/MANIFEST.json from the table below (run after adding a property check)."""
import json
import os

VERIF = os.path.dirname(os.path.dirname(os.path.abspath(__file__)))
ALL = ["C%02d" % i for i in range(1, 21)]

# id -> (technique, level text, level_note, design_ref)
CHECKS = {
    "C17": ("Lean 4 theorems (induction over all operation sequences of the Model state machine) + op-sequence correspondence with the real Model",
            "Proof: for every operation list and every value pattern (NaN/inf/ties) the Lean state machine keeps labels, sample counts, "
            "running means, stored objectives, the incumbent's minimality (guarded) and get_final_results' choice correct; the real "
            "dfols.model.Model is tied to it by comparing the full abstract state after every operation of random sequences.",
            "Trusted: Lean kernel; axioms propext/Classical.choice/Quot.sound; correspondence is sampled (differential); coordinates and "
            "LAPACK are not modelled; the arithmetic-mean theorem is exact arithmetic (float recurrence compared bit-for-bit).",
            "6/C17"),
    "C02": ("Lean 4 theorems (invariant by induction over all event lists accepted by the counting acceptor) + trace correspondence with real dfols.solve runs",
            "Proof: for every event list accepted by CountAcc (mirror of the x0 sampling block, evaluate_objective and the nf/nx threading): "
            "evaluations <= maxfun, nf = number of evaluations, numbers 1..nf, point numbers gap-free, same point number => identical x, "
            "samples per point = min(requested, budget left), soln.nf/nx exact. Real traces (monkey-patched wrappers) must be accepted.",
            "Trusted: Lean kernel; standard axioms; the acceptor is a hand-written mirror of the code tied by sampled trace inclusion; wrappers report events faithfully.",
            "6/C02"),
    "C20": ("Lean 4 theorems about a model of to_dict/replace_nan_with_none/json transport/from_dict/__str__ + differential correspondence on real and synthetic results",
            "Proof: for every result record (NaN/None/inf fields, optional Jacobian/labels/diagnostic table) fromDict(dumpsLoads(toDict r)) agrees with r field by field "
            "(NaN=NaN, table cells/columns/row order), the replaced dict has no NaN, None is mapped back to NaN (obj included), equal fields print equally; "
            "the real to_dict/json/from_dict/str is compared with the model on results of real solves (most exit flags) and synthetic objects.",
            "Trusted: Lean kernel; standard axioms; json.dumps/loads and pandas modelled as the identity on JSON-representable data (keys stringified); printing reduced to field equality; "
            "known limitations listed in known_findings.json (inf not strict JSON; save_xk/save_rk arrays).",
            "6/C20"),
    "C03": ("Lean 4 theorems (invariant over all event lists accepted by the book-keeping acceptor, which replays the run on the proved L1 Model state machine) + trace correspondence",
            "Proof: for every accepted event list ending with the OptimResults event, xmin_eval_num / obj are those of a candidate whose samples are evaluations really made, "
            "all at that point number and the same x (soft restarts, hard restarts, exit at x0, averaging). Real traces must be accepted and the candidate's evaluations must reproduce soln.x / soln.resid.",
            "Trusted: Lean kernel; standard axioms; acceptor = hand-written mirror of the call sites, tied by sampled trace inclusion; float comparison of soln.x/resid with the named evaluations is a correspondence, not a theorem; "
            "init.run_in_parallel is a recorded finding.",
            "6/C03"),
    "C04": ("Lean 4 theorems (coverage invariant over all accepted event lists: the value that would be returned dominates every evaluation made; path theorems over the control-flow skeletons of the main loop and of the eight evaluating Controller methods, translated from the AST on every run: no evaluated point is dropped on any execution path) + trace correspondence",
            "Proof: for every accepted event list without averaging/regulariser ending with the OptimResults event, soln.obj is at least as good (NaN worst) as the objective of EVERY evaluation event, "
            "across soft/hard restarts and all exit routes; the acceptor enforces the Guard on writes to the incumbent's row and that no evaluated point is dropped. Real traces must be accepted.",
            "Trusted: Lean kernel; standard axioms; acceptor tied by sampled trace inclusion; regulariser case only up to rounding (search with tolerance); init.run_in_parallel is a recorded finding.",
            "6/C04"),
    "C08": ("Lean 4 theorems (corollaries of the C02/C04 invariants over arbitrary NaN/inf values + absorbing 'raised' phase) + fault enumeration on the real code",
            "Proof: in every accepted trace a non-NaN evaluation value k forces the returned objective to be a number <= k; budget/numbering hold for any values; no evaluation follows an exception. "
            "Fault enumeration: every fault kind at sampled/all evaluation indices of reference runs, checked directly and against the acceptors.",
            "Trusted: Lean kernel; standard axioms; that NumPy/LAPACK never raise after a fault is enumerated, not proved; averaging: the evaluation point (mean) is the unit kept (recorded finding).",
            "6/C08"),
    "C10": ("Lean 4 theorems (invariants of the exit/run-count acceptor over all accepted event lists; path theorems over the control-flow skeleton of solve_main's main loop translated from the AST on every run; theorems decided over the generated table of all exit-creation sites) + trace correspondence",
            "Proof: nruns = entries of solve_main + successful soft restarts; max-evaluations warning => budget used up; 'maximum unsuccessful restarts' => that many runs; "
            "'sufficiently small' => tested value <= threshold (not NaN); 'rho has reached rhoend' => rho <= rhoend. At the source: on EVERY execution path of the translated main loop nruns_so_far is incremented exactly once per break / soft restart and never otherwise, and every break carries an exit object. Real traces must be accepted; the six implications are searched directly.",
            "Trusted: Lean kernel; standard axioms; acceptor tied by sampled trace inclusion; 'success never with a non-finite objective' is not a theorem (recorded finding when no evaluation is finite).",
            "6/C10"),
    "C14": ("Lean 4 theorems about a model of the coordinate initialisation and the direction generators (any rounding for bounds, exact arithmetic for distances/independence) + bit-exact correspondence",
            "Proof: every initial point inside the bounds for any rounding; in exact arithmetic (gap >= 2 rhobeg) each point is x0 + t e_i (or a two-coordinate combination) with rhobeg/100 <= |t| <= 2 rhobeg, "
            "affinely independent, full column rank; generators: count, bounds (any rounding), length <= delta except block 4 (<= 2 delta, recorded finding). "
            "Model vs real solver / generators compared bit for bit (RNG draws recorded).",
            "Trusted: Lean kernel; standard axioms; cond < 1e4 is not proved (searched numerically); np.linalg.norm and Q are oracle inputs; projections branch / run_in_parallel / scaling not modelled.",
            "6/C14"),
    "C01": ("Lean 4 theorems about the clipping kernels for ANY rounding of + and x (uninterpreted operations on order keys) + AST-regenerated call-site inventory + bit-exact Float correspondence",
            "Proof: as_absolute_coordinates, remove_scaling and their composition return a value inside the user's bounds (or NaN) for every rounding, base point, step and accumulated relative bounds; x0 clamping lands in the bounds; "
            "every evaluate_objective / objfun call site in /repo (regenerated from the AST each run) is of that shape. Float model compared bit for bit with the real functions.",
            "Trusted: Lean kernel; standard axioms; double<->Int order-key embedding; the call-site inventory is syntactic (translator gen_callsites.py); that a step is never NaN is numerics (search); projections case rests on C09.",
            "6/C01"),
    "C09": ("Lean 4 theorems about Dykstra's routine (feasibility bound in any real inner-product space; last-projector exactness for any rounding) and a trace model of 'every evaluation is a projected point' + oracle-mode bit-exact correspondence",
            "Proof: when the routine stops by its rule the result is within sqrt(p*tol) of every set (exact arithmetic), it lies exactly in the last set (the bound box) for any rounding, and in every accepted trace each evaluation after x0 is a box-last Dykstra output / an infeasible x0 is replaced. "
            "Real runs with projections must be accepted traces; each recorded dykstra call is replayed in Lean Float.",
            "Trusted: Lean kernel; standard axioms; user projectors are oracle values; feasibility bound is exact-arithmetic (float gap O(eps)); trace inclusion is sampled.",
            "6/C09"),
    "C15": ("Lean 4 theorems about Dykstra's routine over arbitrary operations (sweep cap, last-set exactness, fixed point) and over real inner-product spaces (feasibility bound); theorem decided over the generated table of every dykstra call of the package (sweep budget / tolerance handed over) + oracle/closed-language Float correspondence",
            "Proof: sweeps <= max_iter, result in the last set (box) exactly for any rounding, a common point is returned unchanged, stopped-by-rule => within sqrt(p*tol) of every set. "
            "The near-optimality clause is NOT a theorem (false: kernel-checked IEEE counter-example; recorded findings). Real util.dykstra replayed bit-exactly with recorded projector outputs.",
            "Trusted: Lean kernel; standard axioms; projectors as oracles / a closed language (box, ball, half-space); stopping sum compared with 1e-12 relative tolerance (np.float64**2 is not bit-reproducible).",
            "6/C15"),
    "C18": ("Lean 4 theorems (real-arithmetic invariants of the radius-update kernels, induction over all operation sequences; no-stall over every path of the translated main loop) + AST-hash tie of every radius assignment + bit-exact Float correspondence with observed updates",
            "Proof: from delta=rho=rhobeg>=rhoend>0, after any sequence of reduce_rho / ratio-class updates / geometry reductions / restarts (any ratios, norms, tau, distances): delta>=rho, rhoend<=rho<=rhobeg, rho>0; rho never increases within a run; "
            "delta<=1e10 for tau=1; reduce_rho strictly decreases rho for alpha1<1. The source of every assignment to delta/rho/rhoend is re-hashed from /repo each run; the Float kernels reproduce observed updates bit for bit.",
            "Trusted: Lean kernel; standard axioms; exact arithmetic (rounding not covered); hypothesis 1/250<=alpha1<=1; table-shape clauses are searched on real diagnostic tables, not proved.",
            "6/C18"),
    "C16": ("Lean 4 theorems about the interpolation specification (exact arithmetic, LAPACK results as hypotheses) and the factorisation flag over all Model operation sequences + exact-rational correspondence on the real Model",
            None,
            "Trusted: Lean kernel; standard axioms; LAPACK exactness and conditioning-proportional rounding bounds are NOT proved (observed with tolerance 64(n+1) eps cond(W) scale); PARTIAL.",
            "6/C16"),
    "C11": ("Lean 4 theorems (labels snapshot over all Model operation sequences; un-scaling and fit algebra in exact arithmetic) + independent exact least-squares fit through the recorded evaluations of real runs",
            None,
            "Trusted: Lean kernel; standard axioms; LAPACK exactness not proved (tolerance 32(n+1) eps cond posfac ...); label = true evaluation number rests on C03; PARTIAL.",
            "6/C11"),
    "C05": ("Lean 4 theorems (interpolation of affine residuals is exact, Gauss-Newton model exact, ratio = 1) + end-to-end search against lsq_linear/lstsq on the property's input space",
            None,
            "Trusted: Lean kernel; standard axioms; the end-to-end 1e-6 optimality bound and the success flag are NOT proved (convergence with rounding): search only; PARTIAL.",
            "6/C05"),
    "C06": ("Lean 4 theorems about the mechanisms (absolute box frame of the sub-problem projector for any rounding; argument pass-through call model) + bit-exact projector correspondence + end-to-end search against proximal-gradient oracles",
            "PARTIAL. Proved: the box projector handed to the regularised sub-problem maps every absolute point into [xbase+sl, xbase+su] (pinned formula refuted), every h/prox call carries the user's argument tuples in the call model. "
            "NOT proved: convergence to F* within 1e-3(1+F*) and the success flag - decided by the end-to-end search (L1 and L2-norm regularisers, bounded/unbounded, lambda over 3 decades, argsh/argsprox).",
            "Trusted: Lean kernel; standard axioms; oracles (FISTA with exact prox for L1+box, L-BFGS-B on a smoothed L2 norm); scaling+regulariser excluded (limitation named in the property).",
            "6/C06"),
    "C07": ("Lean 4 theorems about a model of solve's input validation and ParameterList + tables REGENERATED from /repo's AST on every run (params table, exit codes, OptimResults attributes, user-guide constants) + differential correspondence",
            "Proof: validation returns the input-error result iff one of the 18 documented conditions holds (first failing check wins), never raises on typed arguments, unknown key => ValueError, every default passes its own check for all n, npt, maxfun, "
            "every exit constant named in the user guide is exposed, every OptimResults(...) call has the right arity; generated tables = committed reference (decide). Real solve compared with the model on ~1350 argument tuples.",
            "Trusted: Lean kernel; standard axioms; AST translator harness/gen.py; 'flag documented / prints' for exits other than input error is searched, not proved; accepted boundary values that crash are recorded findings.",
            "6/C07"),
    "C19": ("Lean 4 theorem about the RNG-site model (draws only at sites enabled by the configuration) + recorded draw sites of real runs + repeated solves under different global RNG states with read-only caller data",
            "PARTIAL. Proved: a configuration without an option documented as random makes no draw that can reach an evaluation point (model). Real runs: every np.random draw is recorded with its dfols call site and must be accepted; "
            "each of 8 deterministic configuration families is solved twice under different RNG states and must give bit-identical evaluation sequences and results; x0/bounds/user_params are passed read-only and compared. NOT proved: no-mutation (Python aliasing).",
            "Trusted: Lean kernel; standard axioms; determinism of CPython/NumPy/LAPACK within one process; call-site identification from the Python stack.",
            "6/C19"),
    "C12": ("Lean 4 theorems (box clause for every input and any rounding, gnew = g + H d invariant, first-step decrease, trust-region norm kept by the truncated CG step and by the rotation step over the reals - formulas tied to the source text) + Lean Float port of trsbox/alt_trust_step compared with the Python under three summation variants",
            "PARTIAL. Proved: the returned step is d_within_bounds of the unclipped step on both return paths, so xopt+d lies in [sl,su] for ANY rounding; gnew = g + H d is preserved by the CG and alt-step updates; the first CG step decreases the model. "
            "Stated, not proved: ||d|| <= delta, monotone decrease over all iterations, Cauchy decrease of the returned step - decided by the search on the property's grid (15000 quick / 150000 thorough inputs) and watched by the port correspondence (0 branch-tie skips).",
            "Trusted: Lean kernel; standard axioms; conditioning-aware comparator (tolerance 1e-7 delta); reductions in Lean are sequential sums (NumPy uses BLAS).",
            "6/C12"),
    "C13": ("Lean 4 theorems (exact-arithmetic box/ball/never-worse for trsbox_linear and trsbox_geometry over an ordered field with a sqrt spec; ||d|| <= Delta for the convex solvers via Dykstra.ball_last; NaN-aware zero-step rule) + kernel and decision-logic correspondence",
            "PARTIAL. Proved: the geometry step lies in the (widened) box and the ball and is never worse than not moving (exact arithmetic, same definition the Float driver runs); every convex solver returns a last projection onto the trust-region ball (||d|| <= Delta); "
            "trust_region_step replaces a step with negative predicted reduction by zero for every NaN pattern. Stated, not proved: global optimality of the geometry step (searched against a clipped-ray bisection oracle).",
            "Trusted: Lean kernel; standard axioms; exact arithmetic for box/ball (float gap watched by the comparator, max 2.8e-12 Delta); Dykstra projectors as oracles.",
            "6/C13"),
}

PENDING_REASON = "check not built yet in this round (planned: see DESIGN.md section 6); not claimed until its theorem, correspondence and search exist"


def explanation_of(pid):
    """level text taken from the EXPLANATION string of harness/props/cNN.py (work packages that define one)"""
    import importlib.util, sys
    sys.path.insert(0, os.path.join(VERIF, "harness"))
    path = os.path.join(VERIF, "harness", "props", pid.lower() + ".py")
    txt = open(path).read()
    import re
    m = re.search(r"EXPLANATION\s*=\s*\((.*?)\)\n", txt, re.S)
    if not m:
        return None
    return "".join(re.findall(r'"((?:[^"\\]|\\.)*)"', m.group(1)))


def main():
    checks = []
    for pid in ALL:
        if pid not in CHECKS:
            continue
        tech, text, note, ref = CHECKS[pid]
        if text is None:
            text = explanation_of(pid) or "PARTIAL (see DESIGN.md)"
        checks.append({
            "property_id": pid,
            "quick_cmd": "./check %s --tier quick" % pid,
            "thorough_cmd": "./check %s --tier thorough" % pid,
            "evidence_file": "evidence/%s.json" % pid,
            "replay_cmd_template": "./check %s --replay {path}" % pid,
            "engine": "lean4-model+correspondence",
            "level_claimed": {"category": "proof", "text": text, "design_ref": "DESIGN.md " + ref},
            "level_note": note,
            "technique": tech,
        })
    na_path = os.path.join(VERIF, "harness", "not_applicable.json")
    na_extra = json.load(open(na_path)) if os.path.exists(na_path) else {}
    na = [{"property_id": p, "reason": na_extra.get(p, PENDING_REASON)} for p in ALL if p not in CHECKS]
    man = {
        "version": 1,
        "setup_cmd": "/verif/setup.sh",
        "hooks": {
            "guard": "DFOLS_VERIF",
            "enable": "no source hooks: instrumentation is monkey-patched wrappers installed by the harness at run time (DFOLS_VERIF=1 is set by the harness for symmetry only)",
            "baseline_off_cmd": "cd /repo && env -u DFOLS_VERIF /venv/bin/python -m pytest -ra -q -p no:cacheprovider --timeout=900 --continue-on-collection-errors",
            "source_commits": [],
            "add_only": True,
        },
        "engines": [{
            "name": "lean4-model+correspondence",
            "path": "lean/ (Lean 4 model + theorems), harness/ (correspondence, search), check (entry point)",
            "serves_properties": sorted(CHECKS),
            "kind_free_text": "machine-checked proof in Lean 4 about a hand-written model; model tied to /repo by differential correspondence on every run; failing-input search on the real code",
        }],
        "checks": checks,
        "not_applicable": na,
        "notes": "Every check: regenerate tables from /repo -> lake build -> #print axioms audit -> correspondence -> failing-input search. "
                 "Exit 2 = tool failure/timeout (never 1). known_findings.json lists recorded defects and fix: commits.",
    }
    with open(os.path.join(VERIF, "MANIFEST.json"), "w") as f:
        json.dump(man, f, indent=1)
    print("MANIFEST.json: %d checks, %d not_applicable" % (len(checks), len(na)))


if __name__ == "__main__":
    main()
