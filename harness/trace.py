"""Tracing of real `dfols.solve` runs by monkey-patched wrappers (no source change).

`traced_solve(dfols, objfun, x0, **kw)` runs the real solver and returns a `Trace` holding
  * events   — list of tuples, the vocabulary consumed by the Lean acceptors (Driver/AcceptDrv.lean)
  * calls    — the independent record of every user-objfun call (x, residual vector, order of calls)
  * result   — the OptimResults (or the exception)
Every float that only takes part in comparisons is exported as an order key (core.fkey).
"""
from __future__ import annotations

import numpy as np
import core
from core import fkey

MSG_CLASSES = [
    ("sufficiently small", "small"),
    ("called MAXFUN", "maxfun"),
    ("rho has reached rhoend", "rhoend"),
    ("within noise level", "noise"),
    ("maximum number of unsuccessful restarts", "restarts"),
    ("slow iterations", "slow"),
    ("false successful", "falsesucc"),
    ("Auto-detected", "auto"),
    ("NaN received", "evalnan"),
    ("model increase", "trinc"),
    ("Singular matrix", "linalg"),
]


def msg_class(msg: str) -> str:
    for pat, cls in MSG_CLASSES:
        if pat.lower() in msg.lower():
            return cls
    return "other"


class Trace:
    def __init__(self):
        self.events = []
        self.calls = []          # dicts: i, x(bytes), xarr, r (array or None), raised, v
        self.xids = {}
        self.result = None
        self.exception = None
        self.control = None
        self.depth_diag = 0
        self.diag_ops = []      # DiagnosticInfo method calls in order: "save_info_from_control", "update_ratio", ...
        self.in_soft = 0
        self.soft_evals = 0
        self.h = None
        self.argsh = ()
        self.warnings = []
        self.group = []          # call numbers made by the evaluate_objective that returned last
        self.gused = 0           # how many of them were handed to change_point / add_new_sample

    def xid(self, x):
        b = np.asarray(x, dtype=float).tobytes()
        if b not in self.xids:
            self.xids[b] = len(self.xids) + 1
        return self.xids[b]

    def emit(self, *ev):
        self.events.append(ev)

    def src_of(self, rvec, first=False):
        """(1-based) number of the objfun call that returned exactly rvec: the next unconsumed call of the
        current evaluation group if it matches (identical residuals are common with deterministic
        objectives), else the most recent matching call; 0 if none"""
        b = np.asarray(rvec, dtype=float).tobytes()
        if first:
            self.gused = 0
        if self.gused < len(self.group):
            c = self.calls[self.group[self.gused] - 1]
            if c["r"] is not None and c["rb"] == b:
                self.gused += 1
                return c["i"]
        for c in reversed(self.calls[-200:]):
            if c["r"] is not None and c["rb"] == b:
                return c["i"]
        return 0


_SINK: list[Trace | None] = [None]
_PATCHED = set()


def _sink() -> Trace | None:
    return _SINK[0]


def install(dfols):
    """install wrappers on the freshly imported dfols modules (idempotent per module object)"""
    import dfols.solver as S
    import dfols.controller as C
    import dfols.model as M
    import dfols.diagnostic_info as D
    if id(S) in _PATCHED:
        return
    _PATCHED.add(id(S))

    # ---- objective evaluation (the code's own numbering) -------------------------------------
    real_eval = C.eval_least_squares_with_regularisation

    def eval_wrapper(objfun, x, h=None, argsf=(), argsh=(), verbose=True, eval_num=0, pt_num=0, full_x_thresh=6, check_for_overflow=True):
        t = _sink()
        if t is None:
            return real_eval(objfun, x, h, argsf=argsf, argsh=argsh, verbose=verbose, eval_num=eval_num, pt_num=pt_num,
                             full_x_thresh=full_x_thresh, check_for_overflow=check_for_overflow)
        n0 = len(t.calls)
        try:
            out = real_eval(objfun, x, h, argsf=argsf, argsh=argsh, verbose=verbose, eval_num=eval_num, pt_num=pt_num,
                            full_x_thresh=full_x_thresh, check_for_overflow=check_for_overflow)
        except BaseException:
            t.emit("objraise", len(t.calls), int(eval_num), int(pt_num))
            raise
        ncalls = len(t.calls) - n0
        i = t.calls[-1]["i"] if ncalls >= 1 else 0
        v = t.calls[-1]["v"] if ncalls >= 1 else float("nan")
        # ncalls != 1 (objfun not called, or called twice) is reported through i/ncalls
        t.emit("obj", i, int(eval_num), int(pt_num), t.xid(x), fkey(v), ncalls)
        return out

    for mod in (S, C):
        if hasattr(mod, "eval_least_squares_with_regularisation"):
            mod.eval_least_squares_with_regularisation = eval_wrapper

    # ---- Controller ----------------------------------------------------------------------------
    Ctl = C.Controller
    real_cinit = Ctl.__init__

    def cinit(self, *a, **k):
        real_cinit(self, *a, **k)
        t = _sink()
        if t is not None:
            t.control = self
            md = self.model
            t.emit("ctrl", int(md.eval_num[0]), int(md.nsamples[0]), fkey(md.objval[0]), int(md.num_pts),
                   fkey(md.min_objective_value()))
    Ctl.__init__ = cinit

    real_evalobj = Ctl.evaluate_objective

    def evalobj(self, x, number_of_samples, params):
        t = _sink()
        if t is None:
            return real_evalobj(self, x, number_of_samples, params)
        t.emit("evb", int(number_of_samples), t.xid(core_remove_scaling(self, x)))
        if t.in_soft:
            t.soft_evals += 1
        n0 = len(t.calls)
        out = real_evalobj(self, x, number_of_samples, params)
        rvec_list, obj_list, k, exit_info = out
        t.group = [c["i"] for c in t.calls[n0:]]
        t.gused = 0
        if k > 0:
            mean = np.mean(rvec_list[:k, :], axis=0)
            vmean = float(np.dot(mean, mean))
            if self.h is not None:
                vmean += self.h(core_remove_scaling(self, x), *self.argsh)
        else:
            vmean = float("nan")
        t.emit("eve", int(k), "-" if exit_info is None else int(exit_info.flag),
               "-" if exit_info is None else msg_class(exit_info.msg), fkey(vmean), fkey(self.model.min_objective_value()),
               1 if np.any(np.isnan(rvec_list)) else 0)
        return out
    Ctl.evaluate_objective = evalobj

    real_soft = Ctl.soft_restart

    def soft(self, number_of_samples, nruns_so_far, params, **kw):
        t = _sink()
        if t is None:
            return real_soft(self, number_of_samples, nruns_so_far, params, **kw)
        t.emit("srb", int(nruns_so_far), int(number_of_samples), fkey(self.model.objopt()))
        t.in_soft += 1
        t.soft_evals = 0
        try:
            ex = real_soft(self, number_of_samples, nruns_so_far, params, **kw)
        finally:
            t.in_soft -= 1
        t.emit("sre", 0 if ex is None else 1)
        return ex
    Ctl.soft_restart = soft

    real_reduce = Ctl.reduce_rho

    def reduce(self, current_iter, params):
        t = _sink()
        if t is None:
            return real_reduce(self, current_iter, params)
        before = (self.delta, self.rho, self.rhoend)
        out = real_reduce(self, current_iter, params)
        t.emit("rrho", before[0], before[1], before[2], params("tr_radius.alpha1"), params("tr_radius.alpha2"), self.delta, self.rho)
        return out
    Ctl.reduce_rho = reduce

    real_ratio = Ctl.calculate_ratio

    def ratio(self, x, current_iter, rvec_list, d, gopt, H):
        t = _sink()
        objopt_before = self.model.objopt() if t is not None else None
        out = real_ratio(self, x, current_iter, rvec_list, d, gopt, H)
        if t is not None:
            r, ex = out
            if self.h is None:
                # the inputs of the decision, recomputed with the package's own helpers (deterministic in-process)
                try:
                    pred = -C.model_value(gopt, H, d)
                    actual = objopt_before - C.sumsq(np.mean(rvec_list, axis=0))
                    t.emit("rat", float(pred), float(actual), len(self.model.projections), float(r), "-" if ex is None else int(ex.flag))
                except Exception:
                    pass
            t.emit("ratio", float(r), "-" if ex is None else int(ex.flag), self.delta, self.rho,
                   1 if self.model.npt() >= self.model.num_pts else 0)
        return out
    Ctl.calculate_ratio = ratio

    real_trstep = Ctl.trust_region_step

    def trstep(self, params, *a, **k):
        t = _sink()
        out = real_trstep(self, params, *a, **k)
        if t is not None:
            import scipy.linalg as LA
            d = out[0]
            crit = a[0] if a else k.get("criticality_measure", None)
            tau = 1.0
            if self.h is not None and crit is not None:
                try:
                    tau = min(crit / (LA.norm(out[1]) + self.lh), 1.0)
                except ValueError:
                    tau = 1.0
            t.emit("trs", float(min(LA.norm(d), self.delta)), float(tau), self.delta, self.rho)
        return out
    Ctl.trust_region_step = trstep

    real_fixgeom = Ctl.check_and_fix_geometry

    def fixgeom(self, distsq_thresh, update_delta, number_of_samples, params):
        t = _sink()
        if t is None:
            return real_fixgeom(self, distsq_thresh, update_delta, number_of_samples, params)
        before = (self.delta, self.rho)
        sq = self.model.distances_to_xopt()
        distsq = float(np.max(sq))
        t.emit("fgb", 1 if update_delta else 0, before[0], before[1], distsq, float(distsq_thresh))
        out = real_fixgeom(self, distsq_thresh, update_delta, number_of_samples, params)
        t.emit("fge", 1 if out[0] else 0, 0 if out[1] is None else 1, self.delta, self.rho)
        return out
    Ctl.check_and_fix_geometry = fixgeom

    # ---- ExitInformation -----------------------------------------------------------------------
    EI = C.ExitInformation
    real_einit = EI.__init__

    def einit(self, flag, msg_details):
        real_einit(self, flag, msg_details)
        t = _sink()
        if t is not None:
            c = t.control
            t.emit("ext", int(flag), msg_class(msg_details),
                   "-" if c is None else fkey(c.rho), "-" if c is None else fkey(c.rhoend), "-" if c is None else int(c.nf))
    EI.__init__ = einit

    # ---- Model -----------------------------------------------------------------------------------
    Md = M.Model

    real_change = Md.change_point

    def change(self, k, x, rvec, eval_num, allow_kopt_update=True):
        t = _sink()
        real_change(self, k, x, rvec, eval_num, allow_kopt_update=allow_kopt_update)
        if t is not None:
            src = t.src_of(rvec, first=True)
            t.emit("chg", int(k), int(eval_num), 1 if allow_kopt_update else 0, fkey(self.objval[k]), src, int(self.kopt))
            if t.h is not None and src:
                # the stored objective must be sum(r^2) + h AT THE EVALUATED POINT (the argument the objective really received)
                c = t.calls[src - 1]
                try:
                    want = float(c["v"])          # sum(r^2) + h(x) with x the argument that call received (harness record)
                    got = float(self.objval[k])
                    if want == want and got == got and abs(got - want) > 1e-9 * (1.0 + abs(want)):
                        t.warnings.append(("stored-objective-not-at-evaluated-point", int(eval_num), got, want))
                except Exception:
                    pass
            if t.control is not None:
                t.emit("rad", float(t.control.delta), float(t.control.rho))
    Md.change_point = change

    real_sample = Md.add_new_sample

    def sample(self, k, rvec_extra):
        t = _sink()
        real_sample(self, k, rvec_extra)
        if t is not None:
            t.emit("smp", int(k), fkey(self.objval[k]), t.src_of(rvec_extra), int(self.kopt))
    Md.add_new_sample = sample

    real_addpt = Md.add_new_point

    def addpt(self, x, rvec, eval_num):
        t = _sink()
        real_addpt(self, x, rvec, eval_num)
        if t is not None:
            t.emit("adp", int(eval_num), fkey(self.objval[self.npt() - 1]), t.src_of(rvec, first=True), int(self.kopt))
    Md.add_new_point = addpt

    real_save = Md.save_point

    def save(self, x, rvec, nsamples, eval_num, x_in_abs_coords=True):
        t = _sink()
        if t is None:
            return real_save(self, x, rvec, nsamples, eval_num, x_in_abs_coords=x_in_abs_coords)
        inc = 1 if (t.in_soft and t.soft_evals == 0) else 0
        from dfols.util import sumsq, remove_scaling
        xabs = x if x_in_abs_coords else self.as_absolute_coordinates(x)
        v = float(sumsq(rvec))
        if self.h is not None:
            v += self.h(remove_scaling(xabs, self.scaling_changes), *self.argsh)
        acc = real_save(self, x, rvec, nsamples, eval_num, x_in_abs_coords=x_in_abs_coords)
        t.emit("sav", int(nsamples), int(eval_num), fkey(v), 1 if acc else 0, inc)
        return acc
    Md.save_point = save

    real_final = Md.get_final_results

    def final(self):
        t = _sink()
        out = real_final(self)
        if t is not None and t.depth_diag == 0:
            x, r, obj, jac, ns, en, jn = out
            t.emit("fin", int(en), int(ns), fkey(obj), "-" if jn is None else ",".join(str(int(v)) for v in jn))
        return out
    Md.get_final_results = final

    real_shift = Md.shift_base

    def shift(self, s):
        t = _sink()
        real_shift(self, s)
        if t is not None:
            t.emit("shf")
    Md.shift_base = shift

    real_interp = Md.interpolate_mini_models_svd

    def interp(self, *a, **k):
        t = _sink()
        out = real_interp(self, *a, **k)
        if t is not None:
            t.emit("itp", 1 if out[0] else 0)
        return out
    Md.interpolate_mini_models_svd = interp

    real_swap = Md.swap_points

    def swap(self, k1, k2):
        t = _sink()
        real_swap(self, k1, k2)
        if t is not None:
            t.emit("swp", int(k1), int(k2))
    Md.swap_points = swap

    # ---- DiagnosticInfo ------------------------------------------------------------------------------
    DI = D.DiagnosticInfo
    real_saveinfo = DI.save_info_from_control

    def saveinfo(self, control, nruns, iter_this_run, save_poisedness=True):
        t = _sink()
        if t is not None:
            t.depth_diag += 1
        try:
            return real_saveinfo(self, control, nruns, iter_this_run, save_poisedness=save_poisedness)
        finally:
            if t is not None:
                t.depth_diag -= 1
                t.diag_ops.append("save_info_from_control")
                t.emit("diag", int(nruns), int(iter_this_run), int(control.nf), int(control.nx), control.delta, control.rho,
                       control.rhoend, int(control.model.npt()))
    DI.save_info_from_control = saveinfo

    def _wrap_update(name):
        real = getattr(DI, name)

        def upd(self, *a, **k):
            t = _sink()
            if t is not None:
                t.diag_ops.append(name)     # recorded BEFORE the call: an IndexError inside it is then visible as the last op
            return real(self, *a, **k)
        setattr(DI, name, upd)
    for _name in [m for m in vars(DI) if m.startswith("update_") and callable(getattr(DI, m))]:
        _wrap_update(_name)

    # ---- solve_main ------------------------------------------------------------------------------------
    real_main = S.solve_main

    def main(objfun, x0, argsf, xl, xu, projections, npt, rhobeg, rhoend, maxfun, nruns_so_far, nf_so_far, nx_so_far, nsamples, params,
             diagnostic_info, scaling_changes, h=None, lh=None, argsh=(), prox_uh=None, argsprox=None, r0_avg_old=None,
             r0_nsamples_old=None, **kw):
        t = _sink()
        if t is None:
            return real_main(objfun, x0, argsf, xl, xu, projections, npt, rhobeg, rhoend, maxfun, nruns_so_far, nf_so_far, nx_so_far,
                             nsamples, params, diagnostic_info, scaling_changes, h, lh, argsh, prox_uh, argsprox,
                             r0_avg_old=r0_avg_old, r0_nsamples_old=r0_nsamples_old, **kw)
        t.control = None
        t.emit("rst", int(nruns_so_far), int(nf_so_far), int(nx_so_far), 0 if r0_avg_old is None else 1, int(maxfun), int(npt),
               float(rhobeg), float(rhoend), fkey(params("model.abs_tol")))
        out = real_main(objfun, x0, argsf, xl, xu, projections, npt, rhobeg, rhoend, maxfun, nruns_so_far, nf_so_far, nx_so_far,
                        nsamples, params, diagnostic_info, scaling_changes, h, lh, argsh, prox_uh, argsprox,
                        r0_avg_old=r0_avg_old, r0_nsamples_old=r0_nsamples_old, **kw)
        x, rvec, obj, jac, ns, nf, nx, nruns, exit_info, _di, x_eval_num, jac_nums = out
        t.emit("rend", int(nf), int(nx), int(nruns), int(exit_info.flag), msg_class(exit_info.msg), int(x_eval_num), int(ns),
               fkey(obj), 1 if jac is None else 0, 0 if t.control is None else 1)
        return out
    S.solve_main = main


def core_remove_scaling(control, x):
    from dfols.util import remove_scaling
    return remove_scaling(x, control.scaling_changes)


def traced_solve(dfols, objfun, x0, alarm=30.0, h=None, argsh=(), nsamples=None, **kw) -> Trace:
    """run the real solver under the wrappers; never raises (exception stored in the trace)"""
    install(dfols)
    t = Trace()
    t.h = h
    t.argsh = argsh

    def rec_objfun(x, *args):
        i = len(t.calls) + 1
        xa = np.array(x, dtype=float, copy=True)
        rec = {"i": i, "xb": xa.tobytes(), "x": xa, "r": None, "rb": None, "raised": False, "v": float("nan")}
        t.calls.append(rec)
        try:
            r = objfun(x, *args)
        except BaseException:
            rec["raised"] = True
            raise
        ra = np.array(r, dtype=float, copy=True)
        rec["r"] = ra
        rec["rb"] = ra.tobytes()
        v = float(np.dot(ra, ra))
        if h is not None:
            v += h(xa, *argsh)
        rec["v"] = v
        return r

    ns_cb = None
    if nsamples is not None:
        def ns_cb(delta, rho, it, nruns):
            k = nsamples(delta, rho, it, nruns)
            t.emit("ns", int(k), float(delta), float(rho), int(it), int(nruns))
            return k
    else:
        def ns_cb(delta, rho, it, nruns):
            t.emit("ns", 1, float(delta), float(rho), int(it), int(nruns))
            return 1

    _SINK[0] = t
    import warnings
    try:
        with warnings.catch_warnings(record=True) as w:
            warnings.simplefilter("always")
            kw2 = dict(kw)
            if h is not None:
                kw2["h"] = h
                kw2["argsh"] = argsh
            t.result = core.with_alarm(alarm, dfols.solve, rec_objfun, np.array(x0, dtype=float), nsamples=ns_cb, do_logging=False, **kw2)
            t.warnings = [str(x.message) for x in w]
    except BaseException as e:  # includes core.Alarm
        t.exception = e
    finally:
        _SINK[0] = None
    if t.result is not None:
        r = t.result
        if r.flag != -1 or r.x is not None:
            t.emit("res", int(r.nf), int(r.nx), int(r.nruns), int(r.flag), msg_class(str(r.msg)),
                   -1 if r.xmin_eval_num is None else int(r.xmin_eval_num), fkey(r.obj) if r.obj is not None else "n",
                   1 if r.jacobian is None else 0)
    return t


def render(ev) -> str:
    """protocol line of one event (floats that are not order keys are sent as raw bits)"""
    out = []
    for a in ev:
        if isinstance(a, float):
            out.append(core.fbits_raw(a))
        else:
            out.append(str(a))
    return " ".join(out)
