"""Layer G: the parameter block of trust_region.ctrsbox_sfista (C06), translated from /repo's AST on every run into
lean/DfolsVerif/Gen/SfistaFns.lean as terms over `SfistaOps F`:

    MAX_LOOP_ITERS = ceil(sfista_iters_scale * delta * (L_h+sqrt(L_h*L_h+2*k_H*func_tol)) / func_tol)   (try)
    MAX_LOOP_ITERS = min(MAX_LOOP_ITERS, max_iters)
    MAX_LOOP_ITERS = max_iters                                                                        (except ValueError)
    u = 2 * delta / (MAX_LOOP_ITERS * L_h)
    l = k_H + 1 / u

plus the shape of the main loop: its header, and for every name in the `return` statement whether it is bound before the loop
and whether the loop body binds it unconditionally.  Proofs/Sfista.lean proves over the reals that the block is well
defined (at least one iteration, so every returned name is bound; positive smoothing parameter and step length)."""
import ast
import os
import core
from gen_exitsites import q


class Unsupported(Exception):
    pass


NAT_NAMES = {"MAX_LOOP_ITERS", "max_iters"}


def fexpr(e):
    """float-valued expression"""
    if isinstance(e, ast.Constant) and isinstance(e.value, int) and not isinstance(e.value, bool) and e.value >= 0:
        return "(o.ofNat %d)" % e.value
    if isinstance(e, ast.Name):
        if e.id in NAT_NAMES:
            return "(o.ofNat %s)" % e.id
        return e.id
    if isinstance(e, ast.BinOp) and isinstance(e.op, (ast.Add, ast.Mult, ast.Div)):
        op = {ast.Add: "add", ast.Mult: "mul", ast.Div: "div"}[type(e.op)]
        return "(o.%s %s %s)" % (op, fexpr(e.left), fexpr(e.right))
    if isinstance(e, ast.Call) and isinstance(e.func, ast.Name) and e.func.id == "sqrt" and len(e.args) == 1 and not e.keywords:
        return "(o.sqrt %s)" % fexpr(e.args[0])
    raise Unsupported("float expression " + ast.unparse(e))


def nexpr(e):
    """natural-number-valued expression"""
    if isinstance(e, ast.Name) and e.id in NAT_NAMES:
        return e.id
    if isinstance(e, ast.Call) and isinstance(e.func, ast.Name) and e.func.id == "ceil" and len(e.args) == 1 and not e.keywords:
        return "(o.ceil %s)" % fexpr(e.args[0])
    if isinstance(e, ast.Call) and isinstance(e.func, ast.Name) and e.func.id in ("min", "max") and len(e.args) == 2 and not e.keywords:
        return "(Nat.%s %s %s)" % (e.func.id, nexpr(e.args[0]), nexpr(e.args[1]))
    raise Unsupported("integer expression " + ast.unparse(e))


def assigned_names(stmt):
    out = []
    if isinstance(stmt, (ast.Assign, ast.AugAssign, ast.AnnAssign)):
        tg = stmt.targets if isinstance(stmt, ast.Assign) else [stmt.target]
        for t in tg:
            for x in ([t] if not isinstance(t, (ast.Tuple, ast.List)) else t.elts):
                if isinstance(x, ast.Name):
                    out.append(x.id)
    return out


def translate():
    tree = ast.parse(open(os.path.join(core.REPO, "dfols", "trust_region.py")).read())
    fn = [n for n in tree.body if isinstance(n, ast.FunctionDef) and n.name == "ctrsbox_sfista"]
    if len(fn) != 1:
        raise Unsupported("no unique def ctrsbox_sfista")
    fn = fn[0]
    body = fn.body
    tries = [s for s in body if isinstance(s, ast.Try)]
    if len(tries) != 1:
        raise Unsupported("expected exactly one try block in ctrsbox_sfista")
    tr = tries[0]
    if [ast.unparse(h.type) for h in tr.handlers] != ["ValueError"] or tr.orelse or tr.finalbody:
        raise Unsupported("try block shape changed")
    lets = []
    for s in tr.body:
        if not (isinstance(s, ast.Assign) and len(s.targets) == 1 and ast.unparse(s.targets[0]) == "MAX_LOOP_ITERS"):
            raise Unsupported("statement in try body: " + ast.unparse(s))
        lets.append("  let MAX_LOOP_ITERS := %s" % nexpr(s.value))
    hb = tr.handlers[0].body
    if not (len(hb) == 1 and isinstance(hb[0], ast.Assign) and ast.unparse(hb[0].targets[0]) == "MAX_LOOP_ITERS"):
        raise Unsupported("except body: " + " ; ".join(ast.unparse(s) for s in hb))
    fallback = nexpr(hb[0].value)
    # the assignments of u and l: exactly one top-level assignment each
    def single(name):
        c = [s for s in body if isinstance(s, ast.Assign) and len(s.targets) == 1 and ast.unparse(s.targets[0]) == name]
        if len(c) != 1:
            raise Unsupported("expected exactly one top-level assignment of %s, found %d" % (name, len(c)))
        return c[0]
    u_st, l_st = single("u"), single("l")
    it = body.index(tr)
    if not (it < body.index(u_st) < body.index(l_st)):
        raise Unsupported("order of the parameter block changed")
    # nothing between the try block and the loop rebinds MAX_LOOP_ITERS / u / l
    loops = [s for s in body if isinstance(s, ast.For)]
    if len(loops) != 1:
        raise Unsupported("expected exactly one top-level for loop")
    loop = loops[0]
    for s in body[it + 1:]:
        for n in ast.walk(s):
            if isinstance(n, ast.Name) and isinstance(n.ctx, ast.Store) and n.id in ("MAX_LOOP_ITERS",) :
                raise Unsupported("MAX_LOOP_ITERS rebound after the try block")
    header = "for %s in %s" % (ast.unparse(loop.target), ast.unparse(loop.iter))
    rets = [s for s in body if isinstance(s, ast.Return)]
    all_rets = [n for n in ast.walk(fn) if isinstance(n, ast.Return) and n not in rets
                and not any(n in ast.walk(d) for d in ast.walk(fn) if isinstance(d, (ast.FunctionDef, ast.Lambda)) and d is not fn)]
    if len(rets) != 1 or body[-1] is not rets[0]:
        raise Unsupported("expected one top-level return as the last statement")
    ret_names = [ast.unparse(x) for x in (rets[0].value.elts if isinstance(rets[0].value, ast.Tuple) else [rets[0].value])]
    before = set()
    for s in body[:body.index(loop)]:
        before.update(assigned_names(s))
    inloop = set()
    for s in loop.body:
        inloop.update(assigned_names(s))
    early_exits = [type(n).__name__ for n in ast.walk(loop) if isinstance(n, (ast.Break, ast.Return, ast.Continue))]
    bindings = [(r, r in before, r in inloop) for r in ret_names]
    defs = []
    defs.append("/-- `MAX_LOOP_ITERS` on the normal path (body of the `try`) -/\n"
                "def sfistaIters (sfista_iters_scale delta L_h k_H func_tol : F) (max_iters : Nat) : Nat :=\n%s\n  MAX_LOOP_ITERS\n" % "\n".join(lets))
    defs.append("/-- `MAX_LOOP_ITERS` when `sqrt` raised ValueError (the `except` branch) -/\n"
                "def sfistaItersFallback (max_iters : Nat) : Nat :=\n  %s\n" % fallback)
    defs.append("/-- `u = %s` -/\ndef sfistaU (MAX_LOOP_ITERS : Nat) (delta L_h : F) : F :=\n  %s\n" % (ast.unparse(u_st.value), fexpr(u_st.value)))
    defs.append("/-- `l = %s` -/\ndef sfistaLip (k_H u : F) : F :=\n  %s\n" % (ast.unparse(l_st.value), fexpr(l_st.value)))
    defs.append("def sfistaLoopHeader : String := %s\n" % q(header))
    defs.append("def sfistaLoopEarlyExits : List String := [%s]\n" % ", ".join(q(x) for x in early_exits))
    defs.append("def sfistaReturn : List RetBinding := [\n%s]\n" % ",\n".join(
        "  { name := %s, boundBeforeLoop := %s, boundInLoopBody := %s }" % (q(n), "true" if b else "false", "true" if i else "false")
        for n, b, i in bindings))
    return defs, {"loop_header": header, "returned": ret_names, "bound_only_in_loop": [n for n, b, i in bindings if not b]}


def regenerate(ctx=None):
    path = os.path.join(core.LEAN_DIR, "DfolsVerif", "Gen", "SfistaFns.lean")
    info = {}
    try:
        defs, info = translate()
    except Exception as exc:
        if ctx is not None:
            ctx.broke("gen:sfista-translator", repr(exc))
        defs = ["-- TRANSLATION FAILED: %s" % repr(exc).replace("\n", " ")]
    content = "\n".join(["/- GENERATED by harness/gen_sfista.py from /repo's trust_region.py on every run — do not edit.",
                         "   Parameter block and loop shape of ctrsbox_sfista as `SfistaOps F` terms. -/",
                         "import DfolsVerif.Kernels.Sfista", "namespace Dfols.Gen", "variable {F : Type} (o : SfistaOps F)", ""]
                        + defs + ["end Dfols.Gen", ""])
    old = open(path).read() if os.path.exists(path) else None
    if old != content:
        open(path, "w").write(content)
    if ctx is not None:
        ctx.cov["sfista_parameter_block"] = info
    return info


if __name__ == "__main__":
    print(regenerate())
