"""Layer G: util.apply_scaling / util.remove_scaling and the two assignments of solve() that define the scaling
(shift = xl.copy(), scale = xu - xl), translated from /repo's AST on every run into lean/DfolsVerif/Gen/ScalingFns.lean as
component-wise terms over arithmetic type classes.  Proofs/Scaling.lean proves, over a linearly ordered field, that the pair
is a round trip on the box and maps the box onto [0, 1]."""
import ast
import os
import core


class Unsupported(Exception):
    pass


def expr(e, env):
    if isinstance(e, ast.Name) and e.id in env:
        return env[e.id]
    if isinstance(e, ast.Subscript) and isinstance(e.value, ast.Name) and e.value.id == "scaling_changes" and isinstance(e.slice, ast.Constant):
        k = e.slice.value
        if k in (0, 1, 2, 3):
            return ["shift", "scale", "lo", "hi"][k]
    if isinstance(e, ast.Call) and ast.unparse(e.func) in ("np.minimum", "np.maximum") and len(e.args) == 2 and not e.keywords:
        return "(%s %s %s)" % ("min" if ast.unparse(e.func) == "np.minimum" else "max", expr(e.args[0], env), expr(e.args[1], env))
    if isinstance(e, ast.Call) and isinstance(e.func, ast.Attribute) and e.func.attr == "copy" and not e.args:
        return expr(e.func.value, env)
    if isinstance(e, ast.BinOp) and isinstance(e.op, (ast.Add, ast.Sub, ast.Mult, ast.Div)):
        return "(%s %s %s)" % (expr(e.left, env), {ast.Add: "+", ast.Sub: "-", ast.Mult: "*", ast.Div: "/"}[type(e.op)], expr(e.right, env))
    raise Unsupported("expression " + ast.unparse(e))


def body_value(fn, arg, lean_arg):
    """value returned on the `scaling_changes is not None` path of a util function"""
    env = {arg: lean_arg}
    stmts = list(fn.body)
    if not (isinstance(stmts[0], ast.If) and ast.unparse(stmts[0].test) == "scaling_changes is None"
            and len(stmts[0].body) == 1 and isinstance(stmts[0].body[0], ast.Return) and ast.unparse(stmts[0].body[0].value) == arg and not stmts[0].orelse):
        raise Unsupported("%s does not start with `if scaling_changes is None: return %s`" % (fn.name, arg))
    for st in stmts[1:]:
        if isinstance(st, ast.Assign) and len(st.targets) == 1 and isinstance(st.targets[0], ast.Tuple) and isinstance(st.value, ast.Tuple):
            for t, v in zip(st.targets[0].elts, st.value.elts):
                env[t.id] = expr(v, env)
        elif isinstance(st, ast.Assign) and len(st.targets) == 1 and isinstance(st.targets[0], ast.Name):
            env[st.targets[0].id] = expr(st.value, env)
        elif isinstance(st, ast.If) and ast.unparse(st.test) == "len(scaling_changes) > 2" and not st.orelse:
            # solve() always builds the 4-tuple (see scalingTuple below): the branch is taken
            for s2 in st.body:
                if isinstance(s2, ast.Assign) and len(s2.targets) == 1 and isinstance(s2.targets[0], ast.Name):
                    env[s2.targets[0].id] = expr(s2.value, env)
                else:
                    raise Unsupported("statement " + ast.unparse(s2))
        elif isinstance(st, ast.Return):
            return expr(st.value, env)
        else:
            raise Unsupported("statement " + ast.unparse(st))
    raise Unsupported("no return in " + fn.name)


def translate():
    ut = ast.parse(open(os.path.join(core.REPO, "dfols", "util.py")).read())
    fns = {n.name: n for n in ut.body if isinstance(n, ast.FunctionDef)}
    app = body_value(fns["apply_scaling"], "x_raw", "x")
    rem = body_value(fns["remove_scaling"], "x_scaled", "z")
    so = ast.parse(open(os.path.join(core.REPO, "dfols", "solver.py")).read())
    solve = [n for n in so.body if isinstance(n, ast.FunctionDef) and n.name == "solve"][0]
    shift = scale = tup = None
    for n in ast.walk(solve):
        if isinstance(n, ast.Assign) and len(n.targets) == 1 and isinstance(n.targets[0], ast.Name):
            if n.targets[0].id == "shift":
                shift = expr(n.value, {"xl": "xl", "xu": "xu"})
            elif n.targets[0].id == "scale":
                scale = expr(n.value, {"xl": "xl", "xu": "xu"})
            elif n.targets[0].id == "scaling_changes" and isinstance(n.value, ast.Tuple):
                tup = [expr(v, {"xl": "xl", "xu": "xu", "shift": "shift", "scale": "scale"}) for v in n.value.elts]
    if shift is None or scale is None or tup is None:
        raise Unsupported("solve() does not define shift / scale / scaling_changes as expected")
    return app, rem, shift, scale, tup


def regenerate(ctx=None):
    path = os.path.join(core.LEAN_DIR, "DfolsVerif", "Gen", "ScalingFns.lean")
    info = {}
    try:
        app, rem, shift, scale, tup = translate()
        defs = ["/-- `apply_scaling(x_raw, (shift, scale, ..))`, one component -/",
                "def applyScalingSrc {K : Type u} [Sub K] [Div K] (shift scale x : K) : K :=", "  " + app, "",
                "/-- `remove_scaling(x_scaled, (shift, scale, lo, hi))`, one component -/",
                "def removeScalingSrc {K : Type u} [Add K] [Mul K] [Min K] [Max K] (shift scale lo hi z : K) : K :=", "  " + rem, "",
                "/-- `shift` and `scale` as `solve()` defines them from the user's bounds, one component -/",
                "def scalingShiftSrc {K : Type u} [Sub K] (xl xu : K) : K :=", "  " + shift,
                "def scalingScaleSrc {K : Type u} [Sub K] (xl xu : K) : K :=", "  " + scale, "",
                "/-- the tuple `scaling_changes` that `solve()` builds -/",
                "def scalingTuple : List String := [%s]" % ", ".join('"%s"' % t for t in tup), ""]
        info = {"apply": app, "remove": rem, "shift": shift, "scale": scale, "tuple": tup}
    except Exception as exc:
        if ctx is not None:
            ctx.broke("gen:scaling-translator", repr(exc))
        defs = ["-- TRANSLATION FAILED: %s" % repr(exc).replace("\n", " ")]
    content = "\n".join(["/- GENERATED by harness/gen_scaling.py from /repo's util.py / solver.py on every run — do not edit. -/",
                         "set_option linter.unusedVariables false", "universe u", "namespace Dfols.Gen", ""] + defs + ["end Dfols.Gen", ""])
    old = open(path).read() if os.path.exists(path) else None
    if old != content:
        open(path, "w").write(content)
    if ctx is not None:
        ctx.cov["scaling_translation"] = info
    return info


if __name__ == "__main__":
    print(regenerate())
