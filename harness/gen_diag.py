"""Layer G: the diagnostic table (C18), regenerated from /repo's diagnostic_info.py and solver.py on every run into
lean/DfolsVerif/Gen/DiagSites.lean:

  diagInitKeys        the columns `DiagnosticInfo.__init__` creates (`self.data[key] = []`), in order
  diagMethodOps       (method, key, op) for every access `self.data[key]...` in every other method of the class:
                      "append" (`.append(e)` as a statement), "set-last" (`self.data[key][-1] = e`), "len" (inside `len(..)`),
                      "read" (to_dataframe's copy), anything else verbatim
  diagSaveAppends     (key, min, max): how many times `save_info_from_control` appends to the column on a path through it
                      (minimum and maximum over the branches of its if-statements; it has no loops — checked)
  diagItersTotalExpr  the value appended to "iters_total"
  diagCalls           every `diagnostic_info.<method>(..)` call of solve_main: method, whether it is inside the main `while`
                      loop, its rank in source order among these calls, and its path condition (literals of the enclosing tests)
  diagSaveGuard       the test of the top-level `if` of the loop body whose FIRST statement is the save call ("" if the shape differs)

Theorems: Proofs/DiagTable.lean, Properties/C18.lean."""
import ast
import os
import core
from gen_exitsites import literals, q


class Unsupported(Exception):
    pass


def data_key(node):
    """self.data["k"] -> k"""
    if isinstance(node, ast.Subscript) and isinstance(node.value, ast.Attribute) and node.value.attr == "data" \
            and isinstance(node.value.value, ast.Name) and node.value.value.id == "self" and isinstance(node.slice, ast.Constant) \
            and isinstance(node.slice.value, str):
        return node.slice.value
    return None


def is_minus_one(e):
    return isinstance(e, ast.UnaryOp) and isinstance(e.op, ast.USub) and isinstance(e.operand, ast.Constant) and e.operand.value == 1


def method_ops(fn):
    ops = []
    claimed = set()
    for st in ast.walk(fn):
        if isinstance(st, ast.Expr) and isinstance(st.value, ast.Call) and isinstance(st.value.func, ast.Attribute) and st.value.func.attr == "append":
            k = data_key(st.value.func.value)
            if k is not None:
                ops.append((k, "append"))
                claimed.add(id(st.value.func.value))
        if isinstance(st, ast.Assign) and len(st.targets) == 1 and isinstance(st.targets[0], ast.Subscript):
            k = data_key(st.targets[0].value)
            if k is not None and is_minus_one(st.targets[0].slice):
                ops.append((k, "set-last"))
                claimed.add(id(st.targets[0].value))
        if isinstance(st, ast.Call) and isinstance(st.func, ast.Name) and st.func.id == "len" and len(st.args) == 1:
            k = data_key(st.args[0])
            if k is not None:
                ops.append((k, "len"))
                claimed.add(id(st.args[0]))
    for n in ast.walk(fn):
        k = data_key(n)
        if k is not None and id(n) not in claimed:
            ops.append((k, "other: " + ast.unparse(n)))
    return ops


def append_counts(stmts, keys):
    """(min, max) number of appends per key over the paths through a loop-free statement list"""
    lo = {k: 0 for k in keys}
    hi = {k: 0 for k in keys}
    for st in stmts:
        if isinstance(st, (ast.For, ast.While, ast.Try, ast.With)):
            raise Unsupported("save_info_from_control contains a %s statement" % type(st).__name__)
        if isinstance(st, ast.If):
            l1, h1 = append_counts(st.body, keys)
            l2, h2 = append_counts(st.orelse, keys)
            for k in keys:
                lo[k] += min(l1[k], l2[k])
                hi[k] += max(h1[k], h2[k])
        elif isinstance(st, ast.Return):
            break
        else:
            for n in ast.walk(st):
                if isinstance(n, ast.Call) and isinstance(n.func, ast.Attribute) and n.func.attr == "append":
                    k = data_key(n.func.value)
                    if k is not None:
                        if k not in lo:
                            lo[k] = hi[k] = 0
                        lo[k] += 1
                        hi[k] += 1
    return lo, hi


def collect():
    dtree = ast.parse(open(os.path.join(core.REPO, "dfols", "diagnostic_info.py")).read())
    cls = [n for n in dtree.body if isinstance(n, ast.ClassDef) and n.name == "DiagnosticInfo"]
    if len(cls) != 1:
        raise Unsupported("no unique class DiagnosticInfo")
    meth = {n.name: n for n in cls[0].body if isinstance(n, ast.FunctionDef)}
    init_keys = []
    for st in meth["__init__"].body:
        if isinstance(st, ast.Assign) and len(st.targets) == 1:
            k = data_key(st.targets[0])
            if k is not None:
                if not (isinstance(st.value, ast.List) and not st.value.elts):
                    raise Unsupported("column %s is not initialised with []" % k)
                init_keys.append(k)
    ops = []
    for name, fn in meth.items():
        if name == "__init__":
            continue
        for k, op in method_ops(fn):
            ops.append((name, k, op))
    # to_dataframe iterates `for key in self.data` and copies `self.data[key]` (a non-constant subscript: not a data_key) — record it
    save = meth["save_info_from_control"]
    lo, hi = append_counts(save.body, init_keys)
    counts = [(k, lo[k], hi[k]) for k in list(init_keys) + [k for k in lo if k not in init_keys]]
    it_expr = ""
    for st in ast.walk(save):
        if isinstance(st, ast.Expr) and isinstance(st.value, ast.Call) and isinstance(st.value.func, ast.Attribute) and st.value.func.attr == "append" \
                and data_key(st.value.func.value) == "iters_total" and len(st.value.args) == 1:
            it_expr = ast.unparse(st.value.args[0])
    # call sites in solve_main
    stree = ast.parse(open(os.path.join(core.REPO, "dfols", "solver.py")).read())
    sm = [n for n in stree.body if isinstance(n, ast.FunctionDef) and n.name == "solve_main"]
    if len(sm) != 1:
        raise Unsupported("no unique def solve_main")
    sm = sm[0]
    calls = []

    def is_diag_call(n):
        return isinstance(n, ast.Call) and isinstance(n.func, ast.Attribute) and isinstance(n.func.value, ast.Name) \
            and n.func.value.id == "diagnostic_info" and n.func.attr in meth

    def walk(stmts, path, loops):
        for st in stmts:
            if isinstance(st, ast.If):
                scan_expr(st.test, path, loops)
                walk(st.body, path + literals(st.test, True), loops)
                walk(st.orelse, path + literals(st.test, False), loops)
            elif isinstance(st, ast.While):
                walk(st.body, path + literals(st.test, True), loops + [st])
                walk(st.orelse, path, loops)
            elif isinstance(st, ast.For):
                walk(st.body, path, loops + [st])
                walk(st.orelse, path, loops)
            elif isinstance(st, (ast.Try,)):
                walk(st.body, path, loops)
                for h in st.handlers:
                    walk(h.body, path, loops)
                walk(st.orelse, path, loops)
                walk(st.finalbody, path, loops)
            elif isinstance(st, ast.With):
                walk(st.body, path, loops)
            elif isinstance(st, (ast.FunctionDef, ast.ClassDef)):
                continue
            else:
                scan_expr(st, path, loops)

    def scan_expr(node, path, loops):
        for n in ast.walk(node):
            if is_diag_call(n):
                calls.append({"method": n.func.attr, "pos": (n.lineno, n.col_offset), "path": list(path), "loops": list(loops)})
    walk(sm.body, [], [])
    other_funcs = []
    for f in ast.walk(stree):
        if isinstance(f, ast.FunctionDef) and f is not sm:
            for n in ast.walk(f):
                if is_diag_call(n) and n.func.attr != "to_dataframe":
                    other_funcs.append(f.name)
    ctree = ast.parse(open(os.path.join(core.REPO, "dfols", "controller.py")).read())
    for n in ast.walk(ctree):
        if isinstance(n, ast.Call) and isinstance(n.func, ast.Attribute) and n.func.attr in ("save_info_from_control", "update_ratio",
                                                                                         "update_iter_type", "update_slow_iter", "update_interpolation_information"):
            other_funcs.append("controller.py")
    saves = [c for c in calls if c["method"] == "save_info_from_control"]
    guard = ""
    main_loop = None
    if len(saves) == 1 and len(saves[0]["loops"]) == 1:
        main_loop = saves[0]["loops"][0]
        for st in main_loop.body:
            if isinstance(st, ast.If) and not st.orelse and st.body and isinstance(st.body[0], ast.Expr) and is_diag_call(st.body[0].value) \
                    and st.body[0].value.func.attr == "save_info_from_control":
                guard = ast.unparse(st.test)
    calls.sort(key=lambda c: c["pos"])
    rows = []
    for r, c in enumerate(calls):
        rows.append({"method": c["method"], "inMainLoop": bool(main_loop is not None and c["loops"] and c["loops"][0] is main_loop),
                     "innerLoops": max(len(c["loops"]) - 1, 0), "rank": r, "path": c["path"]})
    return {"init_keys": init_keys, "ops": ops, "counts": counts, "it_expr": it_expr, "calls": rows, "guard": guard,
            "other_funcs": sorted(set(other_funcs)), "main_loop_test": ast.unparse(main_loop.test) if main_loop is not None else ""}


def regenerate(ctx=None):
    path = os.path.join(core.LEAN_DIR, "DfolsVerif", "Gen", "DiagSites.lean")
    info = {}
    try:
        c = collect()
        L = ["def diagInitKeys : List String := [%s]\n" % ", ".join(q(k) for k in c["init_keys"]),
             "def diagMethodOps : List (String × String × String) := [\n%s]\n" % ",\n".join("  (%s, %s, %s)" % (q(a), q(b), q(x)) for a, b, x in c["ops"]),
             "def diagSaveAppends : List (String × Nat × Nat) := [\n%s]\n" % ",\n".join("  (%s, %d, %d)" % (q(k), a, b) for k, a, b in c["counts"]),
             "def diagItersTotalExpr : String := %s\n" % q(c["it_expr"]),
             "def diagCalls : List DiagCall := [\n%s]\n" % ",\n".join(
                 "  { method := %s, inMainLoop := %s, innerLoops := %d, rank := %d, path := [%s] }" % (
                     q(r["method"]), "true" if r["inMainLoop"] else "false", r["innerLoops"], r["rank"],
                     ", ".join("⟨%s, %s, %s, %s⟩" % ("true" if p else "false", q(a), q(o), q(b)) for (p, a, o, b) in r["path"])) for r in c["calls"]),
             "def diagSaveGuard : String := %s\n" % q(c["guard"]),
             "def diagMainLoopTest : String := %s\n" % q(c["main_loop_test"]),
             "def diagCallsElsewhere : List String := [%s]\n" % ", ".join(q(x) for x in c["other_funcs"])]
        info = {"columns": len(c["init_keys"]), "method_ops": len(c["ops"]), "calls_in_solve_main": len(c["calls"])}
    except Exception as exc:
        if ctx is not None:
            ctx.broke("gen:diag-sites", repr(exc))
        L = ["-- TRANSLATION FAILED: %s" % repr(exc).replace("\n", " ")]
    content = "\n".join(["/- GENERATED by harness/gen_diag.py from /repo's diagnostic_info.py / solver.py on every run — do not edit. -/",
                         "import DfolsVerif.Book.ExitSites", "namespace Dfols", "",
                         "structure DiagCall where", "  method : String", "  inMainLoop : Bool", "  innerLoops : Nat", "  rank : Nat", "  path : List Lit",
                         "deriving DecidableEq, Repr", "", "namespace Gen", ""] + L + ["end Gen", "end Dfols", ""])
    old = open(path).read() if os.path.exists(path) else None
    if old != content:
        open(path, "w").write(content)
    if ctx is not None:
        ctx.cov["diagnostic_table_sites"] = info
    return info


if __name__ == "__main__":
    print(regenerate())
