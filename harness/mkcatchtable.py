"""print DESIGN.md section-10 rows for seeded changes: mkcatchtable.py <suffix> ...  (e.g. _9 _10)"""
import glob
import json
import os
import sys

rows = []
for m in sorted(glob.glob(os.path.join(os.path.dirname(os.path.abspath(__file__)), "..", "seeded", "*", "meta.json"))):
    d = json.load(open(m))
    if not any(d["id"].endswith(s) for s in sys.argv[1:]):
        continue
    where = d["what_changed"].split(":")[0].split(". ")[0][:78].replace("|", "/")
    parts = []
    own = d["property"]
    mine = d.get("my_checks_against_it", {})
    for prop in [own] + sorted(k for k in mine if k != own):
        v = mine.get(prop)
        if v is None:
            continue
        if v["violation_lines"] == 0:
            parts.append("%s: missed" % prop)
        elif v["of_which_no_failing_input_found"] == v["violation_lines"]:
            parts.append("%s: broken obligation, no-failing-input-found" % prop)
        else:
            parts.append("%s: concrete input" % prop)
    rows.append("| %s | %s | %s |" % (d["id"], where, "; ".join(parts)))
print("\n".join(rows))
