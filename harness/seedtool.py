"""Seeded-change tool: confirm a change delivered by a sub-agent and run my checks against it WITHOUT touching /repo or /verif.

  seedtool.py verify <id> [<id> ...]     confirm (applies to /repo HEAD, 118 tests pass, demo exits 1 with / 0 without the change)
  seedtool.py check  <slot> <id>:<PROP>[,<PROP>...] ...
                                         run ./check <PROP> (quick, seed 0) from a private copy of /verif (/tmp/vcopy_<slot>) against a
                                         scratch worktree with the change applied (DFOLS_REPO), so that several slots can run in
                                         parallel and /verif's generated tables are never rewritten from a changed tree
  seedtool.py store  <id> ...            write /verif/seeded/<id>/{patch.diff,demo.py,meta.json} from /tmp/mut/out/<id> + the logs

Inputs: /tmp/mut/out/<id>/{patch.diff,demo.py,meta.json}; logs: /tmp/mut/logs/<id>.verify.json, /tmp/mut/logs/<id>.<PROP>.log.
Scratch worktrees /tmp/mutv/<id> are removed as soon as the step that needs them ends."""
import json
import os
import re
import shutil
import subprocess
import sys

OUT = "/tmp/mut/out"
LOGS = "/tmp/mut/logs"
ENV = dict(os.environ, OPENBLAS_NUM_THREADS="1", PYTHONDONTWRITEBYTECODE="1")


def sh(cmd, cwd=None, env=None, timeout=3600):
    p = subprocess.run(cmd, shell=True, cwd=cwd, env=env or ENV, capture_output=True, text=True, timeout=timeout)
    return p.returncode, (p.stdout + p.stderr)


def worktree(mid):
    wt = "/tmp/mutv/%s" % mid
    if os.path.exists(wt):
        sh("git -C /repo worktree remove --force %s" % wt)
    os.makedirs("/tmp/mutv", exist_ok=True)
    rc, out = sh("git -C /repo worktree add --detach %s HEAD" % wt)
    assert rc == 0, out
    return wt


def drop(wt):
    sh("git -C /repo worktree remove --force %s" % wt)
    shutil.rmtree(wt, ignore_errors=True)


def verify(mid):
    os.makedirs(LOGS, exist_ok=True)
    d = os.path.join(OUT, mid)
    res = {"id": mid}
    wt = worktree(mid)
    try:
        rc, out = sh("git apply %s/patch.diff" % d, cwd=wt)
        res["applies"] = rc == 0
        if rc != 0:
            res["apply_error"] = out[-400:]
            return res
        rc, out = sh("/venv/bin/python -m pytest -q -p no:cacheprovider dfols/tests 2>&1 | tail -3", cwd=wt, timeout=1800)
        res["tests"] = out.strip().splitlines()[-1] if out.strip() else ""
        res["tests_ok"] = bool(re.search(r"\b118 passed", out)) and "failed" not in out
        env = dict(ENV, DFOLS_ROOT=wt)
        try:
            rc, out = sh("/venv/bin/python %s/demo.py" % d, env=env, timeout=400)
        except subprocess.TimeoutExpired:
            rc, out = 99, "TIMEOUT"
        res["demo_with"] = rc
        res["demo_with_tail"] = out[-300:]
        sh("git checkout -- . && git clean -fdq", cwd=wt)
        try:
            rc, out = sh("/venv/bin/python %s/demo.py" % d, env=env, timeout=400)
        except subprocess.TimeoutExpired:
            rc, out = 99, "TIMEOUT"
        res["demo_without"] = rc
        res["demo_without_tail"] = out[-300:]
        res["confirmed"] = res["tests_ok"] and res["demo_with"] == 1 and res["demo_without"] == 0
    finally:
        drop(wt)
        json.dump(res, open(os.path.join(LOGS, mid + ".verify.json"), "w"), indent=1)
    return res


def vcopy(slot):
    dst = "/tmp/vcopy_%s" % slot
    sh("mkdir -p %s && rsync -a --delete --exclude .git --exclude out --exclude evidence --exclude seeded /verif/ %s/" % (dst, dst))
    os.makedirs(dst + "/evidence", exist_ok=True)
    return dst


def check(slot, items):
    os.makedirs(LOGS, exist_ok=True)
    vc = vcopy(slot)
    for it in items:
        mid, props = it.split(":")
        wt = worktree(mid)
        try:
            rc, out = sh("git apply %s/%s/patch.diff" % (OUT, mid), cwd=wt)
            if rc != 0:
                print(mid, "patch does not apply", flush=True)
                continue
            for prop in props.split(","):
                env = dict(ENV, DFOLS_REPO=wt, VERIF_SEED="0")
                try:
                    rc, out = sh("./check %s --tier quick" % prop, cwd=vc, env=env, timeout=3000)
                except subprocess.TimeoutExpired:
                    rc, out = 98, "TIMEOUT"
                open(os.path.join(LOGS, "%s.%s.log" % (mid, prop)), "w").write(out)
                viol = [l for l in out.splitlines() if l.startswith("VIOLATION")]
                summ = [l for l in out.splitlines() if l.startswith(prop + ":")]
                print("%s vs %s: exit %d, %d VIOLATION (%d no-failing-input-found) | %s" % (
                    mid, prop, rc, len(viol), sum("no-failing-input-found" in l for l in viol), summ[-1] if summ else out[-200:].replace("\n", " ")), flush=True)
        finally:
            drop(wt)


def store(mid):
    d = os.path.join(OUT, mid)
    dst = os.path.join("/verif/seeded", mid)
    ver = json.load(open(os.path.join(LOGS, mid + ".verify.json")))
    if not ver.get("confirmed"):
        print(mid, "NOT confirmed, not stored")
        return
    meta = json.load(open(os.path.join(d, "meta.json")))
    meta["id"] = mid
    meta["author"] = "independent sub-agent given only the property text and a scratch worktree of /repo"
    meta["confirmed_by_me"] = {"scratch_worktree_of": "repo HEAD at confirmation time", "existing_test_suite_with_change": ver["tests"],
                               "demo_exit_with_change": ver["demo_with"], "demo_exit_without_change": ver["demo_without"],
                               "how": "harness/seedtool.py verify: git worktree add; git apply patch.diff; pytest dfols/tests; demo.py; git checkout -- .; demo.py"}
    mine = {}
    for f in sorted(os.listdir(LOGS)):
        m = re.match(re.escape(mid) + r"\.(C\d\d)\.log$", f)
        if m:
            out = open(os.path.join(LOGS, f)).read()
            viol = [l for l in out.splitlines() if l.startswith("VIOLATION")]
            summ = [l for l in out.splitlines() if l.startswith(m.group(1) + ":")]
            mine[m.group(1)] = {"violation_lines": len(viol), "of_which_no_failing_input_found": sum("no-failing-input-found" in l for l in viol),
                                "summary": summ[-1] if summ else ""}
    meta["my_checks_against_it"] = mine
    meta["caught"] = any(v["violation_lines"] > 0 for v in mine.values())
    os.makedirs(dst, exist_ok=True)
    shutil.copy(os.path.join(d, "patch.diff"), dst)
    shutil.copy(os.path.join(d, "demo.py"), dst)
    json.dump(meta, open(os.path.join(dst, "meta.json"), "w"), indent=1)
    print(mid, "stored; caught:", meta["caught"], {k: v["violation_lines"] for k, v in mine.items()})


if __name__ == "__main__":
    cmd = sys.argv[1]
    if cmd == "verify":
        for mid in sys.argv[2:]:
            r = verify(mid)
            print(mid, "confirmed" if r.get("confirmed") else "NOT CONFIRMED", {k: r.get(k) for k in ("applies", "tests", "demo_with", "demo_without")}, flush=True)
    elif cmd == "check":
        check(sys.argv[2], sys.argv[3:])
    elif cmd == "store":
        for mid in sys.argv[2:]:
            store(mid)
