"""Layer G: trust_region.d_within_bounds (the final clipping of every trsbox step, C12), translated from /repo's AST on every run
into lean/DfolsVerif/Gen/TrsClip.lean as a component-wise term: an elementwise NumPy expression becomes an expression in the
component index `i`; a masked store `a[xbdi == k] = b[xbdi == k]` becomes `if xbdi i = k then b i else <previous a i>`.
Properties/C12.lean proves the term equal to the `dWithinBounds` its box theorems are about, and lists every call of the
function on a return path of trsbox / alt_trust_step."""
import ast
import os
import core
from gen_exitsites import q


class Unsupported(Exception):
    pass


def elem(e, env):
    if isinstance(e, ast.Name):
        if e.id in env:
            return env[e.id]
        raise Unsupported("unknown array " + e.id)
    if isinstance(e, ast.Call) and ast.unparse(e.func) in ("np.minimum", "np.maximum") and len(e.args) == 2 and not e.keywords:
        return "(%s %s %s)" % ("min" if ast.unparse(e.func) == "np.minimum" else "max", elem(e.args[0], env), elem(e.args[1], env))
    if isinstance(e, ast.BinOp) and isinstance(e.op, (ast.Add, ast.Sub)):
        return "(%s %s %s)" % (elem(e.left, env), "+" if isinstance(e.op, ast.Add) else "-", elem(e.right, env))
    raise Unsupported("elementwise expression " + ast.unparse(e))


def mask_of(sub):
    """a[xbdi == k] -> (a, k)"""
    if not (isinstance(sub, ast.Subscript) and isinstance(sub.value, ast.Name)):
        return None
    c = sub.slice
    if not (isinstance(c, ast.Compare) and len(c.ops) == 1 and isinstance(c.ops[0], ast.Eq) and isinstance(c.left, ast.Name) and c.left.id == "xbdi"):
        return None
    k = c.comparators[0]
    if isinstance(k, ast.UnaryOp) and isinstance(k.op, ast.USub) and isinstance(k.operand, ast.Constant):
        kv = -k.operand.value
    elif isinstance(k, ast.Constant):
        kv = k.value
    else:
        return None
    if not isinstance(kv, int):
        return None
    return sub.value.id, kv


def translate():
    tree = ast.parse(open(os.path.join(core.REPO, "dfols", "trust_region.py")).read())
    fn = [n for n in tree.body if isinstance(n, ast.FunctionDef) and n.name == "d_within_bounds"]
    if len(fn) != 1:
        raise Unsupported("no unique def d_within_bounds")
    fn = fn[0]
    params = [a.arg for a in fn.args.args]
    if params != ["d", "xopt", "sl", "su", "xbdi"]:
        raise Unsupported("signature changed: %r" % (params,))
    env = {p: "(%s i)" % p for p in params if p != "xbdi"}
    result = None
    for st in fn.body:
        if isinstance(st, ast.Expr) and isinstance(st.value, ast.Constant):
            continue
        if isinstance(st, ast.Return):
            result = elem(st.value, env)
            break
        if not (isinstance(st, ast.Assign) and len(st.targets) == 1):
            raise Unsupported("statement " + ast.unparse(st))
        tgt = st.targets[0]
        if isinstance(tgt, ast.Name):
            env[tgt.id] = elem(st.value, env)
            continue
        m, v = mask_of(tgt), mask_of(st.value)
        if m is None or v is None or m[1] != v[1] or m[0] not in env or v[0] not in env:
            raise Unsupported("store " + ast.unparse(st))
        k = m[1]
        env[m[0]] = "(if xbdi i = %s then %s else %s)" % ("(%d)" % k if k < 0 else str(k), env[v[0]], env[m[0]])
    if result is None:
        raise Unsupported("no return")
    # call sites: every call of d_within_bounds, the function it is in, and whether it is the value of a return statement
    sites = []
    for f in tree.body:
        if isinstance(f, ast.FunctionDef):
            for n in ast.walk(f):
                if isinstance(n, ast.Return) and n.value is not None:
                    for c in ast.walk(n.value):
                        if isinstance(c, ast.Call) and ast.unparse(c.func) == "d_within_bounds":
                            sites.append((f.name, "return", ast.unparse(c)))
            nret = sum(1 for n in ast.walk(f) for c in (ast.walk(n.value) if isinstance(n, ast.Return) and n.value is not None else [])
                       if isinstance(c, ast.Call) and ast.unparse(c.func) == "d_within_bounds")
            nall = sum(1 for c in ast.walk(f) if isinstance(c, ast.Call) and ast.unparse(c.func) == "d_within_bounds")
            for _ in range(nall - nret):
                sites.append((f.name, "other", "d_within_bounds(..)"))
    # the return statements of trsbox's Python branch and of alt_trust_step: text of the step component
    rets = []
    for f in tree.body:
        if isinstance(f, ast.FunctionDef) and f.name in ("trsbox", "alt_trust_step"):
            for parent in ast.walk(f):
                for fld in ("body", "orelse", "finalbody"):
                    stmts = getattr(parent, fld, None)
                    if not isinstance(stmts, list):
                        continue
                    for j, n in enumerate(stmts):
                        if isinstance(n, ast.Return) and n.value is not None:
                            first = n.value.elts[0] if isinstance(n.value, ast.Tuple) else n.value
                            # for a bare name: the statement just before the return (where the name got its value)
                            prev = ast.unparse(stmts[j - 1]) if isinstance(first, ast.Name) and j > 0 else ""
                            rets.append((f.name, ast.unparse(first), prev))
    return result, sites, rets


def scal(e):
    """scalar expression of ball_step over the `Num` record of Kernels/TrsboxLinear.lean"""
    if isinstance(e, ast.Name):
        return "N.zt" if e.id == "ZERO_THRESH" else e.id
    if isinstance(e, ast.Constant) and e.value in (0, 0.0) and not isinstance(e.value, bool):
        return "0"
    if isinstance(e, ast.Call) and ast.unparse(e.func) == "np.dot" and len(e.args) == 2 and all(isinstance(a, ast.Name) for a in e.args):
        return "(dot N n %s %s)" % (e.args[0].id, e.args[1].id)
    if isinstance(e, ast.Call) and ast.unparse(e.func) == "sqrt" and len(e.args) == 1:
        return "(N.sqrt %s)" % scal(e.args[0])
    if isinstance(e, ast.Call) and ast.unparse(e.func) == "np.maximum" and len(e.args) == 2:
        return "(maxv %s %s)" % (scal(e.args[0]), scal(e.args[1]))
    if isinstance(e, ast.BinOp) and isinstance(e.op, ast.Pow) and isinstance(e.right, ast.Constant) and e.right.value == 2:
        return "(N.sq %s)" % scal(e.left)
    if isinstance(e, ast.BinOp) and isinstance(e.op, (ast.Add, ast.Sub, ast.Mult, ast.Div)):
        return "(%s %s %s)" % (scal(e.left), {ast.Add: "+", ast.Sub: "-", ast.Mult: "*", ast.Div: "/"}[type(e.op)], scal(e.right))
    raise Unsupported("scalar expression " + ast.unparse(e))


def translate_ball_step():
    tree = ast.parse(open(os.path.join(core.REPO, "dfols", "trust_region.py")).read())
    fn = [n for n in tree.body if isinstance(n, ast.FunctionDef) and n.name == "ball_step"]
    if len(fn) != 1 or [a.arg for a in fn[0].args.args] != ["x0", "g", "Delta"]:
        raise Unsupported("no unique def ball_step(x0, g, Delta)")
    lines = []

    def block(stmts, ind):
        for j, st in enumerate(stmts):
            if isinstance(st, ast.Expr) and isinstance(st.value, ast.Constant):
                continue
            if isinstance(st, ast.Assign) and len(st.targets) == 1 and isinstance(st.targets[0], ast.Name):
                lines.append("%slet %s := %s" % (ind, st.targets[0].id, scal(st.value)))
            elif isinstance(st, ast.Return):
                lines.append(ind + scal(st.value))
                return
            elif isinstance(st, ast.If) and j == len(stmts) - 1:
                t = st.test
                if not (isinstance(t, ast.Compare) and len(t.ops) == 1 and isinstance(t.ops[0], ast.Lt)):
                    raise Unsupported("test " + ast.unparse(t))
                lines.append("%sif %s < %s then" % (ind, scal(t.left), scal(t.comparators[0])))
                block(st.body, ind + "  ")
                lines.append(ind + "else")
                block(st.orelse, ind + "  ")
                return
            else:
                raise Unsupported("statement " + ast.unparse(st))
        raise Unsupported("block without return")
    block(fn[0].body, "  ")
    return lines


def regenerate(ctx=None):
    path = os.path.join(core.LEAN_DIR, "DfolsVerif", "Gen", "TrsClip.lean")
    info = {}
    try:
        result, sites, rets = translate()
        defs = ["/-- `d_within_bounds(d, xopt, sl, su, xbdi)`, component `i` -/",
                "def dWithinBoundsSrc {α : Type} [Add α] [Sub α] [Min α] [Max α] (d xopt sl su : Nat → α) (xbdi : Nat → Int) : Nat → α :=",
                "  fun i => " + result, "",
                "/-- every call of `d_within_bounds`: (function, \"return\" when it is (part of) a returned value, call text) -/",
                "def dWithinBoundsCalls : List (String × String × String) := [\n%s]" % ",\n".join("  (%s, %s, %s)" % (q(a), q(b), q(c)) for a, b, c in sites), "",
                "/-- the step component of every `return` of trsbox and alt_trust_step (for a bare name: the statement just before it) -/",
                "def trsboxReturns : List (String × String × String) := [\n%s]" % ",\n".join("  (%s, %s, %s)" % (q(a), q(b), q(c)) for a, b, c in rets), ""]
        bs = translate_ball_step()
        defs += ["/-- `trust_region.ball_step(x0, g, Delta)` over the numeric record of Kernels/TrsboxLinear.lean -/",
                 "def ballStepSrc {α : Type} [OfNat α 0] [Add α] [Sub α] [Mul α] [Div α] [Neg α] [LT α] [LE α] [DecidableLT α] [DecidableLE α]",
                 "    (N : Num α) (n : Nat) (x0 g : Nat → α) (Delta : α) : α :="] + bs + [""]
        # the formulas the norm lemmas of Proofs/TrsNorm.lean are about, as canonical text: in trsbox the assignments to `resid`,
        # to `temp` directly after it, to `blen` and `stplen`; in alt_trust_step the LAST assignments to `cth`, `sth` and the
        # update of the free part of `d`
        tree = ast.parse(open(os.path.join(core.REPO, "dfols", "trust_region.py")).read())
        fns = {n.name: n for n in tree.body if isinstance(n, ast.FunctionDef)}
        forms = []
        def assigns(fn, name):
            return sorted([(n.lineno, ast.unparse(n)) for n in ast.walk(fn) if isinstance(n, ast.Assign) and len(n.targets) == 1
                           and ast.unparse(n.targets[0]) == name])
        tb = fns["trsbox"]
        res = assigns(tb, "resid")
        for ln, t in res:
            forms.append(("trsbox", t))
            nxt = [x for x in assigns(tb, "temp") if x[0] > ln]
            if nxt:
                forms.append(("trsbox", nxt[0][1]))
        guards = {}
        for n in ast.walk(tb):
            if isinstance(n, ast.If):
                for b in n.body:
                    if isinstance(b, ast.Assign):
                        guards[b.lineno] = ast.unparse(n.test)
        for nm in ("blen", "stplen"):
            for ln, t in assigns(tb, nm):
                forms.append(("trsbox", t + (("  # under: if " + guards[ln]) if nm == "stplen" and ln in guards else "")))
        at = fns["alt_trust_step"]
        for nm in ("cth", "sth"):
            a = assigns(at, nm)
            if a:
                forms.append(("alt_trust_step", a[-1][1]))
        for _ln, t in assigns(at, "d[xbdi == 0]"):
            forms.append(("alt_trust_step", t))
        defs += ["/-- (function, assignment) — the step-length and rotation formulas of trsbox / alt_trust_step -/",
                 "def trsboxStepFormulas : List (String × String) := [\n%s]" % ",\n".join("  (%s, %s)" % (q(a), q(b)) for a, b in forms), ""]
        info = {"term": result, "calls": len(sites), "returns": len(rets), "ball_step_lines": len(bs), "step_formulas": len(forms)}
    except Exception as exc:
        if ctx is not None:
            ctx.broke("gen:trsclip-translator", repr(exc))
        defs = ["-- TRANSLATION FAILED: %s" % repr(exc).replace("\n", " ")]
    content = "\n".join(["/- GENERATED by harness/gen_trsclip.py from /repo's trust_region.py on every run — do not edit. -/",
                         "import DfolsVerif.Kernels.TrsboxLinear", "namespace Dfols.Gen", "open Dfols.TrsLin", ""] + defs + ["end Dfols.Gen", ""])
    old = open(path).read() if os.path.exists(path) else None
    if old != content:
        open(path, "w").write(content)
    if ctx is not None:
        ctx.cov["d_within_bounds_translation"] = info
    return info


if __name__ == "__main__":
    print(regenerate())
