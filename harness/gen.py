"""Layer G: tables regenerated from /repo's Python AST into lean/DfolsVerif/Gen/*.lean on every run."""
import os
import core


def write_if_changed(path, content):
    old = open(path).read() if os.path.exists(path) else None
    if old != content:
        os.makedirs(os.path.dirname(path), exist_ok=True)
        with open(path, "w") as f:
            f.write(content)
        return True
    return False


def regenerate(ctx):
    return
