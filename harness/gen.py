"""Layer G: tables regenerated from /repo's Python AST into lean/DfolsVerif/Gen/*.lean on every run.

  Gen/ParamTable.lean  <- dfols/params.py    ParameterList.__init__ (defaults as expressions of n, npt, maxfun,
                                             objfun_has_noise) and ParameterList.param_type (type, None-allowed, bounds)
  Gen/ExitCodes.lean   <- dfols/controller.py (EXIT_* constants, __all__, message stems, able_to_do_restart),
                          dfols/solver.py     (OptimResults.__init__ arity + EXIT_* attributes, the OptimResults(...) and
                                               ExitInformation(...) calls inside solve), docs/userguide.rst (soln.EXIT_*)

Committed reference copies describing the repaired code: lean/DfolsVerif/Spec/*.lean, tied to Gen by
`gen_eq_spec` theorems (DfolsVerif/Proofs/GenSpec.lean).  `python harness/gen.py --write-spec` rewrites the Spec
files and harness/spec_tables.json (the same reference in machine-readable form: the documented ranges / constants the
C07 failing-input search uses as its oracle) from the current $DFOLS_REPO — only to be used when a `fix:` commit
deliberately changed a table.

regenerate() never raises on unparsable / unexpected source: it records ctx.broke("gen:<table>", detail) and leaves
the previous Gen file in place.
"""
import ast
import os
import re
import struct
import sys

import core

GEN_DIR = os.path.join(core.LEAN_DIR, "DfolsVerif", "Gen")
SPEC_DIR = os.path.join(core.LEAN_DIR, "DfolsVerif", "Spec")


def write_if_changed(path, content):
    old = open(path).read() if os.path.exists(path) else None
    if old != content:
        os.makedirs(os.path.dirname(path), exist_ok=True)
        with open(path, "w") as f:
            f.write(content)
        return True
    return False


class Unsupported(Exception):
    pass


# ----------------------------------------------------------------------------------------------
# small helpers
# ----------------------------------------------------------------------------------------------
def _bits(x: float) -> int:
    return struct.unpack("<Q", struct.pack("<d", float(x)))[0]


def lean_str(s: str) -> str:
    out = []
    for ch in s:
        if ch == "\\":
            out.append("\\\\")
        elif ch == '"':
            out.append('\\"')
        elif ch == "\n":
            out.append("\\n")
        elif ch == "\t":
            out.append("\\t")
        elif 32 <= ord(ch) < 127:
            out.append(ch)
        else:
            out.append("\\u{%x}" % ord(ch))
    return '"' + "".join(out) + '"'


def lean_int(i: int) -> str:
    return "(%d)" % i if i < 0 else "%d" % i


def _is_const_tree(node) -> bool:
    return all(isinstance(x, (ast.Constant, ast.BinOp, ast.UnaryOp, ast.operator, ast.unaryop, ast.expr_context))
               for x in ast.walk(node))


def _fold(node):
    """constant-fold a literal-only arithmetic tree with the interpreter's own arithmetic (e.g. `1-1e-1`)"""
    for x in ast.walk(node):
        if isinstance(x, ast.Constant) and not isinstance(x.value, (int, float, bool)):
            raise Unsupported("non-numeric constant in arithmetic: %s" % ast.dump(node))
        if isinstance(x, ast.BinOp) and not isinstance(x.op, (ast.Add, ast.Sub, ast.Mult, ast.Div, ast.FloorDiv, ast.Pow)):
            raise Unsupported("operator in constant expression: %s" % ast.dump(node))
    return eval(compile(ast.Expression(body=node), "<const>", "eval"), {"__builtins__": {}}, {})


SIZE_NAMES = {"n": ".n", "npt": ".npt", "maxfun": ".maxfun"}


def iexpr(node) -> str:
    if isinstance(node, ast.Constant) and isinstance(node.value, int) and not isinstance(node.value, bool):
        return ".lit %s" % lean_int(node.value)
    if isinstance(node, ast.UnaryOp) and isinstance(node.op, ast.USub) and _is_const_tree(node):
        v = _fold(node)
        if isinstance(v, int):
            return ".lit %s" % lean_int(v)
    if isinstance(node, ast.Name) and node.id in SIZE_NAMES:
        return SIZE_NAMES[node.id]
    if isinstance(node, ast.BinOp):
        ops = {ast.Add: "add", ast.Sub: "sub", ast.Mult: "mul", ast.FloorDiv: "fdiv"}
        for k, nm in ops.items():
            if isinstance(node.op, k):
                return ".%s (%s) (%s)" % (nm, iexpr(node.left), iexpr(node.right))
    raise Unsupported("integer expression: %s" % ast.dump(node))


def cond(node) -> str:
    if isinstance(node, ast.Name) and node.id == "objfun_has_noise":
        return ".noise"
    if isinstance(node, ast.Compare) and len(node.ops) == 1:
        ops = {ast.Gt: "gt", ast.GtE: "ge", ast.Lt: "lt", ast.LtE: "le"}
        for k, nm in ops.items():
            if isinstance(node.ops[0], k):
                return ".%s (%s) (%s)" % (nm, iexpr(node.left), iexpr(node.comparators[0]))
    raise Unsupported("condition: %s" % ast.dump(node))


def const_dexpr(v) -> str:
    if v is None:
        return ".none"
    if isinstance(v, bool):
        return ".bool %s" % ("true" if v else "false")
    if isinstance(v, int):
        return ".int (.lit %s)" % lean_int(v)
    if isinstance(v, float):
        return ".flt 0x%016X" % _bits(v)
    raise Unsupported("default constant %r" % (v,))


def _params_key(node):
    """self.params["key"] -> key"""
    if (isinstance(node, ast.Subscript) and isinstance(node.value, ast.Attribute) and node.value.attr == "params"
            and isinstance(node.value.value, ast.Name) and node.value.value.id == "self"):
        sl = node.slice
        if isinstance(sl, ast.Constant) and isinstance(sl.value, str):
            return sl.value
    return None


def dexpr(node, env) -> str:
    if isinstance(node, ast.Constant):
        return const_dexpr(node.value)
    if isinstance(node, ast.IfExp):
        return ".ite (%s) (%s) (%s)" % (cond(node.test), dexpr(node.body, env), dexpr(node.orelse, env))
    k = _params_key(node)
    if k is not None:
        if k not in env:
            raise Unsupported("default refers to a key not yet set: %s" % k)
        return env[k]            # defaults are built sequentially without mutation in between: inlining is exact
    if isinstance(node, (ast.BinOp, ast.UnaryOp)) and _is_const_tree(node):
        return const_dexpr(_fold(node))
    if isinstance(node, (ast.BinOp, ast.Name)):
        return ".int (%s)" % iexpr(node)
    raise Unsupported("default expression: %s" % ast.dump(node))


def bound(node) -> str:
    if isinstance(node, ast.Constant):
        v = node.value
        if v is None:
            return ".none"
        if isinstance(v, bool):
            raise Unsupported("bool bound")
        if isinstance(v, int):
            return ".int %s" % lean_int(v)
        if isinstance(v, float):
            return ".flt 0x%016X" % _bits(v)
    if isinstance(node, ast.Name) and node.id == "npt":
        return ".nptPlus 0"
    if isinstance(node, ast.BinOp) and isinstance(node.left, ast.Name) and node.left.id == "npt" \
            and isinstance(node.right, ast.Constant) and isinstance(node.right.value, int) and not isinstance(node.right.value, bool):
        if isinstance(node.op, ast.Sub):
            return ".nptPlus %s" % lean_int(-node.right.value)
        if isinstance(node.op, ast.Add):
            return ".nptPlus %s" % lean_int(node.right.value)
    if isinstance(node, (ast.BinOp, ast.UnaryOp)) and _is_const_tree(node):
        v = _fold(node)
        if isinstance(v, int) and not isinstance(v, bool):
            return ".int %s" % lean_int(v)
        if isinstance(v, float):
            return ".flt 0x%016X" % _bits(v)
    raise Unsupported("bound expression: %s" % ast.dump(node))


def _find(body, cls, name):
    for st in body:
        if isinstance(st, cls) and st.name == name:
            return st
    raise Unsupported("%s %s not found" % (cls.__name__, name))


# ----------------------------------------------------------------------------------------------
# params.py
# ----------------------------------------------------------------------------------------------
def parse_params(src):
    tree = ast.parse(src)
    cls = _find(tree.body, ast.ClassDef, "ParameterList")
    init = _find(cls.body, ast.FunctionDef, "__init__")
    argn = [a.arg for a in init.args.args]
    if argn != ["self", "n", "npt", "maxfun", "objfun_has_noise"]:
        raise Unsupported("ParameterList.__init__ signature %s" % argn)
    env, order, notes = {}, [], {}
    for st in init.body:
        if isinstance(st, ast.Assign) and len(st.targets) == 1:
            k = _params_key(st.targets[0])
            if k is None:
                continue
            d = dexpr(st.value, env)
            if k not in env:
                order.append(k)
            env[k] = d
            notes[k] = ast.unparse(st.value)
    ptype = _find(cls.body, ast.FunctionDef, "param_type")
    if [a.arg for a in ptype.args.args] != ["self", "key", "npt"]:
        raise Unsupported("param_type signature")
    types = []
    node = None
    for st in ptype.body:
        if isinstance(st, ast.If):
            node = st
            break
    if node is None:
        raise Unsupported("param_type has no if-chain")
    tags = {"int": ".int", "float": ".float", "bool": ".bool", "str": ".str"}
    while True:
        t = node.test
        if not (isinstance(t, ast.Compare) and isinstance(t.left, ast.Name) and t.left.id == "key" and len(t.ops) == 1
                and isinstance(t.ops[0], ast.Eq) and isinstance(t.comparators[0], ast.Constant)
                and isinstance(t.comparators[0].value, str)):
            raise Unsupported("param_type test: %s" % ast.unparse(t))
        key = t.comparators[0].value
        if len(node.body) != 1 or not isinstance(node.body[0], ast.Assign):
            raise Unsupported("param_type body for %s" % key)
        asg = node.body[0]
        tgt = asg.targets[0]
        if not (isinstance(tgt, ast.Tuple) and [getattr(e, "id", None) for e in tgt.elts] == ["type_str", "nonetype_ok", "lower", "upper"]
                and isinstance(asg.value, ast.Tuple) and len(asg.value.elts) == 4):
            raise Unsupported("param_type assignment for %s" % key)
        ty, nn, lo, hi = asg.value.elts
        if not (isinstance(ty, ast.Constant) and ty.value in tags):
            raise Unsupported("type_str for %s" % key)
        if not (isinstance(nn, ast.Constant) and isinstance(nn.value, bool)):
            raise Unsupported("nonetype_ok for %s" % key)
        types.append((key, "⟨%s, %s, %s, %s⟩" % (tags[ty.value], "true" if nn.value else "false", bound(lo), bound(hi)),
                      ast.unparse(asg.value), {"type": ty.value, "none_ok": nn.value, "lower": ast.unparse(lo), "upper": ast.unparse(hi)}))
        if len(node.orelse) == 1 and isinstance(node.orelse[0], ast.If):
            node = node.orelse[0]
        else:
            break
    return [(k, env[k], notes[k]) for k in order], types


def render_params(ns, defaults, types):
    L = ["/- %s: parameter table of dfols/params.py (ParameterList.__init__ defaults, ParameterList.param_type)." % (
        "GENERATED by harness/gen.py from $DFOLS_REPO on every run — do not edit" if ns == "Gen"
        else "COMMITTED REFERENCE describing the repaired code (written by `harness/gen.py --write-spec`)"),
         "   floats are raw binary64 bits; `.nptPlus d` is `npt + d`; references to earlier keys are inlined. -/",
         "import DfolsVerif.Book.PyVal", "", "namespace Dfols.%s" % ns, "open Dfols.Py", "",
         "def paramDefaults : List (String × DExpr) := ["]
    for i, (k, d, note) in enumerate(defaults):
        L.append("  (%s, %s)%s  -- %s" % (lean_str(k), d, "," if i + 1 < len(defaults) else "", note))
    L += ["]", "", "def paramTypes : List (String × TypeEntry) := ["]
    for i, (k, t, note, _raw) in enumerate(types):
        L.append("  (%s, %s)%s  -- %s" % (lean_str(k), t, "," if i + 1 < len(types) else "", note))
    L += ["]", "", "end Dfols.%s" % ns, ""]
    return "\n".join(L)


# ----------------------------------------------------------------------------------------------
# controller.py / solver.py / userguide.rst
# ----------------------------------------------------------------------------------------------
def _str_list(node):
    if isinstance(node, (ast.List, ast.Tuple)) and all(isinstance(e, ast.Constant) and isinstance(e.value, str) for e in node.elts):
        return [e.value for e in node.elts]
    raise Unsupported("string list: %s" % ast.dump(node)[:200])


def _name_list(node):
    if isinstance(node, (ast.List, ast.Tuple)) and all(isinstance(e, ast.Name) for e in node.elts):
        return [e.id for e in node.elts]
    raise Unsupported("name list: %s" % ast.dump(node)[:200])


def _is_self_attr(node, attr):
    return isinstance(node, ast.Attribute) and node.attr == attr and isinstance(node.value, ast.Name) and node.value.id == "self"


def parse_exit(controller_src, solver_src, guide_src):
    ctree = ast.parse(controller_src)
    constants, call = [], None
    for st in ctree.body:
        if isinstance(st, ast.Assign) and len(st.targets) == 1 and isinstance(st.targets[0], ast.Name):
            nm = st.targets[0].id
            if nm == "__all__":
                call = _str_list(st.value)
            elif nm.startswith("EXIT_"):
                v = _fold(st.value) if _is_const_tree(st.value) else None
                if not isinstance(v, int) or isinstance(v, bool):
                    raise Unsupported("exit constant %s is not an int literal" % nm)
                constants = [(a, b) for (a, b) in constants if a != nm] + [(nm, v)]
    if call is None:
        raise Unsupported("controller.__all__ not found")
    ei = _find(ctree.body, ast.ClassDef, "ExitInformation")
    # message(): if not with_stem: return self.msg / elif self.flag == EXIT_X: return "stem" + self.msg / else: return "..." + self.msg
    msg = _find(ei.body, ast.FunctionDef, "message")
    stems, unknown = [], None
    node = next((st for st in msg.body if isinstance(st, ast.If)), None)
    if node is None:
        raise Unsupported("message() has no if-chain")

    def stem_of(ret):
        if (isinstance(ret, ast.Return) and isinstance(ret.value, ast.BinOp) and isinstance(ret.value.op, ast.Add)
                and isinstance(ret.value.left, ast.Constant) and isinstance(ret.value.left.value, str) and _is_self_attr(ret.value.right, "msg")):
            return ret.value.left.value
        raise Unsupported("message() return: %s" % ast.unparse(ret))

    first = True
    while True:
        t = node.test
        if first:
            first = False
            if not (isinstance(t, ast.UnaryOp) and isinstance(t.op, ast.Not) and isinstance(t.operand, ast.Name) and t.operand.id == "with_stem"):
                raise Unsupported("message() first test: %s" % ast.unparse(t))
        else:
            if not (isinstance(t, ast.Compare) and _is_self_attr(t.left, "flag") and len(t.ops) == 1 and isinstance(t.ops[0], ast.Eq)
                    and isinstance(t.comparators[0], ast.Name)):
                raise Unsupported("message() test: %s" % ast.unparse(t))
            if len(node.body) != 1:
                raise Unsupported("message() body")
            stems.append((t.comparators[0].id, stem_of(node.body[0])))
        if len(node.orelse) == 1 and isinstance(node.orelse[0], ast.If):
            node = node.orelse[0]
        else:
            if len(node.orelse) != 1:
                raise Unsupported("message() else branch")
            unknown = stem_of(node.orelse[0])
            break
    # able_to_do_restart(): if self.flag in [..]: return True / elif self.flag in [..]: return False / else: <message test>
    ar = _find(ei.body, ast.FunctionDef, "able_to_do_restart")
    yes, no = [], []
    node = next((st for st in ar.body if isinstance(st, ast.If)), None)
    while node is not None:
        t = node.test
        if not (isinstance(t, ast.Compare) and _is_self_attr(t.left, "flag") and len(t.ops) == 1 and isinstance(t.ops[0], ast.In)):
            raise Unsupported("able_to_do_restart test: %s" % ast.unparse(t))
        names = _name_list(t.comparators[0])
        ret = node.body[0]
        if not (len(node.body) == 1 and isinstance(ret, ast.Return) and isinstance(ret.value, ast.Constant) and isinstance(ret.value.value, bool)):
            raise Unsupported("able_to_do_restart body")
        (yes if ret.value.value else no).extend(names)
        node = node.orelse[0] if (len(node.orelse) == 1 and isinstance(node.orelse[0], ast.If)) else None

    stree = ast.parse(solver_src)
    orc = _find(stree.body, ast.ClassDef, "OptimResults")
    oinit = _find(orc.body, ast.FunctionDef, "__init__")
    a = oinit.args
    if a.vararg or a.kwarg or a.kwonlyargs or a.posonlyargs:
        raise Unsupported("OptimResults.__init__ signature")
    amax = len(a.args) - 1
    amin = amax - len(a.defaults)
    attrs = []
    for st in oinit.body:
        if isinstance(st, ast.Assign) and len(st.targets) == 1 and isinstance(st.targets[0], ast.Attribute) \
                and _is_self_attr(st.targets[0], st.targets[0].attr) and st.targets[0].attr.startswith("EXIT_"):
            if not isinstance(st.value, ast.Name):
                raise Unsupported("OptimResults attribute %s" % ast.unparse(st))
            attrs.append((st.targets[0].attr, st.value.id))
    solve = _find(stree.body, ast.FunctionDef, "solve")
    calls, msgs = [], []
    for x in ast.walk(solve):
        if isinstance(x, ast.Call) and isinstance(x.func, ast.Name):
            if x.func.id == "OptimResults":
                if any(isinstance(g, ast.Starred) for g in x.args) or any(k.arg is None for k in x.keywords):
                    raise Unsupported("OptimResults call with *args")
                calls.append((x.lineno, x.col_offset, len(x.args) + len(x.keywords)))
            elif x.func.id == "ExitInformation":
                if len(x.args) != 2 or not isinstance(x.args[0], ast.Name):
                    raise Unsupported("ExitInformation call: %s" % ast.unparse(x))
                m = x.args[1]
                if isinstance(m, ast.BinOp) and isinstance(m.op, ast.Mod):
                    m = m.left
                if not (isinstance(m, ast.Constant) and isinstance(m.value, str)):
                    raise Unsupported("ExitInformation message: %s" % ast.unparse(x))
                msgs.append((x.lineno, x.col_offset, x.args[0].id, m.value))
    calls.sort()
    msgs.sort()
    guide = []
    for m in re.finditer(r"soln\.(EXIT_[A-Z_]+)", guide_src):
        if m.group(1) not in guide:
            guide.append(m.group(1))
    # controllerAll and resultAttrs are sets semantically: sorted, so that the order in which a patch adds names is immaterial
    return dict(constants=constants, controllerAll=sorted(x for x in call if x.startswith("EXIT_")), stems=stems, unknownStem=unknown,
                restartYes=yes, restartNo=no, resultArityMin=amin, resultArityMax=amax, resultAttrs=sorted(attrs),
                resultCallArities=[c[2] for c in calls], solveExitMessages=[(m[2], m[3]) for m in msgs], userGuideExits=guide)


def render_exit(ns, t):
    def strs(xs):
        return "[" + ", ".join(lean_str(x) for x in xs) + "]"

    def pairs(xs, f):
        if not xs:
            return "[]"
        return "[\n" + ",\n".join("    (%s, %s)" % (lean_str(a), f(b)) for a, b in xs) + "]"

    L = ["/- %s: exit codes, message stems, restartability, result constructor, user-guide constants." % (
        "GENERATED by harness/gen.py from $DFOLS_REPO on every run — do not edit" if ns == "Gen"
        else "COMMITTED REFERENCE describing the repaired code (written by `harness/gen.py --write-spec`)"),
         "   Field meanings: DfolsVerif/Book/ExitTable.lean. -/",
         "import DfolsVerif.Book.ExitTable", "", "namespace Dfols.%s" % ns, "open Dfols.Py", "",
         "def exitTable : ExitTable where",
         "  constants := %s" % pairs(t["constants"], lean_int),
         "  controllerAll := %s" % strs(t["controllerAll"]),
         "  stems := %s" % pairs(t["stems"], lean_str),
         "  unknownStem := %s" % lean_str(t["unknownStem"]),
         "  restartYes := %s" % strs(t["restartYes"]),
         "  restartNo := %s" % strs(t["restartNo"]),
         "  resultArityMin := %d" % t["resultArityMin"],
         "  resultArityMax := %d" % t["resultArityMax"],
         "  resultAttrs := %s" % pairs(t["resultAttrs"], lean_str),
         "  resultCallArities := [%s]" % ", ".join(str(x) for x in t["resultCallArities"]),
         "  solveExitMessages := %s" % pairs(t["solveExitMessages"], lean_str),
         "  userGuideExits := %s" % strs(t["userGuideExits"]),
         "", "end Dfols.%s" % ns, ""]
    return "\n".join(L)


# ----------------------------------------------------------------------------------------------
def _read(rel):
    with open(os.path.join(core.REPO, rel), encoding="utf-8") as f:
        return f.read()


SPEC_JSON = os.path.join(os.path.dirname(os.path.abspath(__file__)), "spec_tables.json")
RAW = {}


def build_tables():
    """returns ({table: content-renderer(ns)}, {table: error detail})"""
    out, errs = {}, {}
    try:
        d, t = parse_params(_read("dfols/params.py"))
        out["ParamTable"] = lambda ns, d=d, t=t: render_params(ns, d, t)
        RAW["params"] = {"defaults": [[k, note] for (k, _d, note) in d], "types": [[k, raw] for (k, _t, _n, raw) in t]}
    except Exception as e:   # SyntaxError, Unsupported, OSError, ...
        errs["ParamTable"] = "%s: %s" % (type(e).__name__, e)
    try:
        ex = parse_exit(_read("dfols/controller.py"), _read("dfols/solver.py"), _read("docs/userguide.rst"))
        out["ExitCodes"] = lambda ns, ex=ex: render_exit(ns, ex)
        RAW["exit"] = ex
    except Exception as e:
        errs["ExitCodes"] = "%s: %s" % (type(e).__name__, e)
    return out, errs


def regenerate(ctx):
    out, errs = build_tables()
    changed = []
    for name, render in out.items():
        if write_if_changed(os.path.join(GEN_DIR, name + ".lean"), render("Gen")):
            changed.append(name)
    for name, detail in errs.items():
        if ctx is not None:
            ctx.broke("gen:" + name, detail)
        # keep the project buildable: fall back to the committed reference if there is no Gen file at all
        p = os.path.join(GEN_DIR, name + ".lean")
        sp = os.path.join(SPEC_DIR, name + ".lean")
        if not os.path.exists(p) and os.path.exists(sp):
            write_if_changed(p, open(sp).read().replace("namespace Dfols.Spec", "namespace Dfols.Gen").replace("end Dfols.Spec", "end Dfols.Gen"))
    if ctx is not None:
        ctx.cov["gen_tables"] = {"regenerated": sorted(out), "rewritten": changed, "errors": errs, "source": core.REPO}
    return out, errs


if __name__ == "__main__":
    out, errs = regenerate(None)
    for k, v in errs.items():
        print("gen:%s FAILED: %s" % (k, v))
    if "--write-spec" in sys.argv:
        for name, render in out.items():
            print("Spec/%s.lean %s" % (name, "rewritten" if write_if_changed(os.path.join(SPEC_DIR, name + ".lean"), render("Spec")) else "unchanged"))
        if not errs:
            import json
            print("spec_tables.json %s" % ("rewritten" if write_if_changed(SPEC_JSON, json.dumps(RAW, indent=1, sort_keys=True) + "\n") else "unchanged"))
    sys.exit(1 if errs else 0)
