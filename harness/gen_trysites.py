"""Layer G: every `try` block of the package with its handler types and the functions called in its body, the package's call graph
by bare function name (`a.b.c(...)` -> `c`), and the functions that call the user's residual function directly — regenerated
from /repo's AST on every run into lean/DfolsVerif/Gen/TrySites.lean.  Properties/C08.lean decides over these tables that no `try`
body can reach a call of the residual function (so no handler of the package can intercept an exception raised inside it)."""
import ast
import glob
import os
import core
from gen_exitsites import q

OBJ_NAMES = ("objfun", "self.objfun")


PKG_ROOTS = ("self", "control", "model", "diagnostic_info", "params", "results", "soln", "exit_info", "H", "self.model", "control.model")


def bare(func):
    """name of the PACKAGE function a call may reach, or a text that is no package function: plain names are module-level
    functions; attribute calls count only on the package's own objects (self / control / model / diagnostic_info / ...) — calls
    into NumPy / SciPy / math (`np.…`, `LA.…`, `x.copy()`, …) are not package functions even when a package function has the same
    last name (`LA.solve` is not `dfols.solve`)"""
    if isinstance(func, ast.Name):
        return func.id
    t = ast.unparse(func)
    if isinstance(func, ast.Attribute):
        root = ast.unparse(func.value)
        if root in PKG_ROOTS:
            return func.attr
        return "ext:" + t
    return "ext:" + t


def collect():
    tries, edges, direct = [], set(), set()
    for f in sorted(glob.glob(os.path.join(core.REPO, "dfols", "*.py"))):
        tree = ast.parse(open(f).read())
        fname = os.path.basename(f)
        for fn in ast.walk(tree):
            if not isinstance(fn, (ast.FunctionDef, ast.Lambda)):
                continue
            name = fn.name if isinstance(fn, ast.FunctionDef) else None
            if name is None:
                continue
            for n in ast.walk(fn):
                if isinstance(n, ast.Call):
                    if ast.unparse(n.func) in OBJ_NAMES:
                        direct.add(name)
                    else:
                        edges.add((name, bare(n.func)))
                if isinstance(n, ast.Try):
                    calls = sorted({bare(c.func) if ast.unparse(c.func) not in OBJ_NAMES else "objfun"
                                    for s in n.body for c in ast.walk(s) if isinstance(c, ast.Call)})
                    tries.append(("%s:%s:%d" % (fname, name, n.lineno), [ast.unparse(h.type) if h.type is not None else "" for h in n.handlers], calls))
    defined = set()
    for f in sorted(glob.glob(os.path.join(core.REPO, "dfols", "*.py"))):
        for fn in ast.walk(ast.parse(open(f).read())):
            if isinstance(fn, ast.FunctionDef):
                defined.add(fn.name)
    edges = sorted((a, b) for a, b in edges if b in defined)      # calls of package functions only (by bare name)
    # the part of solve() up to and including the input-error return: every call made there
    sol = [n for n in ast.parse(open(os.path.join(core.REPO, "dfols", "solver.py")).read()).body
           if isinstance(n, ast.FunctionDef) and n.name == "solve"][0]
    prelude, found = [], False
    for st in sol.body:
        for c in ast.walk(st):
            if isinstance(c, ast.Call):
                prelude.append("objfun" if ast.unparse(c.func) in OBJ_NAMES else bare(c.func))
        if isinstance(st, ast.If) and ast.unparse(st.test) == "exit_info is not None" and any(isinstance(b, ast.Return) for b in st.body):
            found = True
            break
    if not found:
        raise ValueError("solve(): no `if exit_info is not None: ... return` block found")
    collect.prelude = sorted(set(prelude))
    return tries, edges, sorted(direct)


def regenerate(ctx=None):
    path = os.path.join(core.LEAN_DIR, "DfolsVerif", "Gen", "TrySites.lean")
    info = {}
    try:
        tries, edges, direct = collect()
        L = ["/-- every `try` of the package: (file:function:line, handler types, bare names of the functions called in its body) -/",
             "def trySites : List (String × List String × List String) := [\n%s]\n" % ",\n".join(
                 "  (%s, [%s], [%s])" % (q(w), ", ".join(q(h) for h in hs), ", ".join(q(c) for c in cs)) for w, hs, cs in tries),
             "/-- call graph by bare name: (function, package function it calls) -/",
             "def callEdges : List (String × String) := [\n%s]\n" % ",\n".join("  (%s, %s)" % (q(a), q(b)) for a, b in edges),
             "/-- the functions whose body calls the user's residual function (`objfun(...)` / `self.objfun(...)`) -/",
             "def objfunCallers : List String := [%s]\n" % ", ".join(q(d) for d in direct),
             "/-- every call made by `solve` up to and including its input-error return (bare / `ext:` names, as above) -/",
             "def solvePreludeCalls : List String := [%s]\n" % ", ".join(q(d) for d in collect.prelude)]
        info = {"try_blocks": len(tries), "edges": len(edges), "objfun_callers": direct}
    except Exception as exc:
        if ctx is not None:
            ctx.broke("gen:try-sites", repr(exc))
        L = ["-- TRANSLATION FAILED: %s" % repr(exc).replace("\n", " ")]
    content = "\n".join(["/- GENERATED by harness/gen_trysites.py from /repo's AST on every run — do not edit. -/",
                         "namespace Dfols.Gen", ""] + L + ["end Dfols.Gen", ""])
    old = open(path).read() if os.path.exists(path) else None
    if old != content:
        open(path, "w").write(content)
    if ctx is not None:
        ctx.cov["try_sites"] = info
    return info


if __name__ == "__main__":
    print(regenerate())
